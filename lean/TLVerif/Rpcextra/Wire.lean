import TLVerif.Prim.TL1String
/-!
Wire primitives used by the generated TL types of `pkg/rpc/internal/gen/internal` (TL1 format):
`basictl.NatRead/NatWrite`, `IntRead/IntWrite`, `LongRead/LongWrite`, `DoubleRead/DoubleWrite`
(all fixed-width little endian; `int32`/`int64`/`float64` are carried as their bit patterns in
`UInt32`/`UInt64`, which is exactly what the Go code puts on the wire), `StringRead/StringWrite`
(the model of `TLVerif.Prim`; `internal/vkgo/pkg/basictl` is byte-identical to `pkg/basictl`),
`CheckLengthSanity`, the `BuiltinVector*` readers/writers and the `BuiltinDictString*` readers/writers
(Go `map[string]T`, modelled as an association list sorted by key — see `dictInsert`).
-/
namespace TLVerif.Rpcextra
open TLVerif.Prim

/-- a reader: consumes a prefix, returns the value and the rest (Go: `func(w []byte, dst *T) ([]byte, error)`) -/
abbrev Rd (α : Type) := Bytes → Except RErr (α × Bytes)

def le32 (n : Nat) : Bytes := [byteOf n, byteOf (n >>> 8), byteOf (n >>> 16), byteOf (n >>> 24)]
def le64 (n : Nat) : Bytes :=
  [byteOf n, byteOf (n >>> 8), byteOf (n >>> 16), byteOf (n >>> 24),
   byteOf (n >>> 32), byteOf (n >>> 40), byteOf (n >>> 48), byteOf (n >>> 56)]

/-- `NatWrite` / `IntWrite` -/
def u32W (v : UInt32) : Bytes := le32 v.toNat
/-- `LongWrite` / `DoubleWrite` (`nat64Write`) -/
def u64W (v : UInt64) : Bytes := le64 v.toNat

/-- `NatRead` / `IntRead` -/
def u32R : Rd UInt32
  | a :: b :: c :: d :: rest =>
    .ok (UInt32.ofNat (a.toNat + (b.toNat <<< 8) + (c.toNat <<< 16) + (d.toNat <<< 24)), rest)
  | _ => .error .eof

/-- `LongRead` / `DoubleRead` -/
def u64R : Rd UInt64
  | a :: b :: c :: d :: e :: f :: g :: h :: rest =>
    .ok (UInt64.ofNat (a.toNat + (b.toNat <<< 8) + (c.toNat <<< 16) + (d.toNat <<< 24)
          + (e.toNat <<< 32) + (f.toNat <<< 40) + (g.toNat <<< 48) + (h.toNat <<< 56)), rest)
  | _ => .error .eof

/-- `StringWrite`. Go panics for strings of 2^56 bytes or more; no such slice can exist, and the
model then emits the raw content, which makes every enclosing packet fail its length check. -/
def strW (s : Bytes) : Bytes :=
  match stringWrite s with
  | some b => b
  | none => s

/-- `StringRead` -/
def strR : Rd Bytes := stringRead

/-- `item.Flags & (1<<i) != 0` -/
def hasBit (f : UInt32) (i : Nat) : Bool := f.toNat.testBit i

/-- a conditional field on the write side -/
def optW (c : Bool) (w : Bytes) : Bytes := if c then w else []

/-- a conditional field on the read side: read it if the bit is set, reset it otherwise -/
def optR {α : Type} (c : Bool) (rd : Rd α) (dflt : α) : Rd α :=
  fun r => if c then rd r else .ok (dflt, r)

/-- `for i := range vec { read(&vec[i]) }` -/
def readN {α : Type} (rd : Rd α) : Nat → Rd (List α)
  | 0, r => .ok ([], r)
  | n + 1, r =>
    match rd r with
    | .error e => .error e
    | .ok (x, r') =>
      match readN rd n r' with
      | .error e => .error e
      | .ok (xs, r'') => .ok (x :: xs, r'')

def writeAll {α : Type} (wr : α → Bytes) : List α → Bytes
  | [] => []
  | x :: xs => wr x ++ writeAll wr xs

/-- `CheckLengthSanity(r, n, 4)` -/
def lengthSane (r : Bytes) (n : UInt32) : Bool := !(r.length < n.toNat * 4)

/-- `BuiltinVector*WriteTL1`: `uint32(len(vec))` then the elements -/
def vecW {α : Type} (wr : α → Bytes) (v : List α) : Bytes :=
  u32W (UInt32.ofNat v.length) ++ writeAll wr v

/-- `BuiltinVector*ReadTL1` -/
def vecR {α : Type} (rd : Rd α) : Rd (List α) := fun r =>
  match u32R r with
  | .error e => .error e
  | .ok (l, r) => if lengthSane r l then readN rd l.toNat r else .error .eof

/-! ### dictionaries (`map[string]T`) -/

/-- Go string comparison (`sort.Strings`): bytewise lexicographic -/
def bytesLt : Bytes → Bytes → Bool
  | [], [] => false
  | [], _ :: _ => true
  | _ :: _, [] => false
  | a :: as, b :: bs => a < b || (a == b && bytesLt as bs)

/-- `m[k] = v` on the sorted association list that stands for the Go map -/
def dictInsert {β : Type} (k : Bytes) (v : β) : List (Bytes × β) → List (Bytes × β)
  | [] => [(k, v)]
  | (k', v') :: t =>
    if bytesLt k' k then (k', v') :: dictInsert k v t
    else if bytesLt k k' then (k, v) :: (k', v') :: t
    else (k, v) :: t

/-- building the map from the entries in wire order -/
def dictOfList {β : Type} (l : List (Bytes × β)) : List (Bytes × β) :=
  l.foldl (fun m kv => dictInsert kv.1 kv.2 m) []

/-- strictly increasing keys: the representation invariant of a map -/
def dictSorted {β : Type} : List (Bytes × β) → Bool
  | [] => true
  | [_] => true
  | a :: b :: t => bytesLt a.1 b.1 && dictSorted (b :: t)

def pairW {β : Type} (wr : β → Bytes) (kv : Bytes × β) : Bytes := strW kv.1 ++ wr kv.2

def pairR {β : Type} (rd : Rd β) : Rd (Bytes × β) := fun r =>
  match strR r with
  | .error e => .error e
  | .ok (k, r) =>
    match rd r with
    | .error e => .error e
    | .ok (v, r) => .ok ((k, v), r)

/-- `BuiltinDictString*WriteTL1`: count, then the entries in key order (the list is kept sorted) -/
def dictW {β : Type} (wr : β → Bytes) (m : List (Bytes × β)) : Bytes :=
  u32W (UInt32.ofNat m.length) ++ writeAll (pairW wr) m

/-- `BuiltinDictString*ReadTL1`: count, sanity check, `clear(m)`, then `m[key] = value` per entry -/
def dictR {β : Type} (rd : Rd β) : Rd (List (Bytes × β)) := fun r =>
  match u32R r with
  | .error e => .error e
  | .ok (l, r) =>
    if lengthSane r l then
      match readN (pairR rd) l.toNat r with
      | .error e => .error e
      | .ok (es, r) => .ok (dictOfList es, r)
    else .error .eof

end TLVerif.Rpcextra
