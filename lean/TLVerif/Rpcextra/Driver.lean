import TLVerif.Util.Hex
import TLVerif.Rpcextra.Format
/-!
Line protocol of the `rpcextra` family (every line is a self-contained case).

Encodings: integers decimal (bit patterns, unsigned); byte strings inside composite words `x<hex>`;
lists comma separated, `-` = empty; dictionary entries `x<key>:<val>`; request extra = 14 words
`flags rid wsbp wbp sfk ifk sf if ct scv rd pq tc ec`; response extra = 12 words
`flags bp bt pid rqs rss fs cv stats sbp epoch view`.
-/
namespace TLVerif.Rpcextra
open TLVerif.Util TLVerif.Prim

def pU32 (s : String) : Option UInt32 :=
  match s.toNat? with
  | some n => if n < 4294967296 then some (UInt32.ofNat n) else none
  | none => none

def pU64 (s : String) : Option UInt64 :=
  match s.toNat? with
  | some n => if n < 18446744073709551616 then some (UInt64.ofNat n) else none
  | none => none

def pBool (s : String) : Option Bool := if s == "1" then some true else if s == "0" then some false else none

/-- `x<hex>` -/
def pStr (s : String) : Option Bytes :=
  match s.toList with
  | 'x' :: cs => bytesOfHexAux cs []
  | _ => none

def pList {α : Type} (p : String → Option α) (s : String) : Option (List α) :=
  if s == "-" then some [] else (s.splitOn ",").mapM p

def pPair {β : Type} (p : String → Option β) (s : String) : Option (Bytes × β) :=
  match s.splitOn ":" with
  | [k, v] => do let k ← pStr k; let v ← p v; pure (k, v)
  | _ => none

/-- entries are inserted in line order into the map, as the harness does -/
def pDict {β : Type} (p : String → Option β) (s : String) : Option (List (Bytes × β)) :=
  (pList (pPair p) s).map dictOfList

def pPQ (s : String) : Option PersistentRequest :=
  match s.splitOn ":" with
  | ["p", a, b] => do pure (.prepare (← pU64 a) (← pU64 b))
  | ["c", a, b, c, d] => do pure (.commit (← pU64 a) (← pU64 b) (← pU64 c) (← pU64 d))
  | _ => none

def pTC (s : String) : Option TraceContext :=
  match s.splitOn ":" with
  | [m, lo, hi, p, src] => do
    pure { fieldsMask := ← pU32 m, traceLo := ← pU64 lo, traceHi := ← pU64 hi, parentId := ← pU64 p, sourceId := ← pStr src }
  | _ => none

def pPid (s : String) : Option NetPid :=
  match s.splitOn ":" with
  | [a, b, c] => do pure { ip := ← pU32 a, portPid := ← pU32 b, utime := ← pU32 c }
  | _ => none

def pReqExtra : List String → Option ReqExtra
  | [fl, rid, wsbp, wbp, sfk, ifk, sf, ifw, ct, scv, rd, pq, tc, ec] => do
    pure { flags := ← pU32 fl, requesterId := ← pU64 rid, waitShardsBinlogPos := ← pDict pU64 wsbp,
           waitBinlogPos := ← pU64 wbp, stringForwardKeys := ← pList pStr sfk, intForwardKeys := ← pList pU64 ifk,
           stringForward := ← pStr sf, intForward := ← pU64 ifw, customTimeoutMs := ← pU32 ct,
           supportedCompressionVersion := ← pU32 scv, randomDelay := ← pU64 rd, persistentQuery := ← pPQ pq,
           traceContext := ← pTC tc, executionContext := ← pStr ec }
  | _ => none

def pResExtra : List String → Option ResExtra
  | [fl, bp, bt, pid, rqs, rss, fs, cv, st, sbp, en, vn] => do
    pure { flags := ← pU32 fl, binlogPos := ← pU64 bp, binlogTime := ← pU64 bt, enginePid := ← pPid pid,
           requestSize := ← pU32 rqs, responseSize := ← pU32 rss, failedSubqueries := ← pU32 fs,
           compressionVersion := ← pU32 cv, stats := ← pDict pStr st, shardsBinlogPos := ← pDict pU64 sbp,
           epochNumber := ← pU64 en, viewNumber := ← pU64 vn }
  | _ => none

def pErr (s : String) : Option HandlerErr :=
  match s.splitOn ":" with
  | ["-"] => some .none
  | ["n"] => some .noHandler
  | ["e", c, d] => do pure (.rpc (← pU32 c) (← pStr d))
  | ["w", c, d] => do pure (.rpc (← pU32 c) (← pStr d))   -- `fmt.Errorf("…%w", &rpc.Error{…})`
  | ["o", d] => do pure (.other (← pStr d))
  | _ => none

/-! printing -/

def sHex (b : Bytes) : String :=
  String.ofList ('x' :: b.foldr (fun b acc => hexDigit (b.toNat / 16) :: hexDigit (b.toNat % 16) :: acc) [])

def sList {α : Type} (f : α → String) (l : List α) : String :=
  if l.isEmpty then "-" else ",".intercalate (l.map f)

def sBool (b : Bool) : String := if b then "1" else "0"
def sU32 (v : UInt32) : String := toString v.toNat
def sU64 (v : UInt64) : String := toString v.toNat

def sPQ : PersistentRequest → String
  | .prepare a b => s!"p:{sU64 a}:{sU64 b}"
  | .commit a b c d => s!"c:{sU64 a}:{sU64 b}:{sU64 c}:{sU64 d}"

def sTC (t : TraceContext) : String :=
  s!"{sU32 t.fieldsMask}:{sU64 t.traceLo}:{sU64 t.traceHi}:{sU64 t.parentId}:{sHex t.sourceId}"

def sReqExtra (e : ReqExtra) : String :=
  " ".intercalate [sU32 e.flags, sU64 e.requesterId,
    sList (fun kv => sHex kv.1 ++ ":" ++ sU64 kv.2) e.waitShardsBinlogPos, sU64 e.waitBinlogPos,
    sList sHex e.stringForwardKeys, sList sU64 e.intForwardKeys, sHex e.stringForward, sU64 e.intForward,
    sU32 e.customTimeoutMs, sU32 e.supportedCompressionVersion, sU64 e.randomDelay, sPQ e.persistentQuery,
    sTC e.traceContext, sHex e.executionContext]

def sResExtra (e : ResExtra) : String :=
  " ".intercalate [sU32 e.flags, sU64 e.binlogPos, sU64 e.binlogTime,
    s!"{sU32 e.enginePid.ip}:{sU32 e.enginePid.portPid}:{sU32 e.enginePid.utime}",
    sU32 e.requestSize, sU32 e.responseSize, sU32 e.failedSubqueries, sU32 e.compressionVersion,
    sList (fun kv => sHex kv.1 ++ ":" ++ sHex kv.2) e.stats,
    sList (fun kv => sHex kv.1 ++ ":" ++ sU64 kv.2) e.shardsBinlogPos, sU64 e.epochNumber, sU64 e.viewNumber]

def sRErr (e : RErr) : String :=
  match e with
  | .eof => "eof"
  | _ => "rej"

def sHctx (h : Hctx) : String :=
  let to := match h.customTimeout with | some t => sU32 t | none => "d"
  s!"{sU64 h.queryId} {sU64 h.actorId} {sBool h.tl2} {sU32 h.reqTag} {sBool h.noResult} {sU32 h.fieldsMask} {to} {hexOfBytes h.request} {sReqExtra h.extra}"

def sParsedReq : Except RErr Hctx → String
  | .error e => sRErr e
  | .ok h => "ok " ++ sHctx h

def sOutcome : Outcome → String
  | .ok => "ok"
  | .rpcError c d => s!"e:{sU32 c}:{sHex d}"

def sParsedResp : Except RErr (UInt64 × Bytes × ResExtra × Outcome) → String
  | .error e => sRErr e
  | .ok (q, b, ex, o) => s!"ok {sU64 q} {hexOfBytes b} {sOutcome o} {sResExtra ex}"

def sHctxNoQid (h : Hctx) : String :=
  let to := match h.customTimeout with | some t => sU32 t | none => "d"
  s!"{sU64 h.actorId} {sBool h.tl2} {sU32 h.reqTag} {sBool h.noResult} {sU32 h.fieldsMask} {to} {hexOfBytes h.request} {sReqExtra h.extra}"

def sCall : CallResult → String
  | .refused => "refused"
  | .serverRejects e => "srv-" ++ sRErr e
  | .noAnswer => "no-answer"
  | .clientRejects hc e => s!"ok {sHctxNoQid hc} | {sRErr e}"
  | .done hc b ex o => s!"ok {sHctxNoQid hc} | {hexOfBytes b} {sOutcome o} {sResExtra ex}"

def errPrefix (s : String) : String :=
  if s == "eof" || s == "rej" then "err " ++ s else s

def handle (op : String) (args : List String) : String :=
  match op, args with
  | "req", q :: a :: t :: b :: ex =>
    match pU64 q, pU64 a, pBool t, bytesOfHex b, pReqExtra ex with
    | some q, some a, some t, some b, some ex =>
      match preparePacket { body := b, actorId := a, extra := ex, tl2 := t, queryId := q } with
      | none => "big"
      | some p => s!"ok {hexOfBytes p.1} {p.2} {sParsedReq (parseInvokeReq (wireOf p))}"
    | _, _, _, _, _ => "bad-op"
  | "fwd", q :: a :: t :: b :: ex =>
    match pU64 q, pU64 a, pBool t, bytesOfHex b, pReqExtra ex with
    | some q, some a, some t, some b, some ex =>
      match preparePacket { body := b, actorId := a, extra := ex, tl2 := t, queryId := q } with
      | none => "big"
      | some p =>
        match viaProxy (wireOf p) with
        | .error e => "proxy-" ++ sRErr e
        | .ok none => "fwd-big"
        | .ok (some r) => errPrefix (sParsedReq r)
    | _, _, _, _, _ => "bad-op"
  | "reqbig", n :: q :: a :: t :: ex =>
    -- a request whose body is the tag 01 02 03 04 followed by n-4 zero bytes (n ≥ 4): only lengths are printed
    match n.toNat?, pU64 q, pU64 a, pBool t, pReqExtra ex with
    | some n, some q, some a, some t, some ex =>
      if n < 4 then "bad-op" else
      match preparePacket { body := [1, 2, 3, 4] ++ List.replicate (n - 4) 0, actorId := a, extra := ex, tl2 := t, queryId := q } with
      | none => "big"
      | some p =>
        match parseInvokeReq (wireOf p) with
        | .error e => s!"ok {p.1.length} {p.2} {sRErr e}"
        | .ok h => s!"ok {p.1.length} {p.2} ok {h.request.length} {sReqExtra h.extra}"
    | _, _, _, _, _ => "bad-op"
  | "parse", [w] =>
    match bytesOfHex w with
    | some w => errPrefix (sParsedReq (parseInvokeReq w))
    | none => "bad-op"
  | "resp", q :: rf :: t :: nr :: tag :: er :: b :: ex =>
    match pU64 q, pU32 rf, pBool t, pBool nr, pU32 tag, pErr er, bytesOfHex b, pResExtra ex with
    | some q, some rf, some t, some nr, some tag, some er, some b, some ex =>
      match prepareResponseBody { queryId := q, response := b, extra := ex, reqFlags := rf, tl2 := t,
                                  noResult := nr, reqTag := tag } er with
      | .noResult => "nores"
      | .tooLarge => "big"
      | .ok resp es fl => s!"ok {hexOfBytes resp} {es} {sU32 fl} {sParsedResp (parseResponse t (wireOf (resp, es)))}"
    | _, _, _, _, _, _, _, _ => "bad-op"
  | "rparse", [t, w] =>
    match pBool t, bytesOfHex w with
    | some t, some w => errPrefix (sParsedResp (parseResponse t w))
    | _, _ => "bad-op"
  -- `e2el`: the same call answered through the long-poll path (StartLongpoll / FinishLongpoll / SendLongpollResponse);
  -- the property does not distinguish the two, neither does the model
  | "e2el", a :: t :: b :: rest
  | "e2e", a :: t :: b :: rest =>
    match pU64 a, pBool t, bytesOfHex b, pReqExtra (rest.take 14), rest.drop 14 with
    | some a, some t, some b, some ex, er :: rb :: rex =>
      match pErr er, bytesOfHex rb, pResExtra rex with
      | some er, some rb, some rex =>
        -- the client picks the query id; it is not observable in the result
        sCall (call { body := b, actorId := a, extra := ex, tl2 := t, queryId := 1 }
                 (fun _ => { response := rb, extra := rex, err := er }))
      | _, _, _ => "bad-op"
    | _, _, _, _, _ => "bad-op"
  | "xread", [w] =>
    match bytesOfHex w with
    | some w =>
      match ReqExtra.read w with
      | .error e => "err " ++ sRErr e
      | .ok (e, rest) => s!"ok {w.length - rest.length} {sReqExtra e}"
    | none => "bad-op"
  | "yread", [w] =>
    match bytesOfHex w with
    | some w =>
      match ResExtra.read w with
      | .error e => "err " ++ sRErr e
      | .ok (e, rest) => s!"ok {w.length - rest.length} {sResExtra e}"
    | none => "bad-op"
  | _, _ => "bad-op"

end TLVerif.Rpcextra
