import TLVerif.Rpcextra.Extras
/-!
Model of `pkg/rpc/rpc_format.go` and of the few lines of its callers that move the bytes:

* client, request:   `preparePacket` (appends `queryID`, the wrapper, the TL2 marker *after* the user body
  in `req.Body` and records `extraStart`), `writeRequest` (`Body[extraStart:]` then `Body[:extraStart]`);
* server, request:   `HandlerContext.ParseInvokeReq` + `fillInvokeReqInternals`, on a `reset()` context;
* server, response:  `HandlerContext.prepareResponseBody` (error conversion, `ResponseExtra.Flags &=
  requestExtraFieldsmask`, `ReqResultHeader` wrapper, TL2 marker), `writeResponseUnlocked`;
* client, response:  `clientConn.handlePacket` (`RpcReqResultHeader` case: reads the query id) and
  `parseResponseExtra`.

Tags and limits come from the regenerated facts file.
-/
namespace TLVerif.Rpcextra
open TLVerif.Prim TLVerif.Facts.Rpcextra

def tDestActor : UInt32 := UInt32.ofNat tagRpcDestActor
def tDestFlags : UInt32 := UInt32.ofNat tagRpcDestFlags
def tDestActorFlags : UInt32 := UInt32.ofNat tagRpcDestActorFlags
def tTL2Marker : UInt32 := UInt32.ofNat tagRpcTL2Marker
def tReqResultHeader : UInt32 := UInt32.ofNat tagReqResultHeader
def tReqError : UInt32 := UInt32.ofNat tagReqError
def tRpcReqResultError : UInt32 := UInt32.ofNat tagRpcReqResultError
def tRpcReqResultErrorWrapped : UInt32 := UInt32.ofNat tagRpcReqResultErrorWrapped

/-- `validBodyLen` -/
def validBodyLen (n : Nat) : Bool := !(n > maxPacketLen - packetOverhead)

/-- `rpc.Request` (the fields that reach the wire) -/
structure Request where
  body : Bytes := []          -- `Body` as serialised by the caller (starts with the function tag)
  actorId : UInt64 := 0       -- `ActorID` (int64 bits)
  extra : ReqExtra := {}      -- `Extra`
  tl2 : Bool := false         -- `BodyFormatTL2`
  queryId : UInt64 := 0       -- `queryID`
  deriving DecidableEq, Repr, Inhabited

/-- what `preparePacket` appends after the user body -/
def requestHeader (req : Request) : Bytes :=
  u64W req.queryId
    ++ (if req.actorId != 0 && req.extra.flags != 0 then
          u32W tDestActorFlags ++ (u64W req.actorId ++ req.extra.write)
        else if req.extra.flags != 0 then u32W tDestFlags ++ req.extra.write
        else if req.actorId != 0 then u32W tDestActor ++ u64W req.actorId
        else [])
    ++ (if req.tl2 then u32W tTL2Marker else [])

/-- `preparePacket`: new `req.Body` and `req.extraStart`, or the `validBodyLen` error -/
def preparePacket (req : Request) : Option (Bytes × Nat) :=
  let buf := req.body ++ requestHeader req
  if validBodyLen buf.length then some (buf, req.body.length) else none

/-- `writeRequest` / `writeResponseUnlocked`: the packet body is `buf[extraStart:]` then `buf[:extraStart]` -/
def wireOf (p : Bytes × Nat) : Bytes := p.1.drop p.2 ++ p.1.take p.2

/-- the part of `HandlerContext` that `ParseInvokeReq` fills (fields start at their `reset()` value) -/
structure Hctx where
  queryId : UInt64 := 0
  actorId : UInt64 := 0
  extra : ReqExtra := {}          -- `RequestExtra`
  tl2 : Bool := false             -- `bodyFormatTL2`
  reqTag : UInt32 := 0
  request : Bytes := []           -- `Request` (what is left for the handler)
  noResult : Bool := false
  fieldsMask : UInt32 := 0        -- `requestExtraFieldsmask`
  customTimeout : Option UInt32 := none  -- `timeout`: `some ms` from the extra, `none` = server default
  deriving DecidableEq, Repr, Inhabited

structure WrapCount where
  actorSet : Nat := 0
  extraSet : Nat := 0
  tl2Set : Nat := 0
  tl2NotLast : Bool := false
  deriving DecidableEq, Repr, Inhabited

/-- the `loop:` of `ParseInvokeReq`. The Go `for` is unbounded; here it is driven by `fuel`, `none` = fuel exhausted.
Every iteration but the last consumes at least 4 bytes, so `len/4 + 1` iterations always suffice:
`parseWrappers_fuel` (FormatLemmas) proves `none` is unreachable from `parseInvokeReqFrom`. -/
def parseWrappers : Nat → Hctx → WrapCount → Option (Except RErr (Hctx × WrapCount))
  | 0, _, _ => none
  | fuel + 1, h, c =>
    match u32R h.request with
    | .error e => some (.error e)
    | .ok (tag, afterTag) =>
      if tag == tDestActor then
        match u64R afterTag with
        | .error e => some (.error e)
        | .ok (a, r) =>
          parseWrappers fuel { h with actorId := a, request := r }
            { c with actorSet := c.actorSet + 1, tl2NotLast := c.tl2NotLast || c.tl2Set != 0 }
      else if tag == tDestFlags then
        match ReqExtra.read afterTag with
        | .error e => some (.error e)
        | .ok (e, r) =>
          parseWrappers fuel { h with extra := e, request := r }
            { c with extraSet := c.extraSet + 1, tl2NotLast := c.tl2NotLast || c.tl2Set != 0 }
      else if tag == tDestActorFlags then
        match u64R afterTag with
        | .error e => some (.error e)
        | .ok (a, r) =>
          match ReqExtra.read r with
          | .error e => some (.error e)
          | .ok (e, r) =>
            parseWrappers fuel { h with actorId := a, extra := e, request := r }
              { c with actorSet := c.actorSet + 1, extraSet := c.extraSet + 1,
                       tl2NotLast := c.tl2NotLast || c.tl2Set != 0 }
      else if tag == tTL2Marker then
        parseWrappers fuel { h with tl2 := true, request := afterTag } { c with tl2Set := c.tl2Set + 1 }
      else some (.ok ({ h with reqTag := tag }, c))

/-- `fillInvokeReqInternals`: `CustomTimeoutMs > 0` as `int32` -/
def fillInternals (h : Hctx) : Hctx :=
  { h with noResult := hasBit h.extra.flags 7,
           fieldsMask := h.extra.flags,
           customTimeout :=
             if 0 < h.extra.customTimeoutMs.toNat && h.extra.customTimeoutMs.toNat < 2147483648
             then some h.extra.customTimeoutMs else none }

/-- `ParseInvokeReq` on context `h0` whose `Request` is the packet body `wire` -/
def parseInvokeReqFrom (h0 : Hctx) (wire : Bytes) : Except RErr Hctx :=
  match u64R wire with
  | .error e => .error e
  | .ok (q, r) =>
    match parseWrappers (r.length / 4 + 1) { h0 with queryId := q, request := r } {} with
    | none => .error .other   -- unreachable (`parseWrappers_fuel`)
    | some (.error e) => .error e
    | some (.ok (h, c)) =>
      if c.actorSet > 1 || c.extraSet > 1 then .error .other
      else if c.tl2Set > 1 then .error .other
      else if c.tl2NotLast then .error .other
      else .ok (fillInternals h)

/-- on a freshly `reset()` handler context -/
def parseInvokeReq (wire : Bytes) : Except RErr Hctx := parseInvokeReqFrom {} wire

/-! ### responses -/

/-- the `err` a handler returns, as `prepareResponseBody` classifies it -/
inductive HandlerErr where
  | none
  | rpc (code : UInt32) (desc : Bytes)   -- `*rpc.Error` (possibly wrapped: `errors.As`)
  | noHandler                           -- `ErrNoHandler`
  | other (desc : Bytes)                -- any other error: `err.Error()`
  deriving DecidableEq, Repr, Inhabited

/-- `err == nil` -/
def HandlerErr.isNone : HandlerErr → Bool
  | .none => true
  | _ => false

/-- two's complement of a (negative) `int32` constant -/
def i32 (c : Int) : UInt32 := UInt32.ofNat (c % 4294967296).toNat

def hexDigitLower (n : Nat) : UInt8 := if n < 10 then UInt8.ofNat (48 + n) else UInt8.ofNat (87 + n)

/-- `fmt.Sprintf("%08x", tag)` -/
def hex8 (t : UInt32) : Bytes :=
  [28, 24, 20, 16, 12, 8, 4, 0].map (fun s => hexDigitLower ((t.toNat >>> s) % 16))

/-- `fmt.Sprintf("RPC handler for #%08x not found", reqTag)` -/
def noHandlerDescription (reqTag : UInt32) : Bytes :=
  "RPC handler for #".toUTF8.toList ++ hex8 reqTag ++ " not found".toUTF8.toList

/-- code and description put on the wire for a handler error -/
def errorOnWire (reqTag : UInt32) : HandlerErr → Option (UInt32 × Bytes)
  | .none => none
  | .rpc code desc => some (if code == 0 then i32 errUnknown else code, desc)
  | .noHandler => some (i32 errNoHandler, noHandlerDescription reqTag)
  | .other desc => some (i32 errUnknown, desc)

/-- the state `prepareResponseBody` reads -/
structure RespIn where
  queryId : UInt64 := 0
  response : Bytes := []        -- `hctx.Response` as written by the handler
  extra : ResExtra := {}        -- `hctx.ResponseExtra`
  reqFlags : UInt32 := 0        -- `requestExtraFieldsmask`
  tl2 : Bool := false           -- `bodyFormatTL2`
  noResult : Bool := false
  reqTag : UInt32 := 0
  deriving DecidableEq, Repr, Inhabited

inductive Prepared where
  | noResult                                     -- nothing is sent
  | tooLarge                                     -- `validBodyLen` error (Response already replaced)
  | ok (resp : Bytes) (extraStart : Nat) (flags : UInt32)  -- `Response`, `extraStart`, `ResponseExtra.Flags` after masking
  deriving DecidableEq, Repr, Inhabited

/-- `ResponseExtra.Flags &= requestExtraFieldsmask` -/
def maskedExtra (h : RespIn) : ResExtra := { h.extra with flags := h.extra.flags &&& h.reqFlags }

/-- the body part of the response: the handler's bytes, or the boxed `RpcReqResultError` replacing them -/
def responseBody (h : RespIn) (err : HandlerErr) : Bytes :=
  match errorOnWire h.reqTag err with
  | none => h.response
  | some (code, desc) => u32W tRpcReqResultError ++ (u64W h.queryId ++ (u32W code ++ strW desc))

/-- `resp = basictl.NatWrite(resp, tl.ReqResultHeader{}.TLTag()); resp = hctx.ResponseExtra.WriteTL1(resp)` if `Flags != 0` -/
def extrasOnWire (ex : ResExtra) : Bytes := if ex.flags != 0 then u32W tReqResultHeader ++ ex.write else []

/-- `prepareResponseBody(err)` -/
def prepareResponseBody (h : RespIn) (err : HandlerErr) : Prepared :=
  let body := responseBody h err
  if h.noResult then .noResult
  else
    let ex := maskedExtra h
    let resp := body ++ u64W h.queryId ++ extrasOnWire ex
      ++ (if err.isNone && h.tl2 then u32W tTL2Marker else [])
    if validBodyLen resp.length then .ok resp body.length ex.flags else .tooLarge

/-- what the client call gets besides the body -/
inductive Outcome where
  | ok
  | rpcError (code : UInt32) (desc : Bytes)   -- `&rpc.Error{Code, Description}`
  deriving DecidableEq, Repr, Inhabited

/-- the `for` loop of `parseResponseExtra`: returns `respBody`, `extra`, `tag`, `afterTag`, `extraSet`;
`none` = fuel exhausted, unreachable from `parseResponseExtra` (`parseResultExtras_fuel`). -/
def parseResultExtras : Nat → ResExtra → Bytes → Nat → Option (Except RErr (Bytes × ResExtra × UInt32 × Bytes × Nat))
  | 0, _, _, _ => none
  | fuel + 1, ex, body, n =>
    match u32R body with
    | .error e => some (.error e)
    | .ok (tag, afterTag) =>
      if tag != tReqResultHeader then some (.ok (body, ex, tag, afterTag, n))
      else
        match ResExtra.read afterTag with
        | .error e => some (.error e)
        | .ok (ex', body') => parseResultExtras fuel ex' body' (n + 1)

def readCodeDesc (r : Bytes) : Except RErr (UInt32 × Bytes × Bytes) :=
  match u32R r with
  | .error e => .error e
  | .ok (code, r) =>
    match strR r with
    | .error e => .error e
    | .ok (desc, r) => .ok (code, desc, r)

/-- `parseResponseExtra(bodyFormatTL2, extra, respBody)`: remaining body, `*extra`, and `nil` / `*rpc.Error`;
`.error` stands for any other returned error (the call fails; `*extra` is then not meaningful). -/
def parseResponseExtra (tl2 : Bool) (ex0 : ResExtra) (body : Bytes) : Except RErr (Bytes × ResExtra × Outcome) :=
  match parseResultExtras (body.length / 4 + 1) ex0 body 0 with
  | none => .error .other   -- unreachable (`parseResultExtras_fuel`)
  | some (.error e) => .error e
  | some (.ok (body, ex, tag, afterTag, n)) =>
    if n > 1 then .error .other
    else if tag == tReqError then
      match readCodeDesc afterTag with
      | .error e => .error e
      | .ok (code, desc, r) => .ok (r, ex, .rpcError code desc)
    else if tag == tRpcReqResultError then
      match u64R afterTag with
      | .error e => .error e
      | .ok (_, r) =>
        match readCodeDesc r with
        | .error e => .error e
        | .ok (code, desc, r) => .ok (r, ex, .rpcError code desc)
    else if tag == tRpcReqResultErrorWrapped then
      match readCodeDesc afterTag with
      | .error e => .error e
      | .ok (code, desc, r) => .ok (r, ex, .rpcError code desc)
    else if tl2 then
      if tag != tTL2Marker then .error .other else .ok (afterTag, ex, .ok)
    else .ok (body, ex, .ok)

/-- `handlePacket`, case `RpcReqResultHeader`: query id, then `finishCall` → `parseResponseExtra` on a
`Response` taken from the pool (`Extra` zero). -/
def parseResponse (tl2 : Bool) (wire : Bytes) : Except RErr (UInt64 × Bytes × ResExtra × Outcome) :=
  match u64R wire with
  | .error e => .error e
  | .ok (q, r) =>
    match parseResponseExtra tl2 {} r with
    | .error e => .error e
    | .ok (b, ex, o) => .ok (q, b, ex, o)

/-! ### a proxy hop (`forward.go`) -/

/-- `HandlerContext.ForwardAndFlush`, case `RpcInvokeReqHeader`: the proxy re-sends what `ParseInvokeReq` left in its
context with `Request{Body: hctx.Request, Extra: hctx.RequestExtra, queryID: hctx.QueryID()}` — `ActorID` and
`BodyFormatTL2` are not copied. -/
def forwardRequest (hc : Hctx) : Option (Bytes × Nat) :=
  preparePacket { body := hc.request, extra := hc.extra, queryId := hc.queryId }

/-- client → proxy (`ParseInvokeReq`, `ForwardAndFlush`) → final server (`ParseInvokeReq`) -/
def viaProxy (wire : Bytes) : Except RErr (Option (Except RErr Hctx)) :=
  match parseInvokeReq wire with
  | .error e => .error e
  | .ok hc =>
    match forwardRequest hc with
    | none => .ok none
    | some p => .ok (some (parseInvokeReq (wireOf p)))

/-! ### one whole call (client → server → handler → client) -/

/-- what a handler leaves in `hctx.Response`, `hctx.ResponseExtra`, and the `err` it returns -/
structure Handler where
  response : Bytes := []
  extra : ResExtra := {}
  err : HandlerErr := .none
  deriving DecidableEq, Repr, Inhabited

/-- `SendResponse` → `PrepareResponse` on the context `ParseInvokeReq` filled -/
def respIn (hc : Hctx) (hd : Handler) : RespIn :=
  { queryId := hc.queryId, response := hd.response, extra := hd.extra, reqFlags := hc.fieldsMask,
    tl2 := hc.tl2, noResult := hc.noResult, reqTag := hc.reqTag }

/-- `fillRequestTimeout` (client `Do`) with no client default timeout and no context deadline: rejects a
custom timeout stored without its bit or negative, and clears the bit of an explicit 0 ("infinite"). -/
def clientTimeout (e : ReqExtra) : Option ReqExtra :=
  if !hasBit e.flags 23 && e.customTimeoutMs != 0 then none
  else if e.customTimeoutMs.toNat ≥ 2147483648 then none
  else if e.customTimeoutMs == 0 then some { e with flags := e.flags &&& ~~~((1 : UInt32) <<< 23), customTimeoutMs := 0 }
  else some e

inductive CallResult where
  | refused                      -- the client does not send it (`prepareCall`/`fillRequestTimeout`/`preparePacket` error)
  | serverRejects (e : RErr)     -- `ParseInvokeReq` error
  | noAnswer                     -- `noResult` / response too large
  | clientRejects (hc : Hctx) (e : RErr)
  | done (hc : Hctx) (body : Bytes) (ex : ResExtra) (o : Outcome)   -- what the handler saw, what the caller gets
  deriving DecidableEq, Repr, Inhabited

/-- the wire part of one call: `preparePacket`, `ParseInvokeReq`, the handler, `prepareResponseBody`,
`handlePacket`/`parseResponseExtra` -/
def exchange (req : Request) (handler : Hctx → Handler) : CallResult :=
  match preparePacket req with
  | none => .refused
  | some p =>
    match parseInvokeReq (wireOf p) with
    | .error e => .serverRejects e
    | .ok hc =>
      let hd := handler hc
      match prepareResponseBody (respIn hc hd) hd.err with
      | .noResult => .noAnswer
      | .tooLarge => .noAnswer
      | .ok resp es _ =>
        match parseResponse req.tl2 (wireOf (resp, es)) with
        | .error e => .clientRejects hc e
        | .ok (_, body, ex, o) => .done hc body ex o

/-- `Client.Do`: the checks in front of `preparePacket`, then the exchange -/
def call (req : Request) (handler : Hctx → Handler) : CallResult :=
  if hasBit req.extra.flags 7 then .refused   -- "sending no_result requests is not supported"
  else
    match clientTimeout req.extra with
    | none => .refused
    | some e => exchange { req with extra := e } handler

end TLVerif.Rpcextra
