import TLVerif.Util.Hex
import TLVerif.Prim.Driver
/-! `tlmodel`: reads one case per line (`<family>.<op> args…`), prints one result line. -/
open TLVerif

def dispatch (line : String) : String :=
  match Util.words line with
  | [] => "bad-op"
  | cmd :: args =>
    match cmd.splitOn "." with
    | ["prim", op] => Prim.handle op args
    | _ => "bad-op"

partial def loop (h : IO.FS.Stream) (out : IO.FS.Stream) : IO Unit := do
  let line ← h.getLine
  if line.isEmpty then return ()
  let l := line.trimAscii.toString
  out.putStrLn (dispatch l)
  loop h out

def main : IO Unit := do
  let out ← IO.getStdout
  loop (← IO.getStdin) out
  out.flush
