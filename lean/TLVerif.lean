import TLVerif.Generated.PrimFacts
import TLVerif.Prim.Driver
import TLVerif.Prim.TL1String
import TLVerif.Prim.TL1StringLemmas
import TLVerif.Prim.TL2Size
import TLVerif.Prim.TL2SizeLemmas
import TLVerif.Props.C33
import TLVerif.Util.Hex
