import TLVerif.Util.Hex
