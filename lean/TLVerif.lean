import TLVerif.Prim.TL1String
