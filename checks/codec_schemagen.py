"""Check-side helpers around checks/schemagen.py (random schemas with the generator's own descriptor):
building a cc.Schema whose model descriptor is schemagen's, a value generator that knows how `#` values are
used downstream (mask bits / sizes through nat parameters), and the x1 case lines."""
import os

from checks import codec_common as cc
from checks import schemagen as sg
from vlib.core import SplitMix64, hx


class NatUse:
    """how the value of nat parameter p of instance i is used below it: set of mask bits, used-as-size"""

    def __init__(self, insts):
        self.I = insts
        self.memo = {}

    def param(self, i, p, stack=()):
        key = (i, p)
        if key in self.memo:
            return self.memo[key]
        if key in stack:
            return set(), False
        stack = stack + (key,)
        ins = self.I[i]
        bits, size = set(), False
        k = ins["kind"]
        if k == "struct":
            for f in ins.get("fields") or []:
                m = f.get("mask")
                if m and m["k"] == "param" and m["v"] == p:
                    bits.add(f["bit"])
                for j, a in enumerate(f["natArgs"]):
                    if a["k"] == "param" and a["v"] == p:
                        b, s = self.param(f["ty"], j, stack)
                        bits |= b
                        size |= s
        elif k == "union":
            for j, a in enumerate(ins.get("elementNatArgs") or []):
                if a["k"] == "param" and a["v"] == p:
                    for v in ins["variants"]:
                        b, s = self.param(v, j, stack)
                        bits |= b
                        size |= s
        elif k in ("array", "dict"):
            if k == "array" and ins.get("dynamicSize") and p == 0:
                size = True
            else:
                for j, a in enumerate(ins["elem"]["natArgs"]):
                    if a["k"] == "param" and a["v"] == p:
                        b, s = self.param(ins["elem"]["ty"], j, stack)
                        bits |= b
                        size |= s
        self.memo[key] = (bits, size)
        return bits, size

    def field(self, s, idx):
        bits, size = set(), False
        for f in s.get("fields") or []:
            m = f.get("mask")
            if m and m["k"] == "field" and m["v"] == idx:
                bits.add(f["bit"])
            for j, a in enumerate(f["natArgs"]):
                if a["k"] == "field" and a["v"] == idx:
                    b, sz = self.param(f["ty"], j)
                    bits |= b
                    size |= sz
        return bits, size


class TooDeep(Exception):
    """the descriptor has a type without finite values along the path the generator took"""


class GenV(cc.Gen1):
    """Gen1 with `#` values chosen by their transitive use, and an output budget (nested fixed tuples multiply)."""

    def __init__(self, sc, rng, maxdepth=4, big=False, budget=6000):
        super().__init__(sc, rng, maxdepth=maxdepth, big=big)
        self.use = NatUse(self.I)
        self.budget = budget
        self.spent = 0

    def nat_field_value(self, s, idx, depth):
        r = self.rng
        bits, size = self.use.field(s, idx)
        tight = depth >= self.maxdepth or self.spent > self.budget
        if size:
            if tight:
                return r.choice([0, 0, 1])
            return r.choice([0, 1, 1, 2, 2, 3, 3, 4])
        if bits:
            if tight:
                return 0 if r.chance(2, 3) else sum(1 << b for b in bits if r.chance(1, 4))
            k = r.below(8)
            if k == 0:
                v = 0
            elif k == 1:
                v = sum(1 << b for b in bits)
            elif k == 2:
                v = r.below(2 ** 32)
            else:
                v = sum(1 << b for b in bits if r.chance(1, 2))
            if r.chance(1, 3):
                v |= r.below(2 ** 32) & ~sum(1 << b for b in bits) & 0xFFFFFFFF   # junk in unused bits must be carried verbatim
            return v
        return r.choice([0, 1, r.below(2 ** 32), r.below(16), 0xFFFFFFFF, 0x80000000])

    def value(self, ty, bare, params, depth):
        if depth > 60:
            raise TooDeep()
        i = self.I[ty]
        if i["kind"] in ("array", "dict") and not (i["kind"] == "array" and i.get("isTuple")) and self.spent > self.budget:
            self.spent += 4
            return self.u32(0)
        b = super().value(ty, bare, params, depth)
        if i["kind"] == "prim":
            self.spent += len(b)
        return b

    def top(self, ty, bare):
        self.spent = 0
        return self.value(ty, bare, [], 0)


def make_schema(c, sid, seed, size, sanity=True, features=None):
    """Generate schema number `sid` from its own seed; returns (cc.Schema, desc_mine, generator) — nothing of this
    comes from the kernel. The .tl text is written under the check's work directory."""
    text, desc, g = sg.gen_schema_ex(SplitMix64(seed), size, features)
    d = os.path.join(c.workdir, "schemas")
    os.makedirs(d, exist_ok=True)
    path = os.path.join(d, sid + ".tl")
    with open(path, "w") as f:
        f.write(text)
    sc = cc.Schema(sid, [path], tl2="", sanity=sanity)
    sc.text, sc.seed, sc.size = text, seed, size
    return sc, desc, g


def x1_lines(sc, rng, per, mutants=2, big=False, valid_idx=None):
    """valid encodings (+ random rest) and malformed variants for every factory item, bare and boxed;
    `valid_idx` (a list) receives the positions of the valid ones"""
    g = GenV(sc, rng.fork(), big=big)
    lines = []
    for inst, it in sc.items:
        for boxed in (0, 1):
            if inst["kind"] == "union" and not boxed:
                continue
            for _ in range(per):
                try:
                    b = g.top(inst["idx"], not boxed)
                except (TooDeep, RecursionError):
                    break
                rest = rng.bytes(rng.below(5)) if rng.chance(1, 3) else b""
                if valid_idx is not None:
                    valid_idx.append(len(lines))
                lines.append("codec.x1 %s %d %s %d %s" % (sc.sid, inst["idx"], inst["tlname"], boxed, hx(b + rest)))
                for _ in range(mutants):
                    m = cc.mutate(rng, b) if sc.sanity else mutate_small(rng, b)
                    lines.append("codec.x1 %s %d %s %d %s" % (sc.sid, inst["idx"], inst["tlname"], boxed, hx(m)))
    return lines


def mutate_small(rng, b):
    """malformed variants for schemas generated with --checkLengthSanity=false (no guard on element counts: any edit
    that shifts the structure can turn string bytes into a 2^31 count and the Go process into an OOM crash, which is
    the documented price of that flag, not a format question): truncation and appended bytes only"""
    if not b:
        return bytes([rng.below(4)])
    if rng.chance(3, 4):
        return bytes(b[:rng.below(len(b))])
    return bytes(b) + rng.bytes(rng.range(1, 8))


def tie_pinpoint(c, name, lines, impl, model, prefix):
    """c.tie, then every line the implementation did not answer (the driver buffers its output, so a dying process loses
    the answers of the whole chunk and vlib cannot tell which line killed it) is re-run in a process of its own."""
    res = c.tie(name, lines, impl, model, prefix=prefix)
    lost = [i for i, (l, a, b) in enumerate(res) if a in ("CRASH", "TIMEOUT")]
    if lost and len(lost) <= 2000:
        from vlib.core import run_lines
        again = []
        for k in range(0, len(lost), 32):
            part = [lines[i] for i in lost[k:k + 32]]
            again += run_lines(impl, part, jobs=len(part), prefix=prefix, mem_limit=c.impl_mem_limit, timeout=c.impl_timeout)
        fixed = {}
        for i, a in zip(lost, again):
            res[i] = (res[i][0], a, res[i][2])
            fixed[res[i][0]] = (a, res[i][2])
        keep = []
        for t in c.tie_failures:
            if t["tie"] == name and t["line"] in fixed and t["impl"] in ("CRASH", "TIMEOUT"):
                a, b = fixed[t["line"]]
                if a == b:
                    continue
                t["impl"] = a
            keep.append(t)
        c.tie_failures[:] = keep
    return res
