"""Check-side helpers around checks/schemagen.py (random schemas with the generator's own descriptor):
building a cc.Schema whose model descriptor is schemagen's, a value generator that knows how `#` values are
used downstream (mask bits / sizes through nat parameters), and the x1 case lines."""
import os

from checks import codec_common as cc
from checks import schemagen as sg
from vlib.core import SplitMix64, hx


class NatUse:
    """how the value of nat parameter p of instance i is used below it: set of mask bits, used-as-size"""

    def __init__(self, insts):
        self.I = insts
        self.memo = {}

    def param(self, i, p, stack=()):
        key = (i, p)
        if key in self.memo:
            return self.memo[key]
        if key in stack:
            return set(), False
        stack = stack + (key,)
        ins = self.I[i]
        bits, size = set(), False
        k = ins["kind"]
        if k == "struct":
            for f in ins.get("fields") or []:
                m = f.get("mask")
                if m and m["k"] == "param" and m["v"] == p:
                    bits.add(f["bit"])
                for j, a in enumerate(f["natArgs"]):
                    if a["k"] == "param" and a["v"] == p:
                        b, s = self.param(f["ty"], j, stack)
                        bits |= b
                        size |= s
        elif k == "union":
            for j, a in enumerate(ins.get("elementNatArgs") or []):
                if a["k"] == "param" and a["v"] == p:
                    for v in ins["variants"]:
                        b, s = self.param(v, j, stack)
                        bits |= b
                        size |= s
        elif k in ("array", "dict"):
            if k == "array" and ins.get("dynamicSize") and p == 0:
                size = True
            else:
                for j, a in enumerate(ins["elem"]["natArgs"]):
                    if a["k"] == "param" and a["v"] == p:
                        b, s = self.param(ins["elem"]["ty"], j, stack)
                        bits |= b
                        size |= s
        self.memo[key] = (bits, size)
        return bits, size

    def field(self, s, idx):
        bits, size = set(), False
        for f in s.get("fields") or []:
            m = f.get("mask")
            if m and m["k"] == "field" and m["v"] == idx:
                bits.add(f["bit"])
            for j, a in enumerate(f["natArgs"]):
                if a["k"] == "field" and a["v"] == idx:
                    b, sz = self.param(f["ty"], j)
                    bits |= b
                    size |= sz
        return bits, size


class TooDeep(Exception):
    """the descriptor has a type without finite values along the path the generator took"""


class GenV(cc.Gen1):
    """Gen1 with `#` values chosen by their transitive use, and an output budget (nested fixed tuples multiply)."""

    def __init__(self, sc, rng, maxdepth=4, big=False, budget=6000):
        super().__init__(sc, rng, maxdepth=maxdepth, big=big)
        self.use = NatUse(self.I)
        self.budget = budget
        self.spent = 0
        # sparse values (TL2: a body ends right after its last non-empty field, whole presence-mask blocks are dropped):
        # mode 'late' = in every constructor with ≥ 8 fields everything from a random cut (1..7) on is empty / absent
        self.mode = "dense"
        self.force_zero = 0
        self.cuts = [None]

    def set_mode(self, mode):
        self.mode = mode
        self.zero_bias = {"dense": 0, "sparse": 60, "sparser": 92, "late": 30}[mode]

    def prim(self, i):
        if self.force_zero:
            p = i["prim"]
            if p == "bool":
                return self.u32(i.get("falseTag", 0))
            return {"uint32": 4, "int32": 4, "float32": 4, "uint64": 8, "int64": 8, "float64": 8, "string": 4, "byte": 1}.get(p, 0) * b"\x00"
        return super().prim(i)

    def struct_body(self, s, params, depth):
        fields = s.get("fields") or []
        cut = None
        if self.mode == "late" and len(fields) >= 8 and not self.force_zero:
            cut = self.rng.range(1, 7)
        self.cuts.append(cut)
        try:
            out = b""
            vals = []
            for idx, f in enumerate(fields):
                present = True
                if f.get("mask"):
                    present = (self.natarg(f["mask"], vals, params) >> f["bit"]) & 1 == 1
                if not present:
                    vals.append(None)
                    continue
                late = cut is not None and idx >= cut
                self.force_zero += late
                try:
                    t = self.I[f["ty"]]
                    na = [self.natarg(a, vals, params) for a in f["natArgs"]]
                    if t["kind"] == "prim" and t["prim"] == "uint32":
                        v = self.nat_field_value(s, idx, depth)
                        vals.append(v)
                        out += self.u32(v)
                    else:
                        vals.append(None)
                        out += self.value(f["ty"], f["bare"], na, depth + 1)
                finally:
                    self.force_zero -= late
            return out
        finally:
            self.cuts.pop()

    def nat_field_value(self, s, idx, depth):
        r = self.rng
        if self.force_zero:
            return 0
        v = self.nat_field_value0(s, idx, depth)
        cut = self.cuts[-1]
        if cut is not None:
            # fields behind the cut are absent: clear the bits of the local masks they test
            for j, f in enumerate(s.get("fields") or []):
                m = f.get("mask")
                if j >= cut and m and m["k"] == "field" and m["v"] == idx:
                    v &= ~(1 << f["bit"])
        elif self.zero_bias and r.below(100) < self.zero_bias:
            bits, size = self.use.field(s, idx)
            if bits or size:
                v = 0 if r.chance(1, 2) else v & (1 << r.below(32))
        return v & 0xFFFFFFFF

    def nat_field_value0(self, s, idx, depth):
        r = self.rng
        bits, size = self.use.field(s, idx)
        tight = depth >= self.maxdepth or self.spent > self.budget
        if size:
            if tight:
                return r.choice([0, 0, 1])
            return r.choice([0, 1, 1, 2, 2, 3, 3, 4])
        if bits:
            if tight:
                return 0 if r.chance(2, 3) else sum(1 << b for b in bits if r.chance(1, 4))
            k = r.below(8)
            if k == 0:
                v = 0
            elif k == 1:
                v = sum(1 << b for b in bits)
            elif k == 2:
                v = r.below(2 ** 32)
            else:
                v = sum(1 << b for b in bits if r.chance(1, 2))
            if r.chance(1, 3):
                v |= r.below(2 ** 32) & ~sum(1 << b for b in bits) & 0xFFFFFFFF   # junk in unused bits must be carried verbatim
            return v
        return r.choice([0, 1, r.below(2 ** 32), r.below(16), 0xFFFFFFFF, 0x80000000])

    def value(self, ty, bare, params, depth):
        if depth > 60:
            raise TooDeep()
        i = self.I[ty]
        if self.force_zero:
            # the empty value of the type: first constructor, no elements
            if i["kind"] == "union":
                v = self.I[i["variants"][0]]
                na = [self.natarg(a, [], params) for a in (i.get("elementNatArgs") or [])]
                return self.u32(v["tag"]) + self.struct_body(v, na, depth)
            if i["kind"] in ("array", "dict") and not (i["kind"] == "array" and i.get("isTuple")):
                return self.u32(0)
        if i["kind"] in ("array", "dict") and not (i["kind"] == "array" and i.get("isTuple")) and self.spent > self.budget:
            self.spent += 4
            return self.u32(0)
        b = super().value(ty, bare, params, depth)
        if i["kind"] == "prim":
            self.spent += len(b)
        return b

    def top(self, ty, bare):
        self.spent = 0
        return self.value(ty, bare, [], 0)


def make_schema(c, sid, seed, size, sanity=True, features=None, tl2=False):
    """Generate schema number `sid` from its own seed; returns (cc.Schema, desc_mine, generator) — nothing of this
    comes from the kernel. The .tl text is written under the check's work directory. `tl2`: generate Go with
    --tl2WhiteList=* and mark every instance of the descriptor as TL2-enabled."""
    text, desc, g = sg.gen_schema_ex(SplitMix64(seed), size, features, has_tl2=tl2)
    d = os.path.join(c.workdir, "schemas")
    os.makedirs(d, exist_ok=True)
    path = os.path.join(d, sid + ".tl")
    with open(path, "w") as f:
        f.write(text)
    sc = cc.Schema(sid, [path], tl2="*" if tl2 else "", sanity=sanity)
    sc.text, sc.seed, sc.size = text, seed, size
    return sc, desc, g


def x1_lines(sc, rng, per, mutants=2, big=False, valid_idx=None):
    """valid encodings (+ random rest) and malformed variants for every factory item, bare and boxed;
    `valid_idx` (a list) receives the positions of the valid ones"""
    g = GenV(sc, rng.fork(), big=big)
    lines = []
    for inst, it in sc.items:
        for boxed in (0, 1):
            if inst["kind"] == "union" and not boxed:
                continue
            for _ in range(per):
                try:
                    b = g.top(inst["idx"], not boxed)
                except (TooDeep, RecursionError):
                    break
                rest = rng.bytes(rng.below(5)) if rng.chance(1, 3) else b""
                if valid_idx is not None:
                    valid_idx.append(len(lines))
                lines.append("codec.x1 %s %d %s %d %s" % (sc.sid, inst["idx"], inst["tlname"], boxed, hx(b + rest)))
                for _ in range(mutants):
                    m = cc.mutate(rng, b) if sc.sanity else mutate_small(rng, b)
                    lines.append("codec.x1 %s %d %s %d %s" % (sc.sid, inst["idx"], inst["tlname"], boxed, hx(m)))
    return lines


MODES = ["dense", "late", "sparse", "late", "sparser", "late"]


def x2_lines(sc, rng, per, big=False):
    """`codec.x2` (read TL1, write TL2) on valid TL1 encodings of every TL2-enabled factory item, bare and boxed; dense values and
    sparse ones (most fields empty / absent, in particular everything late in a wide constructor)"""
    from checks import codec_tl2 as t2
    g = GenV(sc, rng.fork(), big=big)
    lines = []
    for inst, it in t2.tl2_items(sc):
        if not it[3]:
            continue
        for boxed in (0, 1):
            if inst["kind"] == "union" and not boxed:
                continue
            for k in range(per):
                g.set_mode(MODES[k % len(MODES)])
                try:
                    b = g.top(inst["idx"], not boxed)
                except (TooDeep, RecursionError):
                    break
                lines.append(t2.x2_line(sc, inst, boxed, b))
    return lines


def zero2(g, ty, depth=0):
    """the empty Gen2 value of a type"""
    i = g.I[ty]
    k = i["kind"]
    if k == "prim":
        return ("p", b"" if i["prim"] == "string" else (False if i["prim"] in ("bool", "bit") else 0))
    if k == "struct":
        if depth > 40:
            raise TooDeep()
        fs = []
        for f in i.get("fields") or []:
            fs.append(None if (f.get("tl2bit") is not None or f["name"].startswith("_")) else zero2(g, f["ty"], depth + 1))
        return ("s", fs)
    if k == "union":
        return ("u", 0, zero2(g, i["variants"][0], depth + 1))
    if k == "array" and i.get("isTuple") and not i.get("dynamicSize"):
        return ("a", [zero2(g, i["elem"]["ty"], depth + 1) for _ in range(i.get("count", 0))])
    return ("a", [])


def sparsify(g, rng, ty, v, depth=0):
    """cut a Gen2 value: in constructors with ≥ 8 fields everything from a random position (1..7) on becomes empty / absent"""
    i = g.I[ty]
    k = i["kind"]
    if k == "struct":
        fields = i.get("fields") or []
        if (i.get("isAlias") or i.get("isUnwrap")) and not i.get("isUnionElement"):
            return ("s", [sparsify(g, rng, fields[0]["ty"], v[1][0], depth + 1)])
        cut = rng.range(1, 7) if len(fields) >= 8 else len(fields)
        fs = []
        for j, (f, x) in enumerate(zip(fields, v[1])):
            if j >= cut:
                fs.append(None if (f.get("tl2bit") is not None or f["name"].startswith("_")) else zero2(g, f["ty"]))
            elif x is None or x is True:
                fs.append(x)
            else:
                fs.append(sparsify(g, rng, f["ty"], x, depth + 1))
        return ("s", fs)
    if k == "union":
        return ("u", v[1], sparsify(g, rng, i["variants"][v[1]], v[2], depth + 1))
    if k in ("array", "dict"):
        return ("a", [sparsify(g, rng, i["elem"]["ty"], x, depth + 1) for x in v[1]])
    return v


def r2_gen_lines(sc, rng, per, big=False):
    """`codec.r2` on type-directed TL2 encodings (minimal and admissibly non-minimal), dense and cut values, and 2 malformed variants each"""
    from checks import codec_tl2 as t2
    g2 = t2.Gen2(sc, rng.fork(), big=big, negzero=True)
    lines = []
    for inst, it in t2.tl2_items(sc):
        if t2.is_enum_element(sc, inst):
            continue
        for k in range(per):
            try:
                v = g2.value(inst["idx"])
                if k % 2:
                    v = sparsify(g2, rng, inst["idx"], v)
                b = g2.top(inst, v, t2.Style(rng.fork(), p=rng.choice([3, 6])) if rng.chance(1, 2) else None)
            except (TooDeep, RecursionError):
                break
            lines.append(t2.r2_line(sc, inst, b))
            for _ in range(2):
                lines.append(t2.r2_line(sc, inst, t2.mutate2(rng, b)))
    return lines


def mutate_small(rng, b):
    """malformed variants for schemas generated with --checkLengthSanity=false (no guard on element counts: any edit
    that shifts the structure can turn string bytes into a 2^31 count and the Go process into an OOM crash, which is
    the documented price of that flag, not a format question): truncation and appended bytes only"""
    if not b:
        return bytes([rng.below(4)])
    if rng.chance(3, 4):
        return bytes(b[:rng.below(len(b))])
    return bytes(b) + rng.bytes(rng.range(1, 8))


def tie_pinpoint(c, name, lines, impl, model, prefix):
    """c.tie, then every line the implementation did not answer (the driver buffers its output, so a dying process loses
    the answers of the whole chunk and vlib cannot tell which line killed it) is re-run in a process of its own."""
    res = c.tie(name, lines, impl, model, prefix=prefix)
    lost = [i for i, (l, a, b) in enumerate(res) if a in ("CRASH", "TIMEOUT")]
    if lost and len(lost) <= 2000:
        from vlib.core import run_lines
        again = []
        for k in range(0, len(lost), 32):
            part = [lines[i] for i in lost[k:k + 32]]
            again += run_lines(impl, part, jobs=len(part), prefix=prefix, mem_limit=c.impl_mem_limit, timeout=c.impl_timeout)
        fixed = {}
        for i, a in zip(lost, again):
            res[i] = (res[i][0], a, res[i][2])
            fixed[res[i][0]] = (a, res[i][2])
        keep = []
        for t in c.tie_failures:
            if t["tie"] == name and t["line"] in fixed and t["impl"] in ("CRASH", "TIMEOUT"):
                a, b = fixed[t["line"]]
                if a == b:
                    continue
                t["impl"] = a
            keep.append(t)
        c.tie_failures[:] = keep
    return res
