"""C33 — TL primitive codecs are exact (DESIGN.md §4 C33)."""
from vlib.core import hx

MODULES = ["TLVerif.Props.C33"]
THEOREMS = ["TLVerif.Props.C33." + t for t in [
    "string_write_total", "string_roundtrip", "string_read_canonical", "string_truncation_eof",
    "string_write_aligned", "string_header_layout", "tl2_size_roundtrip", "tl2_huge_form_accepted",
    "tl2_put_calc_write_agree", "tl2_size_layout", "tl2_size_truncation_eof", "string_tl2_roundtrip",
    "bits_roundtrip", "bits_write_length", "bits_lsb_first"]]


def unhex(s):
    return b"" if s == "-" else bytes.fromhex(s)


def run(c):
    c.facts(["Prim"])
    c.lean(MODULES, THEOREMS)
    model = c.model_exe()
    impl = c.harness("hprim")
    rng = c.rng
    c.trusted += ["go/hprim harness; factgen constant extraction",
                  "modelled, not verified: Go slice/append semantics, encoding/binary"]
    c.assumptions += ["lengths above ~70k (quick) / 2^24+16 (thorough) are covered by the theorems and by header-only "
                      "`swlen` cases, not by full-content runs"]
    replay_lines = []
    if c.replay:
        for f in c.replay.get("failures", []):
            if f.get("input"):
                replay_lines.append(f["input"])
        for t in c.replay.get("broken_ties", []):
            replay_lines.append(t["line"])

    # ---------------- phase 1: writers over lengths
    maxlen = 4096 if c.thorough else 700
    lens = list(range(0, maxlen + 1)) + list(range(65789 - 16, 65790 + 17))
    lens += [rng.range(maxlen, 70000) for _ in range(40 if c.thorough else 8)]
    big = [2**24 - 2, 2**24 - 1, 2**24, 2**24 + 1, 2**24 + 3] if c.thorough else []
    lines = list(replay_lines)
    contents = {}
    for l in lens + big:
        kind = rng.below(4)
        if kind == 0:
            s = bytes(l)
        elif kind == 1:
            s = bytes([0xFF]) * l
        else:
            s = rng.bytes(l)
        lines.append("prim.sw " + hx(s))
        lines.append("prim.s2w " + hx(s))
    for l in list(range(0, 300)) + [253, 254, 255, 256, 2**16 + 253, 2**16 + 254, 2**24 - 1, 2**24, 2**24 + 1, 2**32 - 1, 2**32,
                                    2**56 - 1, 2**56, 2**62, 2**63 - 1] + [rng.below(2**56) for _ in range(200)]:
        lines.append("prim.swlen %d" % l)
        lines.append("prim.sz %d" % l)
    for l in list(range(250, 260)) + list(range(65780, 65800)) + [rng.below(2**63) for _ in range(300)]:
        lines.append("prim.sz %d" % l)
    for n in list(range(0, 70)) + [rng.range(70, 3000) for _ in range(20)]:
        for _ in range(3):
            bits = "".join("1" if rng.chance(1, 2) else "0" for _ in range(n)) or "-"
            lines.append("prim.bw " + bits)
    for v in [0, 1, 255, 256, 2**31, 2**32 - 1] + [rng.below(2**32) for _ in range(50)]:
        lines.append("prim.nw %d" % v)
    res1 = c.tie("writers", lines, impl, model)

    # oracle on writers: layout facts of the property statement, checked on the implementation output
    for l, a, _ in res1:
        f = l.split(" ")
        if f[0] == "prim.sw" and a.startswith("ok "):
            out = unhex(a.split(" ")[1])
            s = unhex(f[1])
            if "DIFFERS" in a:
                c.oracle_fail(l, "StringWrite and StringWriteBytes differ", l)
            if len(out) % 4 != 0:
                c.oracle_fail(l, "TL1 string encoding length %d is not a multiple of 4" % len(out), l)
            n = len(s)
            hdr = bytes([n]) if n <= 253 else (b"\xfe" + n.to_bytes(3, "little") if n < 2**24 else b"\xff" + n.to_bytes(7, "little"))
            exp = hdr + s
            exp += bytes(-len(exp) % 4)
            if out != exp:
                c.oracle_fail(l, "TL1 string of length %d is not in the documented layout" % n, l)
        if f[0] == "prim.sz" and a.startswith("ok "):
            p = a.split(" ")
            n = int(f[1])
            exp = bytes([n]) if n < 254 else (b"\xfe" + (n - 254).to_bytes(2, "little") if n < 254 + 65536 else b"\xff" + n.to_bytes(8, "little"))
            if unhex(p[1]) != exp or int(p[2]) != len(exp) or unhex(p[3]) != exp or int(p[4]) != len(exp):
                c.oracle_fail(l, "TL2 size %d: write/calculate/put disagree or are not in the documented layout" % n, l)
        if f[0] == "prim.bw" and a.startswith("ok "):
            bits = "" if f[1] == "-" else f[1]
            exp = bytearray((len(bits) + 7) // 8)
            for i, ch in enumerate(bits):
                if ch == "1":
                    exp[i // 8] |= 1 << (i % 8)
            if unhex(a.split(" ")[1]) != bytes(exp):
                c.oracle_fail(l, "bit vector of %d entries is not packed 8 per byte LSB first" % len(bits), l)

    # ---------------- phase 2: readers on what the implementation wrote (+rest), truncations, mutations
    lines2 = []
    expect = {}
    for l, a, _ in res1:
        f = l.split(" ")
        if not a.startswith("ok "):
            continue
        if f[0] in ("prim.sw", "prim.s2w"):
            rd = "prim.sr " if f[0] == "prim.sw" else "prim.s2r "
            out = unhex(a.split(" ")[1])
            s = unhex(f[1])
            rest = rng.bytes(rng.below(6))
            ln = rd + hx(out + rest)
            lines2.append(ln)
            expect[ln] = ("rt", s, len(out))
            # truncations: all for short ones, sampled for long
            cuts = range(len(out)) if len(out) <= 300 else [rng.below(len(out)) for _ in range(6)] + [len(out) - 1, len(out) - 2, len(out) - 3, 1, 3, 4]
            if len(out) > 300 and not c.thorough and rng.chance(2, 3):
                cuts = [len(out) - 1, 0]
            for k in cuts:
                if 0 <= k < len(out):
                    ln = rd + hx(out[:k])
                    lines2.append(ln)
                    expect[ln] = ("eof",)
            if f[0] == "prim.sw" and len(out) <= 70000:
                # padding mutations and non-minimal forms must be rejected
                n = len(s)
                hl = 1 if n <= 253 else 4
                pad = len(out) - hl - n
                for i in range(pad):
                    m = bytearray(out)
                    m[hl + n + i] = rng.range(1, 255)
                    ln = rd + hx(bytes(m) + rest)
                    lines2.append(ln)
                    expect[ln] = ("rej",)
                if n <= 253:
                    body = s + bytes(-(n) % 4)
                    ln = rd + hx(b"\xfe" + n.to_bytes(3, "little") + body + rest)
                    lines2.append(ln)
                    expect[ln] = ("rej",)
                if n < 2000:
                    body = s + bytes(-(n) % 4)
                    ln = rd + hx(b"\xff" + n.to_bytes(7, "little") + body + rest)
                    lines2.append(ln)
                    expect[ln] = ("rej",)
        if f[0] == "prim.sz":
            out = unhex(a.split(" ")[1])
            n = int(f[1])
            rest = rng.bytes(rng.below(4))
            ln = "prim.szr " + hx(out + rest)
            lines2.append(ln)
            expect[ln] = ("sz", n, len(out))
            for k in range(len(out)):
                ln = "prim.szr " + hx(out[:k])
                lines2.append(ln)
                expect[ln] = ("eof",)
            if n < 2**63:
                ln = "prim.szr " + hx(b"\xff" + n.to_bytes(8, "little") + rest)
                lines2.append(ln)
                expect[ln] = ("sz", n, 9)
        if f[0] == "prim.bw":
            out = unhex(a.split(" ")[1])
            bits = "" if f[1] == "-" else f[1]
            rest = rng.bytes(rng.below(3))
            ln = "prim.br %d %s" % (len(bits), hx(out + rest))
            lines2.append(ln)
            expect[ln] = ("bits", bits or "-", len(out))
            if out:
                ln = "prim.br %d %s" % (len(bits), hx(out[:-1]))
                lines2.append(ln)
                expect[ln] = ("eof",)
        if f[0] == "prim.nw":
            out = unhex(a.split(" ")[1])
            ln = "prim.nr " + hx(out + b"\x07")
            lines2.append(ln)
            expect[ln] = ("nat", int(f[1]))
    # all 2^16 medium headers (thorough) / a sample (quick): non-minimal check
    for v in (range(0, 65536, 1) if c.thorough else list(range(0, 600)) + [rng.below(65536) for _ in range(300)]):
        lines2.append("prim.sr " + hx(b"\xfe" + v.to_bytes(3, "little") + bytes(min(v, 300) + 4)))
    for b0 in range(256):
        lines2.append("prim.sr " + hx(bytes([b0]) + rng.bytes(rng.below(12))))
        lines2.append("prim.szr " + hx(bytes([b0]) + rng.bytes(rng.below(12))))
        lines2.append("prim.s2r " + hx(bytes([b0]) + rng.bytes(rng.below(300))))
    for _ in range(4000 if c.thorough else 800):
        r = rng.bytes(rng.below(24))
        lines2.append(rng.choice(["prim.sr ", "prim.szr ", "prim.s2r "]) + hx(r))
    res2 = c.tie("readers", lines2, impl, model)

    # oracle: round trip / eof / reject; and collect accepted inputs for the canonicity oracle
    lines3 = []
    back = {}
    for l, a, _ in res2:
        e = expect.get(l)
        f = l.split(" ")
        if "DIFFERS" in a:
            c.oracle_fail(l, "string and []byte reader variants differ: " + a[:200], l)
        if e:
            if e[0] == "rt":
                if a != "ok %s %d" % (hx(e[1]), e[2]):
                    c.oracle_fail(l, "written string does not read back exactly (got %s)" % a[:80], l)
            elif e[0] == "eof":
                if a != "err eof":
                    c.oracle_fail(l, "truncated input not reported as unexpected EOF (got %s)" % a[:80], l)
            elif e[0] == "rej":
                if not a.startswith("err"):
                    c.oracle_fail(l, "non-canonical TL1 string (padding / non-minimal length) accepted", l)
            elif e[0] == "sz":
                if a != "ok %d %d" % (e[1], e[2]):
                    c.oracle_fail(l, "TL2 size does not read back exactly (got %s)" % a[:80], l)
            elif e[0] == "bits":
                if a != "ok %s %d" % (e[1], e[2]):
                    c.oracle_fail(l, "bit vector does not unpack to the same values (got %s)" % a[:80], l)
            elif e[0] == "nat":
                if a != "ok %d 4" % e[1]:
                    c.oracle_fail(l, "nat does not read back", l)
        if f[0] == "prim.sr" and a.startswith("ok ") and "DIFFERS" not in a:
            p = a.split(" ")
            ln = "prim.sw " + p[1]
            lines3.append(ln)
            back.setdefault(ln, []).append((l, unhex(f[1])[:int(p[2])]))
    res3 = c.tie("canonical", sorted(set(lines3)), impl, model)
    for l, a, _ in res3:
        for (src, prefix) in back.get(l, []):
            if not a.startswith("ok ") or unhex(a.split(" ")[1]) != prefix:
                c.oracle_fail(src, "reader accepted bytes that are not the canonical encoding of the decoded string", src)
    c.extra["rule"] = ("lines: writers over every length 0..%d, boundary windows at 253/254, 65789/65790%s, random lengths; readers on the "
                       "implementation's own output + random rest, every truncation (sampled above 300 bytes), every padding byte "
                       "mutated, non-minimal medium/huge forms, all 256 first bytes, %s medium headers, random bytes; distinct = "
                       "distinct line text; all lines are non-trivial (each is a different input)" % (
                           maxlen, ", 2^24" if c.thorough else "", "all 65536" if c.thorough else "a sample of"))
