"""C13 — TL2 readers tolerate schema evolution and non-minimal encodings (DESIGN.md §4 C13)."""
from checks import codec_common as cc, codec_tl2 as t2
from vlib.core import hx

MODULES = ["TLVerif.Props.C13"]
THEOREMS = ["TLVerif.Props.C13." + t for t in [
    "huge_size_accepted", "reenc_huge_object", "oversize_rejected", "slice_ignores_rest", "explicit_zero_prim",
    "missing_tail_is_empty", "padded_mask_same", "unknown_tail_skipped", "fields_ignore_tail", "struct_unknown_tail_skipped",
    "model_codecs"]]

# (old, new): `new` appends fields / variants to `old` (checks/data/tl2extra.tl2)
EVOLUTION = [("x.ev1a", "x.ev1b"), ("x.ev2a", "x.ev2b"), ("x.ev3a", "x.ev3b"), ("x.ev4a", "x.ev4b"), ("x.Ev5a", "x.Ev5b"),
             ("x.ev6a", "x.ev6b"), ("x.seven", "x.eight")]


class Unknown(Exception):
    pass


def restrict(I, new, old, v):
    """the value an older schema version sees: appended fields dropped; a variant it does not know cannot be read"""
    if new == old:
        return v
    n, o = I[new], I[old]
    if n["kind"] != o["kind"]:
        raise ValueError("not an evolution pair")
    if n["kind"] == "struct":
        of, nf = o.get("fields") or [], n.get("fields") or []
        return ("s", [restrict(I, f2["ty"], f1["ty"], x) if isinstance(x, tuple) else x for f1, f2, x in zip(of, nf, v[1])])
    if n["kind"] == "union":
        if v[1] >= len(o["variants"]):
            raise Unknown()
        return ("u", v[1], restrict(I, n["variants"][v[1]], o["variants"][v[1]], v[2]))
    if n["kind"] in ("array", "dict"):
        return ("a", [restrict(I, n["elem"]["ty"], o["elem"]["ty"], x) for x in v[1]])
    return v


def has_size_prefix(I, ty):
    i = I[ty]
    while i["kind"] == "struct" and (i.get("isAlias") or i.get("isUnwrap")) and not i.get("isUnionElement"):
        i = I[i["fields"][0]["ty"]]
    return i["kind"] != "prim" or i["prim"] == "string"


def run(c):
    c.lean(MODULES, THEOREMS, sources=["TLVerif.Codec.TL2", "TLVerif.Codec.TL2Lemmas", "TLVerif.Codec.TL2RoundTrip", "TLVerif.Codec.TL2Evolution"])
    model, schemas = t2.prepare(c)
    rng = c.rng
    per = 20 if c.thorough else 4
    replay = set()
    if c.replay:
        for f in c.replay.get("failures", []):
            if f.get("input"):
                replay.add(f["input"])
        for t in c.replay.get("broken_ties", []):
            replay.add(t["line"])
    for sc in schemas:
        pre = [sc.desc_line()]
        I = sc.desc["instances"]
        by_name = {inst["tlname"]: inst for inst, _ in sc.items}
        g = t2.Gen2(sc, rng.fork(), big=c.thorough)
        expect = {}      # line -> (kind, expected prefix of the answer | None for "must be rejected", minimal line)
        for l in replay:
            if l.split(" ")[1] == sc.sid and l.startswith("codec.r2 "):
                expect.setdefault(l, ("replay", "", None))
        for inst, it in t2.tl2_items(sc):
            if t2.is_enum_element(sc, inst):
                continue
            for _ in range(per):
                v = g.value(inst["idx"])
                b = g.top(inst, v)
                lmin = t2.r2_line(sc, inst, b)
                expect.setdefault(lmin, ("minimal", "ok %d w2=%s " % (len(b), hx(b)), None))
                # admissible re-encodings of the same value: all kinds mixed, and one kind at a time
                for k in [None, None] + [rng.choice(t2.KINDS)]:
                    st = t2.Style(rng.fork(), p=rng.choice([2, 3, 6]), kinds=None if k is None else {k})
                    b2 = g.top(inst, v, st)
                    if b2 != b:
                        expect.setdefault(t2.r2_line(sc, inst, b2), ("reenc:" + "+".join(sorted(st.used)), "ok %d w2=%s " % (len(b2), hx(b)), lmin))
                # truncated input: every strict prefix must be rejected (declared size exceeds what is left, or EOF)
                if b:
                    cuts = range(len(b)) if len(b) <= 6 else [rng.below(len(b)) for _ in range(3)] + [len(b) - 1]
                    for n in cuts:
                        expect.setdefault(t2.r2_line(sc, inst, b[:n]), ("truncated", None, None))
                # oversize: the declared size of the top-level object exceeds the remaining input
                if b and has_size_prefix(I, inst["idx"]) and b[0] < 253:
                    over = bytes([b[0] + rng.range(1, 253 - b[0])]) + b[1:]
                    expect.setdefault(t2.r2_line(sc, inst, over), ("oversize", None, None))
                    expect.setdefault(t2.r2_line(sc, inst, b"\xff" + (b[0] + rng.range(1, 2 ** 40)).to_bytes(8, "little") + b[1:]), ("oversize", None, None))
        # schema evolution proper: written by the newer type, read by the older one, and vice versa
        for on, nn in EVOLUTION:
            if on not in by_name or nn not in by_name:
                continue
            o, n = by_name[on], by_name[nn]
            for _ in range(per * 4):
                v = g.value(n["idx"])
                st = t2.Style(rng.fork(), p=4) if rng.chance(1, 3) else None
                b2 = g.top(n, v, st)
                try:
                    b1 = g.top(o, restrict(I, n["idx"], o["idx"], v))
                    expect.setdefault(t2.r2_line(sc, o, b2), ("evolution:new->old", "ok %d w2=%s " % (len(b2), hx(b1)), None))
                except Unknown:
                    expect.setdefault(t2.r2_line(sc, o, b2), ("evolution:unknown-variant", None, None))
                v1 = g.value(o["idx"])
                b1 = g.top(o, v1)
                expect.setdefault(t2.r2_line(sc, n, b1), ("evolution:old->new", "ok %d w2=%s " % (len(b1), hx(b1)), None))
        lines = sorted(expect)
        res = c.tie("tl2-reenc:" + sc.sid, lines, sc.impl, model, prefix=pre)
        ans = {l: a for l, a, _ in res}
        for l, a, _ in res:
            kind, exp, lmin = expect[l]
            c.count("c13:" + kind.split(":")[0] + (":" + kind.split(":")[1] if kind.startswith("evolution") else ""))
            if kind.startswith("reenc:"):
                for k in kind[6:].split("+"):
                    c.count("reenc:" + k)
            if a == "panic":
                c.oracle_fail(l, "generated reader panics", l)
            elif exp is None:
                if not a.startswith("err "):
                    c.oracle_fail(l, "%s input is accepted: %s" % (kind, a[:120]), l)
            elif not a.startswith(exp):
                c.oracle_fail(l, "%s: expected `%s…`, got `%s`" % (kind, exp[:100], a[:120]), l)
            elif lmin is not None and ans.get(lmin, "").split(" ")[2:] != a.split(" ")[2:]:
                c.oracle_fail(l, "%s decodes to a different value than the minimal encoding: `%s` vs `%s`" % (kind, a[:100], ans.get(lmin, "")[:100]), l)
        # the same inputs decoded into an object that already holds a dense value: "fields missing at the end of a body are empty" and
        # "appended fields are ignored" must also hold when the destination is reused (pooled objects, vector elements)
        hist = []
        byidx = {inst["idx"]: inst for inst, it in t2.tl2_items(sc)}
        dense_of = {}
        for l in lines:
            f = l.split(" ")
            kind = expect[l][0]
            if expect[l][1] is None or f[4] == "-" or not (kind.startswith("evolution") or kind.startswith("reenc") or kind == "minimal"):
                continue
            idx = int(f[2])
            if idx not in byidx or t2.is_enum_element(sc, byidx[idx]):
                continue
            if idx not in dense_of:
                dense_of[idx] = [hx(g.top(byidx[idx], g.value(idx))) for _ in range(3)]
            if rng.chance(1, 3 if c.thorough else 6):
                hist.append("codec.seqx %s %s %s 2:%s 2:%s" % (f[1], f[2], f[3], rng.choice(dense_of[idx]) or "-", f[4]))
        fresh = sorted({"codec.seqx %s 2:%s" % (" ".join(l.split(" ")[1:4]), l.split(" ")[5][2:]) for l in hist})
        rh = c.tie("tl2-reuse:" + sc.sid, hist, sc.impl, model, prefix=pre)
        rf = c.tie("tl2-reuse-fresh:" + sc.sid, fresh, sc.impl, model, prefix=pre)
        fa = {l: a for l, a, _ in rf}
        for l, a, _ in rh:
            f = l.split(" ")
            want = fa.get("codec.seqx %s %s" % (" ".join(f[1:4]), f[5]))
            got = a.split(" | ")[-1]
            if want is not None and got != want:
                c.oracle_fail(l, "a (shorter / re-encoded / older-schema) TL2 body decoded into a reused object differs from the same body decoded "
                                 "into a fresh one: reused %s, fresh %s" % (got[:80], want[:80]), l)
    c.extra["rule"] = ("type-directed TL2 values per TL2-enabled factory item: minimal encoding; admissible re-encodings (huge-form sizes, explicit zero "
                       "fields / empty objects, padded masks, unknown trailing fields and bytes, omitted fields present, non-0/1 bools, dictionary order, "
                       "shorter / longer fixed arrays, explicit index 0); every strict prefix (small) or 4 prefixes; oversize declared sizes; evolution pairs "
                       "(written by the newer type, read by the older and vice versa). Oracle on the implementation: same value as the minimal encoding "
                       "(re-written bytes and TL1 form), exact consumed length, rejection of truncated/oversize input. distinct = distinct case line")
    c.assumptions += ["evolution pairs are the hand-written pairs of checks/data/tl2extra.tl2 (struct field appends across the 7/8 and 15/16 mask "
                      "boundaries, union variant/field appends); per-schema certificates are 'for every schema explored in this run'"]
