"""Executable description of what the dynamic interpreter internal/pure/onthefly does where it deviates from generated code
(C12: ops codec.x1, codec.x2, codec.r2).  One descriptor-driven TL1/TL2 reader/writer with named deviation switches:

  with no switch on it is the behaviour of the generated code (the same semantics as the Lean model `Codec/TL2.lean`, `writeTL1Z`);
  with all switches on it is the behaviour of onthefly (t_struct_value.go, t_array_value.go, t_dict_value.go, kernel_value.go).

C12 attributes a disagreement between the two implementations to known findings ONLY when
    predict(line, no switch) == answer of the generated code   and   predict(line, all switches) == answer of the interpreter,
i.e. when the interpreter's answer is exactly the reference answer with the named deviations applied; the findings named are the
switches whose removal changes the prediction.  Anything else stays a violation.  The model is never used to excuse the
generated code and never replaces the Lean model in the ties.  It also tells C12 which lines would make the interpreter allocate
far more elements than the input has bytes (`predict_info`), so that those are not sent to it (fixed probes stand for them).

Values are trees as in codec_tl2.Gen2: ('p', x) primitive, ('s', [field | None]) struct, ('u', idx, ('s', …)) union,
('a', [elems]) array/dict (dict elements are ('s', [k, v]))."""

# deviation switches (each is one known finding of C12, see C12.py for keys and witnesses)
A_TRUE_OBJECT = "A"    # present masked `true` field: generated code = presence bit only; onthefly writes/reads an (empty) object
B_EMPTY_ARRAY = "B"    # empty array/dict that must be written: generated code `00`; onthefly `01 00` (size 1, count 0)
C_REPAIR = "C"         # WriteTL1 of n*[T] whose length differs from n: generated code reports an error; onthefly resizes the tuple to n
D_DUP_FIRST = "D"      # duplicate dictionary keys: generated code keeps the last value, onthefly the first
F_NEGZERO = "F"        # (legacy) float compare `x != 0` in the TL2 emptiness test: -0.0 is "empty"; was the generated code's behaviour (L2), never onthefly's
S_TRUE_PARSED = "S"    # object in the position of an unmasked empty-struct field: generated code skips it by size, onthefly parses it
T_TUPLE_COUNT = "T"    # ReadTL2 of a dynamic-size tuple: generated code rejects count > remaining bytes, onthefly allocates count elements
N_NO_SANITY = "N"      # ReadTL1: generated code (--checkLengthSanity) rejects a count n with n*4 > remaining bytes, onthefly has no such check
# A, B, D and T were genuine defects of the interpreter repaired in /repo (fix: commits 360642cb, 416c533f, 92d22a53, 1a52b76f: see known_findings.json `fixed`);
# their switches stay in the model so that the repaired behaviour is what is predicted, but they are no longer part of ALL:
# if one of them returns, the disagreement is not reproduced by the model and is reported as a violation.
# F was a genuine defect of the GENERATED code (lead L2: `x != 0` is false for -0.0, the sign was lost through TL2), repaired in the
# generator (`TypeRWPrimitive.nonZeroCondition`: `(x != 0 || 1/x < 0)`, a float is empty iff its bit pattern is zero, which is what
# the interpreter always did).  The reference (no switch) now has the repaired behaviour; switch F selects the old float compare and
# is in no prediction: if generated code loses -0.0 again, its answer is not reproduced and C12 reports a violation.
ALL = frozenset("CSN")

RUNAWAY = 1 << 30      # elements; from here on onthefly is predicted to die (n interface values + n objects: tens of GB)
QUIET = 4096           # up to here an allocation "out of thin air" is harmless; in between the outcome depends on the machine:
                       # such lines are kept away from the interpreter (C12 filters them with `predict_info`)


class Err(Exception):            # reader error; kind = "eof" | "rej" (the harnesses' errStr enum)
    def __init__(self, kind):
        self.kind = kind


class WErr(Exception):           # generated WriteTL1 returned an error (wrong sequence length)
    pass


class TooBig(Exception):         # onthefly would allocate `n` elements here
    def __init__(self, where, n):
        self.where, self.n = where, n


class Band(Exception):           # an allocation between QUIET and RUNAWAY: outcome depends on the machine, not predicted
    pass


class Unsupported(Exception):    # a construct this description does not cover: no attribution possible
    pass


def _size(n):
    if n < 254:
        return bytes([n])
    if n < 254 + 65536:
        return b"\xfe" + (n - 254).to_bytes(2, "little")
    return b"\xff" + n.to_bytes(8, "little")


def _parse_size(r):
    if not r:
        raise Err("eof")
    b0 = r[0]
    if b0 < 254:
        return b0, r[1:]
    if b0 == 254:
        if len(r) < 3:
            raise Err("eof")
        return 254 + int.from_bytes(r[1:3], "little"), r[3:]
    if len(r) < 9:
        raise Err("eof")
    n = int.from_bytes(r[1:9], "little")
    if n > 2 ** 63 - 1:
        raise Err("rej")
    return n, r[9:]


class Model:
    def __init__(self, sc, dev):
        self.I = sc.desc["instances"]
        self.dev = frozenset(dev)
        self.sanity = sc.sanity
        self.big = 0          # largest number of elements onthefly creates without input bytes backing them

    def on(self, x):
        return x in self.dev

    # ------------------------------------------------------------------ descriptor helpers
    def forwards(self, i):
        return (i.get("isAlias") or i.get("isUnwrap")) and not i.get("isUnionElement")

    def is_empty_struct(self, ty):
        i = self.I[ty]
        return i["kind"] == "struct" and not (i.get("fields") or [])

    @staticmethod
    def optional(f):
        return f.get("tl2bit") is not None or bool(f.get("mask"))

    @staticmethod
    def omitted(f):
        return (f["name"] or "").startswith("_")

    def prim_of(self, ty):
        i = self.I[ty]
        return i["prim"] if i["kind"] == "prim" else None

    def zero(self, ty):
        i = self.I[ty]
        k = i["kind"]
        if k == "prim":
            p = i["prim"]
            return ("p", b"" if p == "string" else False if p in ("bool", "bit") else 0)
        if k == "struct":
            return ("s", [None if self.optional(f) or self.omitted(f) else self.zero(f["ty"]) for f in i.get("fields") or []])
        if k == "union":
            return ("u", 0, self.zero(i["variants"][0]))
        if k == "array" and i.get("isTuple") and not i.get("dynamicSize"):
            return ("a", [self.zero(i["elem"]["ty"]) for _ in range(i.get("count", 0))])
        return ("a", [])

    def natarg(self, a, vals, params):
        if a["k"] == "num":
            return a["v"]
        if a["k"] == "param":
            if a["v"] >= len(params):
                raise Unsupported("nat param")
            return params[a["v"]]
        v = vals[a["v"]] if a["v"] < len(vals) else None
        if v is None:
            return 0                       # a `#` field that is itself absent counts as 0
        if v[0] != "p" or not isinstance(v[1], int):
            raise Unsupported("nat field")
        return v[1]

    def dict_key(self, i, e):
        kv = e[1][0]
        kt = self.I[i["elem"]["ty"]]["fields"][0]["ty"]
        while self.I[kt]["kind"] == "struct":
            kt = self.I[kt]["fields"][0]["ty"]
            kv = kv[1][0]
        p = self.I[kt]["prim"]
        x = kv[1]
        if p == "int32" and x >= 2 ** 31:
            return x - 2 ** 32
        if p == "int64" and x >= 2 ** 63:
            return x - 2 ** 64
        if p in ("float32", "float64", "bit"):
            raise Unsupported("dictionary key " + p)
        return x

    def normalize(self, i, es):
        """map semantics + sorted output.  Generated code: Go map, a later duplicate overwrites.  onthefly: sort, then
        slices.CompactFunc keeps the first of equal keys (the sort is stable for the sizes that occur: insertion sort ≤ 12)."""
        d = {}
        for e in es:
            k = self.dict_key(i, e)
            if k in d and self.on(D_DUP_FIRST):
                continue
            d[k] = e
        if self.on(D_DUP_FIRST) and len(es) > 12 and len(d) != len(es):
            raise Unsupported("unstable sort with duplicates")
        return [d[k] for k in sorted(d)]

    # ------------------------------------------------------------------ TL2 writer
    def prim_empty(self, p, x):
        if p == "float32" and self.on(F_NEGZERO):
            return x % 2 ** 31 == 0
        if p == "float64" and self.on(F_NEGZERO):
            return x % 2 ** 63 == 0
        if p == "string":
            return len(x) == 0
        return not x

    @staticmethod
    def prim_bytes(p, x):
        if p in ("uint32", "int32", "float32"):
            return x.to_bytes(4, "little")
        if p in ("uint64", "int64", "float64"):
            return x.to_bytes(8, "little")
        if p == "byte":
            return bytes([x])
        if p == "string":
            return _size(len(x)) + x
        if p == "bool":
            return b"\x01" if x else b"\x00"
        raise Unsupported("prim " + p)

    @staticmethod
    def body(ui, rs):
        blocks = [[1 if ui else 0, _size(ui) if ui else b""]]
        for i, r in enumerate(rs):
            if (i + 1) % 8 == 0:
                blocks.append([0, b""])
            if r is not None:
                blocks[-1][0] |= 1 << ((i + 1) % 8)
                blocks[-1][1] += r
        while blocks and blocks[-1][0] == 0:
            blocks.pop()
        return b"".join(bytes([m]) + c for m, c in blocks)

    @staticmethod
    def obj(body, zie):
        if not body:
            return None if zie else b"\x00"
        return _size(len(body)) + body

    def enc2(self, ty, v, zie):
        """bytes, or None when nothing is written and the presence bit stays clear"""
        i = self.I[ty]
        k = i["kind"]
        if k == "prim":
            p = i["prim"]
            if p == "bit":
                raise Unsupported("bit")
            if zie and self.prim_empty(p, v[1]):
                return None
            return self.prim_bytes(p, v[1])
        if k == "struct":
            fields = i.get("fields") or []
            if self.forwards(i):
                return self.enc2(fields[0]["ty"], v[1][0], zie)
            rs = []
            for f, x in zip(fields, v[1]):
                if self.omitted(f):
                    raise Unsupported("omitted field")
                if f.get("tl2bit") is not None:
                    if x is None:
                        rs.append(None)
                    elif f.get("isBit"):
                        if self.I[f["ty"]]["kind"] != "struct":
                            raise Unsupported("bit field")
                        rs.append(self.enc2(f["ty"], x, False) if self.on(A_TRUE_OBJECT) else b"")
                    else:
                        rs.append(self.enc2(f["ty"], x, False))
                elif f.get("mask"):
                    raise Unsupported("masked field without a TL2 bit")
                elif self.is_empty_struct(f["ty"]):
                    rs.append(None)       # generated code never writes it; onthefly writes it with optimizeEmpty: nothing
                else:
                    rs.append(self.enc2(f["ty"], x if x is not None else self.zero(f["ty"]), True))
            ui = i.get("unionIndex", 0) if i.get("isUnionElement") else 0
            return self.obj(self.body(ui, rs), zie)
        if k == "union":
            if v[1] >= len(i["variants"]):         # malformed on purpose (bump_union): an object that carries only the index
                return self.obj(self.body(v[1], []), zie)
            return self.enc2(i["variants"][v[1]], v[2], zie)
        if k in ("array", "dict"):
            es = v[1]
            e = i["elem"]
            if self.prim_of(e["ty"]) == "bit":
                raise Unsupported("bit array")
            cnt = v[2] if len(v) > 2 else len(es)      # ('a', es, n): probe builder, count on the wire differs from the elements
            if not es and not cnt:
                if zie:
                    return None
                return b"\x01\x00" if self.on(B_EMPTY_ARRAY) else b"\x00"
            body = _size(cnt) + b"".join(self.enc2(e["ty"], x, False) for x in es)
            return _size(len(body)) + body
        raise Unsupported(k)

    # ------------------------------------------------------------------ TL2 reader
    def slice_body(self, r):
        n, r = _parse_size(r)
        if len(r) < n:
            raise Err("rej")
        return r[:n], r[n:]

    def read_head(self, cur):
        block = cur[0]
        cur = cur[1:]
        idx = 0
        if block & 1:
            idx, cur = _parse_size(cur)
        return block, idx, cur

    def read_prim2(self, p, r):
        if p in ("uint32", "int32", "float32"):
            if len(r) < 4:
                raise Err("eof")
            return ("p", int.from_bytes(r[:4], "little")), r[4:]
        if p in ("uint64", "int64", "float64"):
            if len(r) < 8:
                raise Err("eof")
            return ("p", int.from_bytes(r[:8], "little")), r[8:]
        if p == "byte":
            if not r:
                raise Err("eof")
            return ("p", r[0]), r[1:]
        if p == "string":
            n, r = _parse_size(r)
            if len(r) < n:
                raise Err("eof")
            return ("p", bytes(r[:n])), r[n:]
        if p == "bool":
            if not r:
                raise Err("eof")
            return ("p", r[0] != 0), r[1:]
        raise Unsupported("prim " + p)

    def read_fields2(self, fields, block, cur):
        out = []
        for i, f in enumerate(fields):
            if (i + 1) % 8 == 0:
                if cur:
                    block, cur = cur[0], cur[1:]
                else:
                    block = 0
            bit = block & (1 << ((i + 1) % 8)) != 0
            if self.omitted(f):
                raise Unsupported("omitted field")
            if f.get("isBit"):
                if self.I[f["ty"]]["kind"] != "struct" or f.get("tl2bit") is None:
                    raise Unsupported("bit field")
                if bit and self.on(A_TRUE_OBJECT):
                    v, cur = self.read2(f["ty"], cur)      # onthefly reads an object here
                    out.append(v)
                else:
                    out.append(self.zero(f["ty"]) if bit else None)
            elif self.is_empty_struct(f["ty"]) and not self.on(S_TRUE_PARSED):
                # generated code: SkipSizedValue, and the field never becomes present
                if bit:
                    n, cur = _parse_size(cur)
                    if len(cur) < n:
                        raise Err("rej")
                    cur = cur[n:]
                out.append(None if self.optional(f) else self.zero(f["ty"]))
            elif bit:
                v, cur = self.read2(f["ty"], cur)
                out.append(v)
            else:
                out.append(None if self.optional(f) else self.zero(f["ty"]))
        return out

    def read2(self, ty, r):
        i = self.I[ty]
        k = i["kind"]
        if k == "prim":
            return self.read_prim2(i["prim"], r)
        if k == "struct":
            fields = i.get("fields") or []
            if self.forwards(i):
                v, r = self.read2(fields[0]["ty"], r)
                return ("s", [v]), r
            cur, rest = self.slice_body(r)
            if not cur:
                return self.zero(ty), rest
            block, idx, cur = self.read_head(cur)
            ui = i.get("unionIndex", 0) if i.get("isUnionElement") else 0
            if block & 1 and idx != ui:
                raise Err("rej")
            return ("s", self.read_fields2(fields, block, cur)), rest
        if k == "union":
            cur, rest = self.slice_body(r)
            if not cur:
                return self.zero(ty), rest
            block, idx, cur = self.read_head(cur)
            if idx >= len(i["variants"]):
                raise Err("rej")
            vi = self.I[i["variants"][idx]]
            return ("u", idx, ("s", self.read_fields2(vi.get("fields") or [], block, cur))), rest
        if k in ("array", "dict"):
            e = i["elem"]
            if self.prim_of(e["ty"]) == "bit":
                raise Unsupported("bit array")
            cur, rest = self.slice_body(r)
            count = 0
            if cur:
                count, cur = _parse_size(cur)
            fixed = k == "array" and i.get("isTuple") and not i.get("dynamicSize")
            if fixed:
                es = []
                for _ in range(min(count, i.get("count", 0))):
                    v, cur = self.read2(e["ty"], cur)
                    es.append(v)
                while len(es) < i.get("count", 0):
                    es.append(self.zero(e["ty"]))
                return ("a", es), rest
            dyn = k == "array" and i.get("isTuple")
            if count > len(cur):
                if not (dyn and self.on(T_TUPLE_COUNT)):
                    raise Err("eof")
                self.big = max(self.big, count)
                if count >= RUNAWAY:
                    raise TooBig("ReadTL2", count)
                if count > QUIET:
                    raise Band()
            es = []
            for _ in range(count):
                v, cur = self.read2(e["ty"], cur)
                es.append(v)
            if k == "dict":
                es = self.normalize(i, es)
            return ("a", es), rest
        raise Unsupported(k)

    # ------------------------------------------------------------------ TL1 reader (valid inputs of the x2 phase only)
    def read_prim1(self, i, r):
        p = i["prim"]
        if p in ("uint32", "int32", "float32", "uint64", "int64", "float64", "byte"):
            return self.read_prim2(p, r)
        if p == "bool":
            if len(r) < 4:
                raise Err("eof")
            t = int.from_bytes(r[:4], "little")
            if t == i.get("trueTag", 0):
                return ("p", True), r[4:]
            if t == i.get("falseTag", 0):
                return ("p", False), r[4:]
            raise Err("rej")
        if p == "string":
            if not r:
                raise Err("eof")
            if r[0] < 254:
                n, h = r[0], 1
            elif r[0] == 254:
                if len(r) < 4:
                    raise Err("eof")
                n, h = int.from_bytes(r[1:4], "little"), 4
                if n < 254:
                    raise Unsupported("non-canonical string")
            else:
                raise Unsupported("huge string form")
            tot = h + n + (-(h + n) % 4)
            if len(r) < tot:
                raise Err("eof")
            if any(r[h + n:tot]):
                raise Unsupported("string padding")
            return ("p", bytes(r[h:h + n])), r[tot:]
        raise Unsupported("prim " + p)

    def read_fields1(self, fields, params, r):
        vals = []
        for f in fields:
            if f.get("mask") and not (self.natarg(f["mask"], vals, params) >> f["bit"]) & 1:
                vals.append(None)
                continue
            na = [self.natarg(a, vals, params) for a in f["natArgs"]]
            v, r = self.read1(f["ty"], f["bare"], na, r)
            vals.append(v)
        return vals, r

    def read1(self, ty, bare, params, r):
        i = self.I[ty]
        k = i["kind"]
        if k == "prim":
            return self.read_prim1(i, r)
        if k == "struct":
            if not bare:
                if len(r) < 4:
                    raise Err("eof")
                if int.from_bytes(r[:4], "little") != i["tag"]:
                    raise Err("rej")
                r = r[4:]
            vals, r = self.read_fields1(i.get("fields") or [], params, r)
            return ("s", vals), r
        if k == "union":
            if len(r) < 4:
                raise Err("eof")
            t = int.from_bytes(r[:4], "little")
            na = [self.natarg(a, [], params) for a in (i.get("elementNatArgs") or [])]
            for vi, v in enumerate(i["variants"]):
                if self.I[v]["tag"] == t:
                    vals, r = self.read_fields1(self.I[v].get("fields") or [], na, r[4:])
                    return ("u", vi, ("s", vals)), r
            raise Err("rej")
        if k in ("array", "dict"):
            e = i["elem"]
            na = [self.natarg(a, [], params) for a in e["natArgs"]]
            if k == "array" and i.get("isTuple"):
                n = (params[0] if params else 0) if i.get("dynamicSize") else i.get("count", 0)
            else:
                if len(r) < 4:
                    raise Err("eof")
                n = int.from_bytes(r[:4], "little")
                r = r[4:]
            if not (k == "array" and i.get("isTuple") and not i.get("dynamicSize")) and n * 4 > len(r):
                # basictl.CheckLengthSanity(r, n, 4) of generated vectors, dictionaries and n*[T] (elements of zero wire size included)
                if self.sanity and not self.on(N_NO_SANITY):
                    raise Err("eof")
                self.big = max(self.big, n)
                if n >= RUNAWAY:
                    raise TooBig("ReadTL1", n)
                if n > QUIET:
                    raise Band()
            elif n > QUIET:
                raise Unsupported("count")
            es = []
            for _ in range(n):
                v, r = self.read1(e["ty"], e["bare"], na, r)
                es.append(v)
            if k == "dict":
                es = self.normalize(i, es)
            return ("a", es), r
        raise Unsupported(k)

    # ------------------------------------------------------------------ TL1 writer for values as the readers leave them
    def write_prim1(self, i, x):
        p = i["prim"]
        if p in ("uint32", "int32", "float32", "uint64", "int64", "float64", "byte"):
            return self.prim_bytes(p, x)
        if p == "bool":
            return (i.get("trueTag", 0) if x else i.get("falseTag", 0)).to_bytes(4, "little")
        if p == "string":
            n = len(x)
            if n >= 1 << 24:
                raise Unsupported("huge string")
            b = (bytes([n]) if n < 254 else b"\xfe" + n.to_bytes(3, "little")) + x
            return b + bytes(-len(b) % 4)
        raise Unsupported("prim " + p)

    def write_fields1(self, fields, params, vals):
        out = b""
        for f, x in zip(fields, vals):
            if f.get("mask") and not (self.natarg(f["mask"], vals, params) >> f["bit"]) & 1:
                continue
            na = [self.natarg(a, vals, params) for a in f["natArgs"]]
            out += self.write1(f["ty"], f["bare"], na, x if x is not None else self.zero(f["ty"]))
        return out

    def write1(self, ty, bare, params, v):
        i = self.I[ty]
        k = i["kind"]
        if k == "prim":
            return self.write_prim1(i, v[1])
        if k == "struct":
            return (b"" if bare else i["tag"].to_bytes(4, "little")) + self.write_fields1(i.get("fields") or [], params, v[1])
        if k == "union":
            vi = self.I[i["variants"][v[1]]]
            na = [self.natarg(a, [], params) for a in (i.get("elementNatArgs") or [])]
            return vi["tag"].to_bytes(4, "little") + self.write_fields1(vi.get("fields") or [], na, v[2][1])
        if k in ("array", "dict"):
            e = i["elem"]
            na = [self.natarg(a, [], params) for a in e["natArgs"]]
            es = v[1]
            out = b""
            if k == "array" and i.get("isTuple"):
                n = (params[0] if params else 0) if i.get("dynamicSize") else i.get("count", 0)
                if len(es) != n:
                    if not self.on(C_REPAIR):
                        raise WErr()
                    self.big = max(self.big, n)
                    if n >= RUNAWAY:
                        raise TooBig("WriteTL1", n)
                    if n > QUIET:
                        raise Band()
                    es = es[:n] + [self.zero(e["ty"]) for _ in range(n - len(es))]     # `v.resize(n) // RepairMasks`
            else:
                out = len(es).to_bytes(4, "little")
            return out + b"".join(self.write1(e["ty"], e["bare"], na, x) for x in es)
        raise Unsupported(k)


def _hx(b):
    return b.hex() if len(b) else "-"


def predict(sc, line, dev):
    return predict_info(sc, line, dev)[0]


def predict_info(sc, line, dev):
    """(answer, big): the answer the harness protocol would print for `line` (codec.x2 / codec.r2) under the deviation set `dev`
    (`TOOBIG:<where>` when onthefly is predicted to run away; None when the description does not cover the case) and the largest
    element count created without input bytes behind it."""
    m = Model(sc, dev)
    return _predict(m, line), m.big


def _predict(m, line):
    f = line.split(" ")
    try:
        ty = int(f[2])
        inst = m.I[ty]
        has_boxed = inst["kind"] == "union" or inst.get("tag", 0) != 0
        if f[0] == "codec.x1":
            data = b"" if f[5] == "-" else bytes.fromhex(f[5])
            try:
                v, rest = m.read1(ty, f[4] != "1", [], data)
            except Err as e:
                return "err " + e.kind
            try:
                w1 = "n/a" if inst["kind"] == "union" else _hx(m.write1(ty, True, [], v))
                w1b = _hx(m.write1(ty, False, [], v)) if has_boxed else "n/a"
            except WErr:
                return None
            return "ok %d w1=%s w1b=%s" % (len(data) - len(rest), w1, w1b)
        if f[0] == "codec.x2":
            data = b"" if f[5] == "-" else bytes.fromhex(f[5])
            try:
                v, _ = m.read1(ty, f[4] != "1", [], data)
            except Err as e:
                return "err " + e.kind
            w2 = m.enc2(ty, v, False) or b""
            try:
                w1 = _hx(m.write1(ty, False, [], v)) if has_boxed and not inst.get("originTL2") else "n/a"
            except WErr:
                w1 = "werr"
            return "ok w2=%s w1b=%s" % (_hx(w2), w1)
        if f[0] == "codec.r2":
            data = b"" if f[4] == "-" else bytes.fromhex(f[4])
            try:
                v, rest = m.read2(ty, data)
            except Err as e:
                return "err " + e.kind
            w2 = m.enc2(ty, v, False) or b""
            try:
                w1 = _hx(m.write1(ty, False, [], v)) if has_boxed and not inst.get("originTL2") else "n/a"
            except WErr:
                w1 = "werr"
            return "ok %d w2=%s w1b=%s" % (len(data) - len(rest), _hx(w2), w1)
    except TooBig as e:
        return "TOOBIG:" + e.where
    except Band:
        return "BAND"
    except (Unsupported, IndexError, KeyError, TypeError, ValueError, RecursionError):
        return None
    return None


def explain(sc, line, gen_out, otf_out):
    """set of deviation switches that explain why onthefly answered `otf_out` where generated code answered `gen_out`, or None.
    Exact: the reference prediction must reproduce the generated code's answer and the all-deviations prediction the interpreter's."""
    if predict(sc, line, ()) != gen_out:
        return None
    full = predict(sc, line, ALL)
    if full is None:
        return None
    if full.startswith("TOOBIG:"):
        if otf_out not in ("CRASH", "TIMEOUT"):
            return None
    elif full != otf_out:
        return None
    active = {x for x in ALL if predict(sc, line, ALL - {x}) != full}
    if not active:
        active = {x for x in ALL if predict(sc, line, (x,)) != gen_out}
    return active or None


def probes(sc, items):
    """two fixed case lines per schema on which onthefly runs away while generated code answers at once (findings T and C):
    a top-level struct with a field `arr:n*[T]` fed by its own field `n:#`;
      T: arr announces 2^40 elements on the wire (generated code: `err eof`, onthefly: resize(2^40));
      C: n = 0x7fffffff and arr absent (generated code: `ok … w1b=werr`, onthefly WriteTL1: resize(n)).
    Only lines whose two predictions are exactly these are returned."""
    m = Model(sc, ())
    I = m.I
    for inst, _ in items:
        if inst["kind"] != "struct" or inst.get("natParams"):
            continue
        fields = inst.get("fields") or []
        for j, f in enumerate(fields):
            ty, wrap = f["ty"], 0
            while I[ty]["kind"] == "struct" and m.forwards(I[ty]):
                ty, wrap = I[ty]["fields"][0]["ty"], wrap + 1
            a = I[ty]
            if not (a["kind"] == "array" and a.get("isTuple") and a.get("dynamicSize")) or f.get("mask"):
                continue
            na = f["natArgs"]
            if not (na and na[-1]["k"] == "field" and not fields[na[-1]["v"]].get("mask")):
                continue
            try:
                z = m.zero(inst["idx"])
                arr = ("a", [], 1 << 40)
                for _ in range(wrap):
                    arr = ("s", [arr])
                vt = ("s", list(z[1]))
                vt[1][j] = arr
                vc = ("s", list(z[1]))
                vc[1][na[-1]["v"]] = ("p", 0x7FFFFFFF)
                lt = "codec.r2 %s %d %s %s" % (sc.sid, inst["idx"], inst["tlname"], _hx(m.enc2(inst["idx"], vt, False)))
                lc = "codec.r2 %s %d %s %s" % (sc.sid, inst["idx"], inst["tlname"], _hx(m.enc2(inst["idx"], vc, False)))
            except Unsupported:
                continue
            if predict(sc, lt, ()) == "err eof" and predict(sc, lt, ALL) in ("err eof", "TOOBIG:ReadTL2") and \
                    (predict(sc, lc, ()) or "").endswith("w1b=werr") and predict(sc, lc, ALL) == "TOOBIG:WriteTL1":
                return [lt, lc]
    return []


def bump_union(sc, ty, v):
    """copy of the value tree `v` in which the first union met carries the variant index one past its last variant
    (both implementations must reject its encoding); None when the value holds no union"""
    I = sc.desc["instances"]
    i = I[ty]
    k = i["kind"]
    if k == "union":
        return ("u", len(i["variants"]), ("s", []))
    if k == "struct":
        for j, (f, x) in enumerate(zip(i.get("fields") or [], v[1])):
            if isinstance(x, tuple):
                nx = bump_union(sc, f["ty"], x)
                if nx is not None:
                    return ("s", list(v[1][:j]) + [nx] + list(v[1][j + 1:]))
    if k in ("array", "dict"):
        for j, x in enumerate(v[1]):
            nx = bump_union(sc, i["elem"]["ty"], x)
            if nx is not None:
                return ("a", list(v[1][:j]) + [nx] + list(v[1][j + 1:]))
    return None


def encode(sc, ty, v):
    """minimal TL2 encoding (as generated code writes it) of a value tree; None when not covered"""
    try:
        return Model(sc, ()).enc2(ty, v, False) or b""
    except (Unsupported, IndexError, KeyError, TypeError, ValueError):
        return None


def probe_tl1(sc, items):
    """one fixed TL1 case line on which the generated sanity check answers `err eof` at once while onthefly allocates 0x7fffffff
    elements (finding N): the first struct whose bare reading of ffffff7f… is predicted that way"""
    for inst, _ in items:
        if inst["kind"] != "struct":
            continue
        l = "codec.x1 %s %d %s 0 %s" % (sc.sid, inst["idx"], inst["tlname"], "ffffff7f" * 3)
        if predict(sc, l, ()) == "err eof" and predict(sc, l, ALL) == "TOOBIG:ReadTL1":
            return [l]
    return []
