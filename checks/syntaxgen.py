"""Shared generators for the Syntax family (C19, C21, C23, C25).

* `Schema`/`Comb`/... : a type-directed random TL1 schema generator producing an AST with known structure;
  `render_tokens` turns it into a token list (with a choice between the equivalent application syntaxes),
  `layout` joins tokens with random legal separators (spaces, tabs, newlines, CRLF, comments).
* `ref_canonical` : an independent reference of the documented canonical form (no braces, single spaces,
  bare marker only on upper-case names, arithmetic replaced by its value) computed from the generator's AST.
* malformed streams: random bytes, token soups, mutations of repository schemas.
"""
import glob
import os
import re

REPO = os.environ.get("VERIF_REPO", "/repo")

LC = ["a", "b", "x", "y", "n", "m", "foo", "bar", "int", "long", "string", "vector", "tuple", "pair", "item", "myType",
      "a1", "x_y", "fooBar", "true", "dictionary", "maybe", "list"]
UC = ["A", "B", "X", "T", "Foo", "Bar", "Int", "Long", "String", "Vector", "Tuple", "Pair", "Item", "MyType", "Maybe",
      "True", "Bool", "Type1", "F_1"]
NS = ["ns", "a", "service1", "tree_stats"]
MODS = ["read", "write", "readwrite", "any", "internal", "kphp", "custom", "x"]


def corpus_files():
    fs = sorted(glob.glob(os.path.join(REPO, "internal/tlcodegen/test/tls/*.tl")))
    fs += [os.path.join(REPO, "pkg/rpc/rpc.tl"), os.path.join(REPO, "internal/tlast/tls.tl")]
    return [f for f in fs if os.path.exists(f)]


def corpus_chunks(maxlines=12):
    """Every repository schema cut into windows of whole lines (small enough for a case line)."""
    res = []
    for f in corpus_files():
        data = open(f, "rb").read()
        lines = data.split(b"\n")
        i = 0
        while i < len(lines):
            res.append((os.path.basename(f), i, b"\n".join(lines[i:i + maxlines]) + b"\n"))
            i += maxlines
    return res


# ----------------------------------------------------------------------------- AST
class Name:
    def __init__(self, ns, name):
        self.ns, self.name = ns, name

    def s(self):
        return (self.ns + "." if self.ns else "") + self.name


class TRef:
    """type reference: name, args (TRef | Arith), bare flag"""

    def __init__(self, name, args=None, bare=False):
        self.name, self.args, self.bare = name, args or [], bare


class Arith:
    def __init__(self, nums, parens):
        self.nums, self.parens = nums, parens  # parens: render with (..) grouping variants

    def val(self):
        return sum(self.nums)


class Field:
    def __init__(self, name, mask, excl, typ=None, rep=None):
        self.name, self.mask, self.excl, self.typ, self.rep = name, mask, excl, typ, rep
        # rep = (scale, fields) where scale is None | str | Arith


class Comb:
    def __init__(self):
        self.mods = []
        self.cname = None
        self.tag = None  # explicit tag or None
        self.targs = []  # (name, isNat)
        self.fields = []
        self.builtin = False
        self.is_function = False
        self.arrow = False  # use '=>' instead of '='
        self.result = None  # TypeDecl: (Name, [args]) or TRef for functions


class Gen:
    def __init__(self, rng, complex_in_brackets=True, zero_tags=True, depth=3):
        self.r = rng
        self.complex_in_brackets = complex_in_brackets
        self.zero_tags = zero_tags
        self.depth = depth

    def lc(self):
        return self.r.choice(LC)

    def uc(self):
        return self.r.choice(UC)

    def lcname(self):
        return Name(self.r.choice(NS) if self.r.chance(1, 4) else "", self.lc())

    def ucname(self):
        return Name(self.r.choice(NS) if self.r.chance(1, 5) else "", self.uc())

    def anyname(self):
        return self.lcname() if self.r.chance(1, 2) else self.ucname()

    def arith(self):
        k = 1 if self.r.chance(2, 3) else self.r.range(2, 4)
        nums = [self.r.choice([0, 1, 2, 3, 7, 31, 255, 65536, self.r.below(1000)]) for _ in range(k)]
        return Arith(nums, self.r.below(4))

    def tref(self, depth, scope, in_brackets=False):
        r = self.r
        if r.chance(1, 8):
            return TRef(Name("", "#"))
        if scope and r.chance(1, 4):
            nm = Name("", r.choice(scope))
        else:
            nm = self.anyname()
        bare = r.chance(1, 6)
        args = []
        simple = in_brackets and not self.complex_in_brackets
        if depth > 0 and r.chance(1, 3) and not simple:
            for _ in range(r.range(1, 3)):
                if r.chance(1, 4):
                    args.append(self.arith())
                else:
                    args.append(self.tref(depth - 1, scope, in_brackets))
        if simple:
            # documented rules and the implementation agree inside brackets only for a plain name
            # that prints the same under both: no '%' on a lower-case name
            if bare and nm.name[0].islower():
                bare = False
        return TRef(nm, args, bare)

    def fields(self, depth, scope, nats, in_brackets=False, maxn=5):
        r = self.r
        res = []
        n = r.below(maxn + 1)
        for _ in range(n):
            name = r.choice(LC + ["X", "Y"]) if r.chance(5, 6) else ""
            mask = None
            if nats and r.chance(1, 3):
                mask = (r.choice(nats), r.choice([0, 1, 2, 31, r.below(32)]))
            excl = r.chance(1, 12)
            simple = in_brackets and not self.complex_in_brackets
            if simple:
                excl = False
            if depth > 0 and r.chance(1, 5):
                sc = None
                k = r.below(4)
                if k == 0 and nats:
                    sc = r.choice(nats)
                elif k == 1:
                    sc = self.arith()
                inner = self.fields(depth - 1, scope, nats, True, 3)
                if simple and mask is not None:
                    mask = None  # implementation drops the mask of a nested repeated field
                res.append(Field(name, mask, excl, rep=(sc, inner)))
            else:
                t = self.tref(self.depth - 1 if depth > 0 else 0, scope, in_brackets)
                res.append(Field(name, mask, excl, typ=t))
                if t.name.name == "#" and name and not t.args:
                    nats = nats + [name]
        return res

    def comb(self, is_function):
        r = self.r
        c = Comb()
        c.is_function = is_function
        if r.chance(1, 3) or (is_function and r.chance(1, 2)):
            c.mods = [r.choice(MODS) for _ in range(r.range(1, 3))]
        c.cname = self.lcname()
        if r.chance(1, 3):
            c.tag = r.choice([1, 0xFFFFFFFF, 0x1cb5c415, r.below(2**32)] + ([0] if self.zero_tags else []))
        scope = []
        nats = []
        for _ in range(r.below(3) if r.chance(1, 3) else 0):
            nm = r.choice(["t", "T", "n", "k", "X", "Y"])
            isnat = r.chance(1, 2)
            c.targs.append((nm, isnat))
            (nats if isnat else scope).append(nm)
        if not is_function and r.chance(1, 15):
            c.builtin = True
        else:
            c.fields = self.fields(self.depth, scope, nats)
        if is_function:
            c.result = self.tref(self.depth, scope)
            c.result.top = True
            c.arrow = r.chance(1, 6)
        else:
            args = [a for a, _ in c.targs] if r.chance(3, 4) else [r.choice(["t", "n", "X"]) for _ in range(r.below(3))]
            c.result = (self.ucname(), args)
            if r.chance(1, 25):
                c.arrow = True  # '=>' turns a type declaration into a function declaration: mostly an error
        return c

    def schema(self, ncomb=None):
        r = self.r
        n = ncomb if ncomb is not None else r.range(1, 6)
        items = []
        infn = False
        for i in range(n):
            if r.chance(1, 4):
                infn = not infn if r.chance(3, 4) else infn
                items.append("F" if infn else "T")
            items.append(self.comb(infn))
        return items


# ----------------------------------------------------------------------------- rendering
def arith_tokens(a, r=None):
    toks = []
    nums = [str(n) for n in a.nums]
    style = a.parens
    if len(nums) == 1:
        if style == 1:
            return ["(", nums[0], ")"]
        return [nums[0]]
    if style == 0:
        for i, n in enumerate(nums):
            if i:
                toks.append("+")
            toks.append(n)
    elif style == 1:
        toks = ["("]
        for i, n in enumerate(nums):
            if i:
                toks.append("+")
            toks.append(n)
        toks.append(")")
    elif style == 2:
        toks = ["(", nums[0], "+", nums[1], ")"]
        for n in nums[2:]:
            toks += ["+", n]
    else:
        toks = [nums[0], "+", "("]
        for i, n in enumerate(nums[1:]):
            if i:
                toks.append("+")
            toks.append(n)
        toks.append(")")
    return toks


def tref_tokens(t, r, top=False, angle=None):
    """tokens of a type reference; `top` = result of a function (no round brackets allowed, apply syntax bare)."""
    toks = []
    if t.bare:
        toks.append("%")
    if not t.args:
        if not top and r is not None and r.chance(1, 12) and t.name.name != "#":
            return toks + ["(", t.name.s(), ")"]
        return toks + [t.name.s()]
    use_angle = angle if angle is not None else (r.chance(1, 2) if r is not None else False)
    if use_angle:
        toks.append(t.name.s())
        toks.append("<")
        for i, a in enumerate(t.args):
            if i:
                toks.append(",")
            toks += arith_tokens(a) if isinstance(a, Arith) else tref_tokens(a, r, False, angle)
        toks.append(">")
    else:
        if not top:
            toks.append("(")
        toks.append(t.name.s())
        for a in t.args:
            toks += arith_tokens(a) if isinstance(a, Arith) else tref_tokens(a, r, False, angle)
        if not top:
            toks.append(")")
    return toks


def field_tokens(f, r, angle=None):
    toks = []
    if f.name:
        toks += [f.name, ":"]
    if f.mask:
        toks += [f.mask[0], ".", str(f.mask[1]), "?"]
    if f.excl:
        toks.append("!")
    if f.rep is not None:
        sc, inner = f.rep
        if sc is not None:
            if isinstance(sc, Arith):
                toks += arith_tokens(sc)
            else:
                toks.append(sc)
            toks.append("*")
        toks.append("[")
        for g in inner:
            toks += field_tokens(g, r, angle)
        toks.append("]")
    else:
        toks += tref_tokens(f.typ, r, False, angle)
    return toks


def comb_tokens(c, r, angle=None):
    toks = ["@" + m for m in c.mods]
    toks.append(c.cname.s())
    if c.tag is not None:
        toks.append("#%08x" % c.tag)
    for nm, isnat in c.targs:
        toks += ["{", nm, ":", "#" if isnat else "Type", "}"]
    if c.builtin:
        toks.append("?")
    else:
        for f in c.fields:
            toks += field_tokens(f, r, angle)
    toks.append("=>" if c.arrow else "=")
    if c.is_function:
        toks += tref_tokens(c.result, r, True, angle)
    else:
        toks.append(c.result[0].s())
        toks += list(c.result[1])
    toks.append(";")
    return toks


def schema_tokens(items, r, angle=None):
    toks = []
    for it in items:
        if it == "F":
            toks.append("---functions---")
        elif it == "T":
            toks.append("---types---")
        else:
            toks += comb_tokens(it, r, angle)
    return toks


def identch(c):
    return c.isalnum() or c == "_"


def need_sep(a, b):
    if not a or not b:
        return False
    if identch(a[-1]) and identch(b[0]):
        return True
    if a == "#" and identch(b[0]):
        return True
    if a[-1] == "=" and b[0] == ">":
        return True
    if a[-1] == "/" and b[0] == "/":
        return True
    if identch(a[-1]) and b[0] == "." and len(b) > 1:
        return True
    if a[-1] == "-" and b[0] == "-":
        return True
    return False


COMMENTS = ["// c", "//", "// x:int = Foo;", "//\tтест", "// @read #1234 (", "//--"]


def layout(toks, r, style=None):
    """join tokens with random legal separators; style 0 = single spaces, 1 = minimal, 2 = wild"""
    style = r.below(3) if style is None else style
    out = []
    prev = ""
    for t in toks:
        if style == 0:
            sep = " " if prev else ""
        elif style == 1:
            sep = " " if need_sep(prev, t) else ""
        else:
            k = r.below(12)
            if k < 4:
                sep = " "
            elif k == 4:
                sep = "  \t"
            elif k == 5:
                sep = "\n"
            elif k == 6:
                sep = "\r\n"
            elif k == 7:
                sep = " " + r.choice(COMMENTS) + "\n"
            elif k == 8:
                sep = "\n\n" + r.choice(COMMENTS) + "\r\n  "
            else:
                sep = "" if not need_sep(prev, t) else " "
            if not prev and k >= 9:
                sep = ""
        out.append(sep)
        out.append(t)
        prev = t
    tail = ["", "\n", " // end", "\n\n", " \t"][r.below(5)] if style == 2 else ("\n" if style == 0 else "")
    return ("".join(out) + tail).encode()


# ----------------------------------------------------------------------------- documented canonical form (reference)
def ref_tref(t):
    s = ""
    if t.bare and not t.name.name[0].islower():
        s = "%"
    s += t.name.s()
    for a in t.args:
        s += " " + (str(a.val()) if isinstance(a, Arith) else ref_tref(a))
    return s


def ref_field(f):
    s = ""
    if f.name:
        s += f.name + ":"
    if f.mask:
        s += "%s.%d?" % f.mask
    if f.rep is not None:
        sc, inner = f.rep
        if sc is not None:
            s += (str(sc.val()) if isinstance(sc, Arith) else sc) + "*"
        s += "["
        for g in inner:
            s += " " + ref_field(g)
        s += " ]"
    else:
        s += ref_tref(f.typ)
    return s


def ref_canonical(c):
    s = c.cname.s() + " "
    for nm, isnat in c.targs:
        s += nm + (":# " if isnat else ":Type ")
    if c.builtin:
        s += "? "
    for f in c.fields:
        s += ref_field(f) + " "
    s += "= "
    if c.is_function or c.arrow:
        s += ref_tref(c.result) if c.is_function else "?"
    else:
        s += c.result[0].s() + "".join(" " + a for a in c.result[1])
    return s


# ----------------------------------------------------------------------------- malformed streams
SOUP = ["(", ")", "[", "]", "{", "}", "<", ">", ":", ";", ".", ",", "%", "=", "=>", "?", "*", "+", "!", "|", "_", "#", "-",
        "---types---", "---functions---", "#1234abcd", "#12", "#ABCDEF12", "@read", "@", "@X", "//", "// c\n", "/*", "/",
        "\n", "\r\n", "\r", "\t", " ", "0", "1", "42", "4294967295", "4294967296", "99999999999999999999", "1a", "int", "Int",
        "a.b", "a.B", "A.b", "a.", ".a", "Type", "t", "n", "x", "X", "foo", "Foo", "vector", "_x", "x_", "é", "\xff", "\x00",
        "<=>", "ns.foo", "ns.Foo", "true", "n.0?", "x:", "3*[", "= Foo;", "{t:Type}", "{n:#}"]


def token_soup(r, n=None):
    n = n if n is not None else r.range(1, 25)
    out = []
    for _ in range(n):
        out.append(r.choice(SOUP))
        k = r.below(6)
        if k < 3:
            out.append(" ")
        elif k == 3:
            out.append("\n")
    return "".join(out).encode("latin-1", "replace") if r.chance(1, 2) else "".join(out).encode("utf-8")


MUT_BYTES = b"()[]{}<>:;.,%=?*+!|_#-@/ \t\r\n0123456789aAzZtT\x00\x7f\x80\xc3\xa9\xff"


def mutate(data, r, k=None):
    b = bytearray(data)
    for _ in range(k if k is not None else r.range(1, 3)):
        op = r.below(6)
        if not b:
            b = bytearray([r.choice(list(MUT_BYTES))])
            continue
        i = r.below(len(b))
        if op == 0:
            del b[i]
        elif op == 1:
            b.insert(i, r.choice(list(MUT_BYTES)))
        elif op == 2:
            b[i] = r.choice(list(MUT_BYTES))
        elif op == 3:
            j = r.below(len(b))
            b[i], b[j] = b[j], b[i]
        elif op == 4:
            j = min(len(b), i + r.range(1, 8))
            del b[i:j]
        else:
            j = min(len(b), i + r.range(1, 8))
            b[i:i] = b[i:j]
    return bytes(b)


TOKEN_RE = re.compile(rb"//[^\r\n]*|---types---|---functions---|=>|#[0-9a-zA-Z_]*|@[a-zA-Z0-9_]*|[a-zA-Z_][a-zA-Z0-9_]*(?:\.[a-zA-Z][a-zA-Z0-9_]*)?|[0-9][a-zA-Z0-9_]*|\r\n|[ \t]+|.", re.S)


def token_mutate(data, r):
    toks = TOKEN_RE.findall(data)
    if not toks:
        return data
    for _ in range(r.range(1, 2)):
        op = r.below(5)
        i = r.below(len(toks))
        if op == 0:
            del toks[i]
        elif op == 1:
            toks.insert(i, r.choice(SOUP).encode("utf-8"))
        elif op == 2:
            toks[i] = r.choice(SOUP).encode("utf-8")
        elif op == 3 and len(toks) > 1:
            j = r.below(len(toks))
            toks[i], toks[j] = toks[j], toks[i]
        else:
            toks.insert(i, toks[i])
        if not toks:
            break
    return b"".join(toks)


# ----------------------------------------------------------------------------- semantically valid schemas (for the tl2gen path)
PRELUDE = """int#a8509bda ? = Int;
long#22076cba ? = Long;
string#b5286e24 ? = String;
vector#1cb5c415 {t:Type} # [t] = Vector t;
tuple#9770768a {t:Type} {n:#} [t] = Tuple t n;
"""


def valid_schema(r, ntypes=None):
    """A schema the kernel accepts (mostly): a prelude plus structs/unions/functions that only use defined types."""
    out = [PRELUDE] if r.chance(5, 6) else [PRELUDE.replace("int#a8509bda", "int").replace("vector#1cb5c415", "vector")]
    types = []  # (lc constructor, Uc type)
    n = ntypes if ntypes is not None else r.range(1, 6)
    ns = r.choice(["", "", "ab.", "svc_1."])

    def ty(depth=2):
        k = r.below(10)
        if k < 3 or not types and k < 6:
            return r.choice(["int", "long", "string", "Int", "%Long", "String"])
        if k < 6 and types:
            c, u = r.choice(types)
            return u if c == u else r.choice([c, u, "%" + u])
        if depth <= 0:
            return "int"
        if k == 6:
            return r.choice(["(vector %s)", "vector<%s>", "(Vector %s)", "%%(Vector %s)"]) % ty(depth - 1)
        if k == 7:
            return r.choice(["(tuple %s %d)", "tuple<%s, %d>", "(Tuple %s %d)"]) % (ty(depth - 1), r.range(0, 4))
        if k == 8:
            return "(tuple %s %s)" % (ty(depth - 1), r.choice(["2+1", "(1+1)", "0"]))
        return r.choice(["int", "string"])

    def fields(prefix):
        fs = []
        nats = []
        for i in range(r.below(5)):
            name = "%s%d" % (prefix, i)
            k = r.below(9)
            if k == 0:
                fs.append("%s:#" % name)
                nats.append(name)
            elif k == 1 and nats:
                fs.append("%s:%s.%d?%s" % (name, r.choice(nats), r.below(32), ty()))
            elif k == 2 and nats:
                fs.append("%s:%s*[%s]" % (name, r.choice(nats), ty(1)))
            elif k == 3:
                fs.append("%s:%d*[%s]" % (name, r.range(0, 3), ty(1)))
            elif k == 4 and nats:
                fs.append("%s:(tuple %s %s)" % (name, ty(1), r.choice(nats)))
            else:
                fs.append("%s:%s" % (name, ty()))
        return " ".join(fs)

    for i in range(n):
        c, u = "%st%d" % (ns, i), "%sT%d" % (ns, i)
        tag = "#%08x" % r.range(1, 2**32 - 1) if r.chance(1, 3) else ""
        if r.chance(1, 4):
            out.append("%sA%s %s = %s;\n%sB %s = %s;\n" % (c, tag, fields("a"), u, c, fields("b"), u))
            types.append((u, u))
        else:
            out.append("%s%s %s = %s;\n" % (c, tag, fields("f"), u))
            types.append((c, u))
    if r.chance(2, 3):
        out.append("---functions---\n")
        for i in range(r.range(1, 3)):
            mods = r.choice(["", "@read ", "@write ", "@readwrite ", "@any ", "@read @kphp ", "@internal @write "])
            out.append("%s%sfn%d %s = %s;\n" % (mods, ns, i, fields("q"), r.choice(["Int", "Vector int", "Vector<%s>" % (types[0][1] if types else "Int"), "String", "Tuple string 2"])))
    return "".join(out).encode()
