"""C20 — TL2 parser is total with in-range error positions (DESIGN.md §4 C19/C20)."""
from checks import syntaxtl2_gen as G

MODULES = ["TLVerif.Props.C20"]
THEOREMS = ["TLVerif.Props.C20." + t for t in [
    "lexer_total_recombines", "lexer_tokens_good", "parse_total", "parse_never_panics", "parse_error_pos_in_text", "parse_error_columns",
    "error_print_total", "parse_error_print_not_corrupted", "panic_sites_modelled", "iterator_panic_sites_modelled"]]
SOURCES = ["TLVerif.Syntaxtl2.Basic", "TLVerif.Syntaxtl2.Lexer", "TLVerif.Syntaxtl2.Text", "TLVerif.Syntaxtl2.Ast",
           "TLVerif.Syntaxtl2.Parser", "TLVerif.Syntaxtl2.ErrorPrint", "TLVerif.Syntaxtl2.Driver",
           "TLVerif.Syntaxtl2.LexerLemmas", "TLVerif.Syntaxtl2.ParserLemmas", "TLVerif.Syntaxtl2.ErrorPrintLemmas",
           "TLVerif.Syntaxtl2.PositionLemmas"]


def check_error(c, line, text, out):
    """the property's own oracle on one implementation output of syntaxtl2.parse"""
    if out.startswith("panic") or out == "CRASH":
        c.oracle_fail(line, "printing the returned error (Error()/ConsolePrint/PrintWarning) panicked" if out == "panic print"
                      else "ParseTL2File or printing its error panicked", line)
        return
    if not out.startswith("err "):
        return
    p = out.split(" ")
    if len(p) != 6:
        c.oracle_fail(line, "error is not a *ParseError with positions: " + out[:80], line)
        return
    o, b, e = ([int(x) for x in q.split(":")] for q in p[1:4])  # line, column, startLineOffset, offset
    n = len(text)
    ok = (0 <= o[3] <= n and 0 <= b[3] <= e[3] <= n and o[3] <= b[3]
          and all(0 <= q[2] <= q[3] and q[0] >= 1 and q[1] == q[3] - q[2] + 1 for q in (o, b, e))
          and o[2] <= b[2] <= e[2])
    if not ok:
        c.oracle_fail(line, "error position outside the text or inconsistent: outer=%s begin=%s end=%s len=%d" % (o, b, e, n), line)
        return
    if text[:b[3]].count(b"\n") + 1 != b[0]:
        c.oracle_fail(line, "error line number %d is not the line of offset %d" % (b[0], b[3]), line)
    for printed in (G.unhex(p[4]), G.unhex(p[5])):
        if b"context corrupted" in printed:
            c.oracle_fail(line, "ConsolePrint reports a corrupted error context for an error of ParseTL2File", line)


def run(c):
    c.facts(["Syntaxtl2"])
    c.lean(MODULES, THEOREMS, sources=SOURCES)
    model = c.model_exe()
    impl = c.harness("hsyntaxtl2", overlays=G.OVERLAYS)
    rng = c.rng
    c.trusted += ["go/hsyntaxtl2 harness + overlay accessors (read-only, //go:build verif); factgen constant/panic-site extraction",
                  "modelled, not verified: Go string slicing/append, strings.TrimSpace/Split/Index, strconv.ParseUint, utf8.DecodeRuneInString "
                  "(re-implemented in the model and compared through the tie)"]
    c.assumptions += ["error message texts are not compared (two of them embed rand.Uint32()); positions, accept/reject, AST and the "
                      "ConsolePrint/PrintWarning bytes with a fixed message are",
                      "AST position ranges (PR fields) are not modelled; only the ranges carried by errors are"]
    texts = []
    if c.replay:
        for f in c.replay.get("failures", []):
            if f.get("input"):
                texts.append(("replay", G.unhex(f["input"].split(" ")[-1])))
        for t in c.replay.get("broken_ties", []):
            texts.append(("replay", G.unhex(t["line"].split(" ")[-1])))
    corp = G.corpus()
    for name, t in corp:
        texts.append(("corpus", t))
    for t in G.comment_positions():
        texts.append(("comment-positions", t))
    for t in G.number_positions():
        texts.append(("number-positions", t))
    big = [t for _, t in corp if len(t) > 200]
    small = [t for _, t in corp if 0 < len(t) <= 200]
    scale = 8 if c.thorough else 1
    # exhaustive small domains
    for b in range(256):
        texts.append(("byte1", bytes([b])))
    lex = G.LEXEMES
    for a in lex:
        for b in lex:
            texts.append(("lex2", a + b))
    if c.thorough:
        core = [b"a", b"B", b"Type", b"_", b"_x", b"ns.a", b"1", b"#", b"#1234abcd", b"<", b">", b"[", b"]", b",", b":", b";", b"?",
                b"|", b"=", b"=>", b"<=>", b"@a", b"// c\n", b" ", b"\n"]
        for a in core:
            for b in core:
                for d in core:
                    texts.append(("lex3", a + b" " + b + d))
        for b0 in range(256):
            for b1 in (0x0a, 0x0d, 0x2f, 0x80, 0xbf, 0xc2, 0xe2, 0xf4, 0x61, 0x5f, 0x23, 0x3c, 0x3d):
                texts.append(("byte2", b"//" + bytes([b0, b1])))
                texts.append(("byte2", bytes([b0, b1])))
    g = G.Gen(rng)
    for _ in range(1500 * scale):
        texts.append(("random-bytes", G.random_bytes(rng)))
    for _ in range(3000 * scale):
        texts.append(("token-soup", G.token_soup(rng)))
    for _ in range(3000 * scale):
        texts.append(("near-valid-soup", G.near_valid_soup(rng)))
    for _ in range(1200 * scale):
        texts.append(("generated", g.file()))
    for _ in range(2500 * scale):
        texts.append(("generated-mutated", G.mutate(rng, g.file())))
    for _ in range(1500 * scale):
        texts.append(("snippet-mutated", G.mutate(rng, rng.choice(small))))
    for _ in range(60 * scale):
        texts.append(("file-mutated", G.mutate(rng, rng.choice(big))))
    for t in big:  # every truncation of the repository files at a sample of offsets
        for _ in range(40 * scale):
            texts.append(("file-truncated", t[:rng.below(len(t) + 1)]))
    seen = set()
    lines, kind = [], {}
    for k, t in texts:
        if t in seen:
            continue
        seen.add(t)
        ln = G.parse_line(t)
        kind[ln] = k
        lines.append(ln)
    lexlines = [G.lex_line(G.unhex(l.split(" ")[1])) for l in lines]
    res = c.tie("parse", lines, impl, model)
    for l, a, _ in res:
        check_error(c, l, G.unhex(l.split(" ")[1]), a)
        c.count("gen:" + kind[l] + ":" + a.split(" ")[0])
    res2 = c.tie("lex", lexlines, impl, model)
    for l, a, _ in res2:
        if a.startswith("panic") or a == "CRASH":
            c.oracle_fail(l, "lexer panicked", l)
        elif "norecombine" in a.split(" ")[0]:
            c.oracle_fail(l, "tokens do not recombine to the input (ParseTL2File would log.Panicf)", l)
    c.extra["rule"] = ("one case = one input text, parsed by tlast.ParseTL2File under recover and lexed by the shared lexer; texts: all "
                       "TL2 texts of the repository (*.tl2 + raw-string snippets of the TL2 parser/lexer tests), a directed family with boundary numbers (0 … 2^32±1 … 2^64 … 40 digits, leading zeros) in every numeric position, all 1-byte strings, all "
                       "pairs of %d lexemes%s, random bytes, token soups, grammar-shaped soups, files from the type-directed generator and "
                       "their 1-3 edit mutations, mutated/truncated repository files; duplicates removed; distinct = distinct text; "
                       "every text is non-trivial (a different input); histogram gen:<generator>:<ok|err|panic>"
                       % (len(lex), ", all triples of 25 core lexemes, all 2-byte tails" if c.thorough else ""))
