"""C21 — TL1 schema printer round-trips through the parser (DESIGN.md §4 C21)."""
import os
import re

from vlib.core import hx
from checks import syntaxgen as sg

LEVEL = "exploration"
MODULES = ["TLVerif.Props.C21"]
THEOREMS = ["TLVerif.Props.C21." + t for t in ["tag_print_parse", "number_print_parse", "explicit_tag_printed", "zero_tag_print_collision"]]

WITNESS = "syntax.print - " + hx(b"foo#00000000 = Foo;")


def unhex(s):
    return b"" if s in ("-", "") else bytes.fromhex(s)


def core(dump):
    """the combinators of a syntax-tree dump without comments, newline flags and sections"""
    d = re.sub(r"\|N?\|[0-9a-f]*\|[0-9a-f]*\}", "}", dump)
    d = re.sub(r";[0-9a-f]*;[0-9a-f]*\]", "]", d)
    return [x for x in d.split(" ") if x.startswith("C[")]


def overlay():
    return os.path.join(os.path.dirname(os.path.dirname(os.path.abspath(__file__))), "go", "hsyntax", "overlay", "verif_hooks.go")


def run(c):
    c.facts(["Syntax"])
    c.lean(MODULES, THEOREMS, sources=["TLVerif.Syntax.Printer", "TLVerif.Syntax.PrinterLemmas"])
    model = c.model_exe()
    impl = c.harness("hsyntax", overlays={"internal/tlast/verif_hooks.go": overlay()})
    rng = c.rng
    T = c.thorough
    c.trusted += ["go/hsyntax harness", "modelled, not verified: quicktemplate writer, fmt %08x"]
    c.assumptions += ["the round-trip statement itself is explored (oracle on the implementation + model printer/parser tied to the Go ones), "
                      "not proved; proved are the lexeme-level round trips and the zero-tag collision",
                      "schemas with an explicit tag #00000000 are excluded from the random oracle (known finding, fixed witness replayed)"]
    lines = []
    if c.replay:
        for f in c.replay.get("failures", []):
            if f.get("input"):
                lines.append(f["input"])
        for t in c.replay.get("broken_ties", []):
            lines.append(t["line"])
    g = sg.Gen(rng, zero_tags=False)
    for f in sg.corpus_files():
        data = open(f, "rb").read()
        if len(data) < 60000 or T:
            lines.append("syntax.print - %s" % hx(data))
    for (_, _, ch) in sg.corpus_chunks(10):
        lines.append("syntax.print - %s" % hx(ch))
    for _ in range(6000 if T else 1200):
        items = g.schema()
        txt = sg.layout(sg.schema_tokens(items, rng), rng)
        fl = rng.choice(["-", "-", "-", "d", "b"])
        lines.append("syntax.print %s %s" % (fl, hx(txt)))
        if rng.chance(1, 6):
            lines.append("syntax.print %s %s" % (fl, hx(sg.token_mutate(txt, rng))))
    lines.append(WITNESS)
    lines.append("syntax.print b " + hx(b"foo x:int = _;"))
    res1 = c.tie("print", lines, impl, model)
    # phase 2: parse the original and the printed text (as printed by the implementation)
    lines2 = []
    pairs = []
    for l, a, _ in res1:
        if a == "panic" or a == "CRASH":
            c.oracle_fail(l, "printing panicked", l)
        if not a.startswith("ok"):
            continue
        f = l.split(" ")
        p = a.split(" ")[1] if len(a.split(" ")) > 1 else "-"
        l_orig = "syntax.parse %s %s" % (f[1], f[2])
        l_prn = "syntax.parse %s %s" % (f[1], p)
        lines2 += [l_orig, l_prn]
        pairs.append((l, l_orig, l_prn))
    lines2 = sorted(set(lines2))
    res2 = c.tie("reparse", lines2, impl, model)
    out = {l: a for l, a, _ in res2}
    for l, lo, lp in pairs:
        a, b = out[lo], out[lp]
        if not a.startswith("ok"):
            continue
        what = None
        if not b.startswith("ok"):
            what = "printed schema is rejected by the parser: " + b[:80]
        else:
            ca, cb = core(a), core(b)
            if ca != cb:
                d = next(((x, y) for x, y in zip(ca, cb) if x != y), None)
                what = ("printed schema parses to different combinators: %s -> %s" % (d[0][:160], d[1][:160])) if d else \
                    "printed schema parses to %d combinators instead of %d" % (len(cb), len(ca))
        if what:
            c.oracle_fail(l, what, l)
            c.count("roundtrip:fail")
        else:
            c.count("roundtrip:ok")
        # idempotence of printing as a by-product: print(parse(print x)) == print x
    c.extra["rule"] = ("lines: every repository .tl (whole and 10-line windows) and random type-directed schemas under random layouts are "
                       "printed (TL.String) and the printed text is parsed again; combinators compared without comments/sections; "
                       "distinct = distinct line text; non-trivial = every accepted schema with at least one combinator")
