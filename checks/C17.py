"""C17 — runtime registry is consistent with the schema (DESIGN.md §4 C17)."""
from checks import codec_common as cc

MODULES = ["TLVerif.Props.C17"]
THEOREMS = ["TLVerif.Props.C17." + t for t in ["byName_finds", "byTag_finds", "names_and_tags_unique", "boxed_starts_with_tag"]]


def run(c):
    c.lean(MODULES, THEOREMS, sources=["TLVerif.Codec.Registry"])
    import os
    from vlib.core import ROOT
    # `uo`: with --split-internal the factory is one file per first letter of the namespace; here the letters `y` and `z` hold unions only
    model, hcodec, schemas = cc.prepare(c, cc.corpus(c) + [cc.Schema("annot", [os.path.join(ROOT, "schemas", "annot.tl")], tl2="*", sanity=True),
                                                          cc.Schema("uo", [os.path.join(ROOT, "schemas", "unionsonly.tl")], tl2="*", sanity=True, split=True),
                                                          cc.Schema("uons", [os.path.join(ROOT, "schemas", "unionsonly.tl")], tl2="*", sanity=True)])
    for sc in schemas:
        pre = [sc.desc_line()]
        names = sorted({i["tlname"] for i in sc.desc["instances"] if i["kind"] in ("struct", "union") and i.get("tlname")})
        lines = ["codec.items " + sc.sid] + ["codec.reg %s %s" % (sc.sid, n) for n in names]
        res = c.tie("registry:" + sc.sid, lines, sc.impl, model, prefix=pre, jobs=1)
        # T3 certificate: the model answers `registry-not-ok` when names/tags of the exported descriptor collide
        for l, a, b in res:
            if b == "registry-not-ok":
                c.oracle_fail(l, "descriptor exported by the kernel has colliding registry names or tags", l)
        # the property itself on the implementation
        seen_names, seen_tags = {}, {}
        by_name = {i["tlname"]: i for i in sc.desc["instances"] if i["kind"] in ("struct", "union") and i["natParams"] == 0 and i["topLevel"]}
        for l, a, _ in res:
            if l.startswith("codec.items") and a.startswith("ok"):
                for t in a.split()[1:]:
                    n, tag = t.split(":")[0], int(t.split(":")[1])
                    if n in seen_names:
                        c.oracle_fail(l + " " + n, "registry name %s registered twice" % n, l)
                    seen_names[n] = tag
                    if tag != 0:
                        if tag in seen_tags:
                            c.oracle_fail(l + " " + n, "registry tag %08x registered twice (%s, %s)" % (tag, n, seen_tags[tag]), l)
                        seen_tags[tag] = n
            if l.startswith("codec.reg") and a in ("panic", "CRASH"):
                c.oracle_fail(l, "creating a registered item through the factory (by name / by tag) panics", l)
            if l.startswith("codec.reg") and a.startswith("ok "):
                p = dict(x.split("=", 1) for x in a.split(" ")[1:])
                item = p["item"].split(":")
                obj = p["obj"].split(":")
                want = by_name.get(item[0])
                if want is not None:
                    flags = (str(want.get("isFunction", False)).lower(), str(not want["originTL2"]).lower(), str(want["hasTL2"]).lower(), str(want.get("annotations", 0) % 64))
                    if tuple(item[2:6]) != flags:
                        c.oracle_fail(l, "registry flags (function, TL1, TL2, annotations) of %s are %s, the schema says %s" % (item[0], ":".join(item[2:6]), ":".join(flags)), l)
                if item[1] != "0":
                    if obj[0] != item[0] or obj[1] != item[1]:
                        c.oracle_fail(l, "object created by name reports %s, registry item says %s" % (p["obj"], p["item"]), l)
                    if p["bytag"] != item[0]:
                        c.oracle_fail(l, "lookup by tag returns %s instead of %s" % (p["bytag"], item[0]), l)
                    if p["first"] != item[1]:
                        c.oracle_fail(l, "boxed encoding starts with %s, reported tag is %s" % (p["first"], item[1]), l)
                else:
                    if p["first"] != obj[1]:
                        c.oracle_fail(l, "boxed encoding of a union starts with %s, object reports tag %s" % (p["first"], obj[1]), l)
    c.extra["rule"] = "one registry listing + one create-by-name/by-tag probe per named instance of every schema; exhaustive over the schema's items"
    c.extra["exhaustive"] = True
