"""C41 — Ordered tree map and circular slice match reference containers (DESIGN.md §4 C41).

Lean: TLVerif.Algo.Avl / Circular (models written like tree_map.go / circular_slice.go), theorems in Props/C41.lean.
Tie: go/halgo (in-package overlay for stored heights / raw ring state) vs tlmodel on whole operation histories.
Oracle: a Python ordered-dict / list reference evaluated on every implementation output, plus the balance bounds
computed from the dumped structure (strict AVL = the property; real balance <= 2 = what the code really keeps).
"""
import itertools
import re

MODULES = ["TLVerif.Props.C41"]
THEOREMS = ["TLVerif.Props.C41." + t for t in [
    "facts_ok", "panic_sites_ok",
    "spec_insert_sorted", "spec_erase_sorted", "spec_insert_is_map", "spec_erase_is_map", "spec_lookup_is_map",
    "spec_head_smallest", "spec_last_largest",
    "tree_empty", "tree_set_refines", "tree_delete_refines", "tree_get_refines", "tree_front_refines",
    "tree_getptr_store_refines", "tree_back_refines", "tree_empty_refines", "tree_lenMoreThan1_refines", "tree_validate_ok", "tree_history_refines",
    "witness_chain", "avl_strict_fails_at", "avl_balance_partial", "avl_strict_after_fix", "avl_strict_iff",
    "circ_empty", "circ_push_refines", "circ_pop_refines", "circ_front_refines", "circ_index_refines", "circ_len_cap",
    "circ_indexref_store_refines", "circ_slices_refines", "circ_reserve_refines", "circ_clear_refines", "circ_swap_deepAssign", "circ_step_refines",
    "circ_history_refines", "circ_panics_only_on_misuse", "circ_capacity",
]]

# The shortest history on which strict AVL balance fails on the unchanged code (DESIGN §6 L1); key of the known finding.
WITNESS = "algo.tree s:1:1,s:2:2,s:3:3,D"

TREE_TAIL = ["e", "m", "f", "b", "V"]


# ----------------------------------------------------------------------------------------------- tree: parsing + oracle
def parse_tree(s):
    """'(k:v:h L R)' / '_'  ->  nested tuple (k, v, h, L, R) or None; returns (tree, rest)."""
    pos = 0

    def rec():
        nonlocal pos
        if s[pos] == "_":
            pos += 1
            return None
        assert s[pos] == "("
        pos += 1
        j = pos
        while s[j] not in "(_":
            j += 1
        k, v, h = s[pos:j].split(":")
        pos = j
        l = rec()
        r = rec()
        assert s[pos] == ")"
        pos += 1
        return (int(k), int(v), int(h), l, r)

    t = rec()
    assert pos == len(s)
    return t


def tree_stats(t):
    """(inorder list, real height, max |real balance|, bst ok)"""
    if t is None:
        return [], 0, 0
    k, v, h, l, r = t
    il, hl, bl = tree_stats(l)
    ir, hr, br = tree_stats(r)
    return il + [(k, v)] + ir, 1 + max(hl, hr), max(abs(hl - hr), bl, br)


def tree_oracle(c, line, out, strict_fail):
    """Evaluate the ordered-map reference and the balance bounds on one implementation output line."""
    ops = line.split(" ")[1].split(",")
    if not out.startswith("ok "):
        c.oracle_fail(line, "well-formed history not executed: %s" % out[:60], line)
        return
    obs = out[3:].split(",")
    if len(obs) != len(ops):
        c.oracle_fail(line, "observation count %d != op count %d (%s)" % (len(obs), len(ops), out[:80]), line)
        return
    ref = {}
    for op, o in zip(ops, obs):
        f = op.split(":")
        exp = None
        if f[0] == "s":
            ref[int(f[1])] = int(f[2])
            exp = "."
        elif f[0] == "d":
            ref.pop(int(f[1]), None)
            exp = "."
        elif f[0] == "u":
            if int(f[1]) in ref:
                ref[int(f[1])] = int(f[2])
                exp = "1"
            else:
                exp = "0"
        elif f[0] == "g":
            exp = str(ref[int(f[1])]) if int(f[1]) in ref else "-"
        elif f[0] == "e":
            exp = "1" if not ref else "0"
        elif f[0] == "m":
            exp = "1" if len(ref) > 1 else "0"
        elif f[0] == "f":
            exp = "panic" if not ref else "%d:%d" % (min(ref), ref[min(ref)])
        elif f[0] == "b":
            exp = "panic" if not ref else "%d:%d" % (max(ref), ref[max(ref)])
        elif f[0] == "V":
            exp = "ok"
        elif f[0] == "D":
            try:
                st, rh, mb = o.split(";")
                t = parse_tree(st)
                ino, h, b = tree_stats(t)
            except Exception:
                c.oracle_fail(line, "unparseable dump %s" % o[:80], line)
                return
            if ino != sorted(ref.items()):
                c.oracle_fail(line, "in-order contents of the tree differ from the ordered map after %s" % op, line)
                return
            if rh != "rh=%d" % h or mb != "mb=%d" % b:
                c.oracle_fail(line, "harness-reported real height/balance inconsistent with dumped structure", line)
                return
            n = len(ino)
            # height of a tree kept within real balance 2 is still logarithmic; generous sanity bound
            if b > 2:
                c.oracle_fail(line, "real balance %d > 2 at some node (%d entries): tree is not kept balanced" % (b, n), line)
                return
            if b > 1:
                strict_fail.append((line, b, n))
            continue
        if o != exp:
            c.oracle_fail(line, "op %s observed %s, ordered map says %s" % (op, o, exp), line)
            return


# ----------------------------------------------------------------------------------------------- circular: oracle
def ints(s):
    return [] if s == "-" else [int(x) for x in s.split(".")]


def circ_oracle(c, line, out):
    ops = line.split(" ")[1].split(",")
    if not out.startswith("ok "):
        c.oracle_fail(line, "well-formed history not executed: %s" % out[:60], line)
        return
    obs = out[3:].split(",")
    if len(obs) != len(ops):
        c.oracle_fail(line, "observation count %d != op count %d (%s)" % (len(obs), len(ops), out[:80]), line)
        return
    s, o = [], []
    caps, capo = 0, 0  # lower bounds on capacity promised by Reserve / observed
    for op, ob in zip(ops, obs):
        f = op.split(":")
        exp = None
        if f[0] == "p":
            s.append(int(f[1]))
            exp = "."
        elif f[0] == "q":
            exp = str(s.pop(0)) if s else "panic"
        elif f[0] == "f":
            exp = str(s[0]) if s else "panic"
        elif f[0] == "i":
            p = int(f[1])
            if p < 0:
                exp = "panic"
            elif p < len(s):
                exp = str(s[p])
            else:
                # documented misuse: must not return a live or stale element
                if ob not in ("panic", "0"):
                    c.oracle_fail(line, "Index(%d) beyond Len()=%d returned %s (neither panic nor the empty value)" % (p, len(s), ob), line)
                    return
                continue
        elif f[0] == "x":
            p = int(f[1])
            if p < 0:
                exp = "panic"
            elif p < len(s):
                s[p] = int(f[2])
                exp = "."
            else:
                return  # undocumented use (store beyond the end): nothing is promised afterwards
        elif f[0] == "r":
            caps = max(caps, int(f[1]))
            exp = "."
        elif f[0] == "c":
            s = []
            exp = "."
        elif f[0] == "w":
            s, o = o, s
            caps, capo = capo, caps
            exp = "."
        elif f[0] == "a":
            s = list(o)
            caps = 0
            exp = "."
        elif f[0] == "l":
            exp = str(len(s))
        elif f[0] == "k":
            try:
                k = int(ob)
            except ValueError:
                k = -1
            if k < len(s) or k < caps:
                c.oracle_fail(line, "Cap()=%s below Len()=%d or below the reserved capacity %d" % (ob, len(s), caps), line)
                return
            caps = max(caps, k)
            continue
        elif f[0] == "S":
            try:
                a, b = ob.split("|")
                got = ints(a) + ints(b)
            except Exception:
                got = None
            if got != s:
                c.oracle_fail(line, "Slices() = %s is not the queue content %s" % (ob[:60], s[:20]), line)
                return
            continue
        elif f[0] == "D":
            continue
        if ob != exp:
            c.oracle_fail(line, "op %s observed %s, FIFO reference says %s" % (op, ob, exp), line)
            return


TREE_RE = re.compile(r"^([su]:-?\d+:\d+|[dg]:-?\d+|[efbmVD])$")
CIRC_RE = re.compile(r"^(p:\d+|x:-?\d+:\d+|[ir]:-?\d+|[qfcwalkSD])$")


def wellformed(line):
    w = line.split(" ")
    if len(w) != 2 or w[0] not in ("algo.tree", "algo.circ"):
        return False
    rx = TREE_RE if w[0] == "algo.tree" else CIRC_RE
    return all(rx.match(o) for o in w[1].split(","))


def stats(c, line, out):
    """input-distribution counters (what the run really exercised), from the implementation's output"""
    if not out.startswith("ok "):
        return
    if line.startswith("algo.tree "):
        c.count("tree:ops", line.count(",") + 1)
        c.count("tree:panic-observations", out.count("panic"))
        for m in re.finditer(r";mb=(\d+)", out):
            c.count("tree:dumps-real-balance-" + m.group(1))
        n = max([0] + [d.count("(") for d in out.split(",") if d.startswith("(")])
        c.count("tree:lines-max-size-%s" % ("<=4" if n <= 4 else "<=16" if n <= 16 else "<=64" if n <= 64 else ">64"))
    else:
        c.count("circ:ops", line.count(",") + 1)
        c.count("circ:panic-observations", out.count("panic"))
        for m in re.finditer(r"([-0-9.]+)/(\d+)/(\d+)\|", out):
            cap = 0 if m.group(1) == "-" else m.group(1).count(".") + 1
            if int(m.group(3)) > cap:
                c.count("circ:dumps-wrapped")
            elif int(m.group(3)) - int(m.group(2)) == cap and cap > 0:
                c.count("circ:dumps-full")


# ----------------------------------------------------------------------------------------------- search / shrink
def strip_line(line):
    """keep only the state-changing operations of a history, then dump/observe once at the end"""
    fam, ops = line.split(" ")
    if fam == "algo.tree":
        muts = [o for o in ops.split(",") if o[0] in "sdu"]
        return muts, lambda m: "algo.tree " + ",".join(m + ["D", "V", "f", "b", "e", "m"])
    muts = [o for o in ops.split(",") if o[0] in "pqxrcwa"]
    return muts, lambda m: "algo.circ " + ",".join(m + ["D", "l", "k", "S", "f"] + ["i:%d" % i for i in range(-1, 12)])


def fails(line, out):
    class Probe:
        n = 0

        def oracle_fail(self, *a):
            Probe.n += 1

        def count(self, *a):
            pass
    sf = []
    if line.startswith("algo.tree "):
        tree_oracle(Probe(), line, out, sf)
    else:
        circ_oracle(Probe(), line, out)
    return Probe.n > 0


def shrink(line, impl, rounds=40):
    """delta debugging over the mutator sequence, on the implementation only; returns a (usually much) shorter
    failing history or the original line"""
    from vlib.core import run_lines
    muts, mk = strip_line(line)
    out = run_lines(impl, [mk(muts)], jobs=1)
    if not fails(mk(muts), out[0]):
        # the failure needs an intermediate observation: keep dumps after every step
        if line.startswith("algo.tree "):
            mk0 = mk
            mk = lambda m: "algo.tree " + ",".join(x for o in m for x in (o, "D")) + ",V"
        else:
            mk = lambda m: circ_line([], m)
        out = run_lines(impl, [mk(muts)], jobs=1)
        if not fails(mk(muts), out[0]):
            return line
    n = 2
    for _ in range(rounds):
        if len(muts) < 2:
            break
        size = max(1, len(muts) // n)
        cands = [muts[:i] + muts[i + size:] for i in range(0, len(muts), size)]
        cl = [mk(m) for m in cands]
        outs = run_lines(impl, cl, jobs=min(16, len(cl)))
        hit = [m for m, l, o in zip(cands, cl, outs) if fails(l, o)]
        if hit:
            muts = min(hit, key=len)
            n = max(2, n - 1)
        elif size == 1:
            break
        else:
            n = min(len(muts), n * 2)
    return mk(muts)


def search(c, impl, families, rng):
    """When the model/implementation correspondence is broken but no explored history violated the property:
    look further on the implementation alone (longer and more numerous random histories), shrink what is found."""
    from vlib.core import run_lines
    lines = []
    if "algo.tree" in families:
        for i in range(12000 if c.thorough else 6000):
            lines.append(tree_random(rng, rng.choice([8, 16, 40, 100]), rng.choice([100, 300, 1000]),
                                     ["mix", "phases", "asc", "desc"][i % 4]))
    if "algo.circ" in families:
        for i in range(6000 if c.thorough else 3000):
            lines.append(circ_random(rng, rng.choice([60, 200, 1000]), ["grow", "steady", "drain"][i % 3]))
    outs = run_lines(impl, lines)
    c.count("search:histories", len(lines))
    bad = [l for l, o in zip(lines, outs) if fails(l, o)]
    bad.sort(key=len)
    found = 0
    for l in bad[:3]:
        sh = shrink(l, impl)
        o = run_lines(impl, [sh], jobs=1)[0]
        before = len(c.oracle_failures)
        if sh.startswith("algo.tree "):
            tree_oracle(c, sh, o, [])
        else:
            circ_oracle(c, sh, o)
        found += len(c.oracle_failures) > before
    return found


# ----------------------------------------------------------------------------------------------- generators
def tree_line(muts, tail_keys):
    ops = []
    for m in muts:
        ops.append(m)
        ops.append("D")
    ops += ["g:%d" % k for k in tail_keys] + TREE_TAIL
    return "algo.tree " + ",".join(ops)


def tree_exhaustive(keys, length, with_update=False):
    """all sequences of exactly `length` Set/Delete over `keys` (shorter histories are covered as prefixes: the
    tree is dumped after every operation)."""
    alphabet = [("s", k) for k in keys] + [("d", k) for k in keys] + ([("u", k) for k in keys] if with_update else [])
    for seq in itertools.product(alphabet, repeat=length):
        muts = []
        for i, (o, k) in enumerate(seq):
            muts.append("%s:%d:%d" % (o, k, i + 1) if o != "d" else "d:%d" % k)
        yield tree_line(muts, list(keys) + [keys[0] - 1, keys[-1] + 1])


def tree_random(rng, nkeys, nops, style):
    """long random histories; styles bias towards ascending/descending runs, churn, and delete-heavy phases."""
    keys = list(range(-(nkeys // 2), nkeys - nkeys // 2))
    ops = []
    live = set()
    cur = rng.choice(keys)
    for i in range(nops):
        if style == "asc":
            cur = cur + 1 if rng.chance(9, 10) else rng.choice(keys)
            k = cur
            ins = rng.chance(9, 10)
        elif style == "desc":
            cur = cur - 1 if rng.chance(9, 10) else rng.choice(keys)
            k = cur
            ins = rng.chance(9, 10)
        elif style == "phases":
            k = rng.choice(keys)
            ins = (i * 4 // max(1, nops)) % 2 == 0 if rng.chance(7, 8) else rng.chance(1, 2)
        else:
            k = rng.choice(keys)
            ins = rng.chance(3, 5)
        if ins:
            ops.append("s:%d:%d" % (k, rng.below(1000)))
            live.add(k)
        else:
            if live and rng.chance(3, 4):
                k = rng.choice(sorted(live))
            ops.append("d:%d" % k)
            live.discard(k)
        r = rng.below(16)
        if r == 3:
            ops.append("u:%d:%d" % (rng.choice(sorted(live)) if live and rng.chance(2, 3) else rng.choice(keys), rng.below(1000)))
        if r == 0:
            ops.append("D")
        elif r == 1:
            ops.append("g:%d" % rng.choice(keys))
        elif r == 2:
            ops.append(rng.choice(["f", "b", "e", "m", "V"]))
    ops.append("D")
    ops += ["g:%d" % rng.choice(keys) for _ in range(4)] + TREE_TAIL
    return "algo.tree " + ",".join(ops)


CIRC_OBS = ["D", "l", "k", "S", "f"] + ["i:%d" % i for i in range(-1, 11)]


def circ_line(prefix, muts):
    ops = list(prefix)
    for m in muts:
        ops.append(m)
        ops += CIRC_OBS
    return "algo.circ " + ",".join(ops)


def circ_exhaustive(prefix, length, alphabet=("p", "q", "r:3", "r:5", "c", "w", "a")):
    for seq in itertools.product(alphabet, repeat=length):
        muts = []
        for i, o in enumerate(seq):
            muts.append("%s:%d" % (o, i + 1) if o in ("p", "x:0", "x:1", "x:2") else o)
        yield circ_line(prefix, muts)


def circ_random(rng, nops, style):
    ops = []
    n = 0
    ln, lo = 0, 0  # tracked queue lengths of s and other
    if rng.chance(1, 2):
        ops.append("r:%d" % rng.below(12))
    push_w = {"grow": 6, "steady": 4, "drain": 3}[style]
    for i in range(nops):
        r = rng.below(10)
        if style == "steady" and i > 20:
            # keep the length near the capacity so the ring wraps again and again
            r = 0 if rng.chance(1, 2) else 9
        if r < push_w:
            n += 1
            ops.append("p:%d" % (0 if rng.chance(1, 40) else n))
            ln += 1
        else:
            ops.append("q")
            ln = max(0, ln - 1)
        x = rng.below(40)
        if x == 0:
            ops.append("r:%d" % rng.below(80))
        elif x == 1:
            ops.append("c")
            ln = 0
        elif x == 2:
            ops.append("w")
            ln, lo = lo, ln
        elif x == 3:
            ops.append("a")
            ln = lo
        elif x in (10, 11):
            n += 1
            ops.append("x:%d:%d" % (rng.below(ln) if ln and rng.chance(7, 8) else -1 - rng.below(3), n))
        elif x < 8:
            ops.append("i:%d" % (rng.below(70) - 2))
        elif x < 10:
            ops.append(rng.choice(["l", "k", "S", "f", "D"]))
        if i % 11 == 10:
            ops.append("D")
    ops += ["D", "l", "k", "S", "f"] + ["i:%d" % i for i in range(-1, 40)]
    return "algo.circ " + ",".join(ops)


def batches(it, n):
    buf = []
    for x in it:
        buf.append(x)
        if len(buf) >= n:
            yield buf
            buf = []
    if buf:
        yield buf


# ----------------------------------------------------------------------------------------------- run
def run(c):
    c.facts(["Algo"])
    c.lean(MODULES, THEOREMS)
    model = c.model_exe()
    import os
    from vlib.core import ROOT
    impl = c.harness("halgo", overlays={
        "internal/vkgo/pkg/algo/verif_hooks.go": os.path.join(ROOT, "go", "halgo", "overlay", "verif_hooks.go")})
    rng = c.rng
    c.trusted += ["go/halgo harness + in-package read-only accessors (overlay); factgen extraction of the new-leaf height "
                  "constant and the panic-site census",
                  "modelled, not verified: Go slices/make/copy/append, nil-pointer dereference = panic, the node allocator "
                  "returns zeroed nodes"]
    c.assumptions += ["keys are Go int with Cmp(a,b) = a<b (a strict total order); TreeMap is generic in the comparator",
                      "int32 stored height does not overflow (height <= 2*log2(n)+2)",
                      "Reserve arguments stay below 2^24 in the run (make([]T,n) out-of-memory is not modelled)"]

    replay_lines = []
    if c.replay:
        for f in c.replay.get("failures", []):
            if f.get("input"):
                replay_lines.append(f["input"])
        for t in c.replay.get("broken_ties", []):
            replay_lines.append(t["line"])

    strict_fail = []
    henv = dict(os.environ, GOMAXPROCS="2")  # 16 harness processes run side by side; each is single-threaded work

    def do(name, lines):
        res = c.tie(name, lines, impl, model, nontrivial=lambda l, a: a.startswith("ok "), env=henv)
        for l, a, _ in res:
            stats(c, l, a)
            if not wellformed(l):
                if a != "bad-op":
                    c.oracle_fail(l, "malformed line not rejected", l)
            elif l.startswith("algo.tree "):
                tree_oracle(c, l, a, strict_fail)
            elif l.startswith("algo.circ "):
                circ_oracle(c, l, a)
            else:
                if a != "bad-op":
                    c.oracle_fail(l, "malformed line not rejected", l)

    # ---- fixed lines: the witness of the known finding, replay, malformed
    fixed = [WITNESS] + replay_lines + [
        "algo.tree s:3:1,s:2:2,s:1:3,D", "algo.tree f", "algo.tree b", "algo.tree e,m,V,D,g:0,d:0,D",
        "algo.tree s:1:1,s:1:2,D,g:1", "algo.tree x", "algo.tree s:1", "algo.circ z", "algo.nope 1", "algo.circ p",
        "algo.circ q", "algo.circ f", "algo.circ i:0", "algo.circ i:-1", "algo.circ c,D,w,D,a,D,l,k,S",
        "algo.circ r:0,D,r:-5,D,r:1,D,p:7,D,p:8,D,q,D,p:9,D,q,q,D",
        "algo.tree u:1:5,s:1:1,u:1:7,g:1,u:2:9,D,d:1,u:1:3,D", "algo.tree u:1",
        "algo.circ x:0:5,x:-1:5,p:1,x:0:7,i:0,x:1:9,D,r:3,p:2,p:3,q,p:4,x:2:8,S,D", "algo.circ x:0",
    ]
    do("fixed", fixed)

    # ---- tree: exhaustive
    K4 = [1, 2, 3, 4]
    if c.thorough:
        plans = [(K4, 6), ([1, 2, 3], 7), ([1, 2, 3, 4, 5], 5), ([1, 2], 9)]
    else:
        plans = [(K4, 5), ([1, 2, 3], 6)]
    for keys, L in plans:
        for b in batches(tree_exhaustive(keys, L), 200000):
            do("tree-exh-%dk-%d" % (len(keys), L), b)
    for b in batches(tree_exhaustive([1, 2], 6 if c.thorough else 5, with_update=True), 200000):
        do("tree-exh-update", b)
    # all insertion orders of 6 (7) keys followed by every single deletion, and ascending/descending runs
    perm_n = 7 if c.thorough else 6
    lines = []
    for p in itertools.permutations(range(1, perm_n + 1)):
        muts = ["s:%d:%d" % (k, i + 1) for i, k in enumerate(p)]
        d = rng.below(perm_n) + 1
        d2 = rng.below(perm_n) + 1
        lines.append(tree_line(muts + ["d:%d" % d, "d:%d" % d2], list(range(0, perm_n + 2))))
    for n in range(1, 40):
        lines.append(tree_line(["s:%d:%d" % (k, k) for k in range(1, n + 1)], [1, n]))
        lines.append(tree_line(["s:%d:%d" % (k, k) for k in range(n, 0, -1)], [1, n]))
        lines.append(tree_line(["s:%d:%d" % (k, k) for k in range(1, n + 1)] + ["d:%d" % k for k in range(1, n + 1)], [1, n]))
    do("tree-perm", lines)
    # random long
    lines = []
    nrand = 3000 if c.thorough else 500
    for i in range(nrand):
        style = ["mix", "asc", "desc", "phases"][i % 4]
        nkeys = rng.choice([4, 8, 16, 40, 100, 300])
        nops = rng.choice([30, 100, 300]) if not c.thorough else rng.choice([30, 100, 400, 1500])
        lines.append(tree_random(rng, nkeys, nops, style))
    do("tree-random", lines)

    # ---- circular: exhaustive + random
    cl = 6 if c.thorough else 5
    NEAR_WRAP = ["r:3", "p:91", "p:92", "q"]  # read_pos=1, write_pos=2, cap=3: two more pushes wrap around
    for prefix, ln in (([], cl - 1), (["r:3"], cl if c.thorough else cl - 1), (["r:2", "w", "r:1"], cl - 1),
                       (NEAR_WRAP, cl - 1)):
        for b in batches(circ_exhaustive(prefix, ln), 100000):
            do("circ-exh", b)
    for b in batches(circ_exhaustive(NEAR_WRAP, cl - 1, alphabet=("p", "q", "x:0", "x:1", "x:2", "w", "a")), 100000):
        do("circ-exh-store", b)
    lines = []
    for i in range(4000 if c.thorough else 600):
        style = ["grow", "steady", "drain"][i % 3]
        lines.append(circ_random(rng, rng.choice([20, 60, 200]) if not c.thorough else rng.choice([20, 60, 200, 1000]), style))
    do("circ-random", lines)

    # ---- search (DESIGN §1.5): correspondence broken, property not yet seen to fail -> look further
    if c.tie_failures and not c.oracle_failures:
        fams = set(t["line"].split(" ")[0] for t in c.tie_failures)
        n = search(c, impl, fams, rng.fork())
        c.notes.append("search after %d tie failures: %d failing histories reported (shrunk)" % (len(c.tie_failures), n))

    # ---- strict AVL balance (the property's "while staying balanced"): every failing history is an instance of the
    # same defect as the witness (new leaf stored with height 0); it is reported under the witness key only while
    # the witness itself fails on the implementation in this run.
    strict_fail.sort(key=lambda x: (len(x[0]), x[0]))
    witness_fails = any(l == WITNESS for l, _, _ in strict_fail)
    c.count("tree:strict-avl-violating-histories", len(strict_fail))
    for l, b, n in strict_fail[:50]:
        c.oracle_fail(WITNESS if witness_fails else l,
                      "strict AVL balance fails: a node has real subtree heights differing by %d (%d entries)" % (b, n), l)

    c.extra["rule"] = (
        "tree: every Set/Delete sequence of the planned exact lengths over small key sets (%s; the tree is dumped after "
        "every operation so shorter histories are covered as prefixes), all insertion orders of %d keys + 2 deletions, "
        "ascending/descending runs up to 39, %d random histories (styles mix/asc/desc/phases, up to %d ops); "
        "circular: every sequence of %d (thorough, after `reserve 3`) / one fewer (from empty, after `reserve 3` in quick, after a swapped-in capacity 2, from a state about to wrap; "
        "also with stores through IndexRef at positions 0..2 in the alphabet) "
        "mutators from {push,pop,reserve 3,reserve 5,clear,swap,deep-assign} with all observers after each step, %d random histories; distinct = distinct line text; every line "
        "contains at least one state-changing operation except the fixed malformed/empty probes" % (
            ", ".join("%d keys x len %d" % (len(k), L) for k, L in plans), perm_n, nrand,
            1500 if c.thorough else 300, cl, 4000 if c.thorough else 600))
