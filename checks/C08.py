"""C08 — generated readers are total and bounded (DESIGN.md §4 C08); TL1 part here (TL2/JSON parts are tied by the C03/C05 checks' malformed streams)."""
import os
from checks import codec_common as cc
from vlib.core import hx, run_lines, ROOT

MODULES = ["TLVerif.Props.CodecTL1Extra"]
THEOREMS = ["TLVerif.Props.CodecTL1Extra." + t for t in [
    "tl1_read_total", "readTL1_fuel_mono", "fuel_suffices", "tl1_fuel_irrelevant", "tl1_rest_le", "sanity_guard", "alloc_bound_tl1",
    "loop_not_productive", "loop_never_answers", "linear_fuel_bound_insufficient_at"]]
SOURCES = ["TLVerif.Codec.TL1", "TLVerif.Codec.TL1Wf", "TLVerif.Codec.TL1Total"]
# known finding L8: the kernel discards its cycle finder's result, so a schema whose reader recursion consumes no input is accepted
L8_KEY = "L8:kernel-accepts-non-productive-recursion:internal/pure/kernel.go Compile (FindCycle result discarded)"
L4A_KEY = "L4:alloc-amplification-zero-wire-size-elements:CheckLengthSanity(…,4)"
# bytes a reader may allocate per input byte before the check calls it out of proportion (Go struct sizes / wire sizes ≤ ~16 in the corpus)
ALLOC_PER_BYTE = 256
ALLOC_SLACK = 1 << 16


def run(c):
    c.lean(MODULES, THEOREMS, sources=SOURCES)
    schemas = [s for s in cc.corpus(c) if s.sanity] + [cc.Schema("amp", [os.path.join(ROOT, "schemas", "amp.tl")], tl2="", sanity=True),
                                                      cc.Schema("loop", [os.path.join(ROOT, "schemas", "loop.tl")], tl2="", sanity=True)]
    model, hcodec, schemas = cc.prepare(c, schemas)
    rng = c.rng
    for sc in schemas:
        certs = cc.certificates(c, model, sc)
        for idx, r in certs.items():
            if not r["wf"]:
                c.oracle_fail("cert wf %s %d" % (sc.sid, idx), "exported descriptor is not well-formed (theorem tl1_read_total does not apply)", None)
            if not r["productive"] and sc.sid == "loop":
                c.oracle_failures.append({"key": L8_KEY, "what": "L8", "input": "schemas/loop.tl"})
                c.count("known:L8")
            elif not r["productive"]:
                c.oracle_fail("cert productive %s %d" % (sc.sid, idx), "schema accepted by the kernel has a type-reference cycle that consumes no input: generated readers recurse without bound", None)
        pre = [sc.desc_line()]
        if sc.sid == "loop":
            if c.thorough:   # replay on the real code: the generated reader overflows the stack on any input (takes ~1 min, 1 GB)
                li = [i for i, it in sc.items if i["tlname"] == "loopA"][0]
                out = run_lines(sc.impl, ["codec.x1 loop %d loopA 0 00000000" % li["idx"]], prefix=pre, mem_limit=c.impl_mem_limit, timeout=600)
                c.evaluations += 1
                c.extra["L8_replay_on_generated_code"] = out[0]
                if out[0] not in ("CRASH", "TIMEOUT", "panic"):
                    c.notes.append("L8 no longer reproduces on generated code: " + out[0])
            continue
        lines = cc.x1_lines(sc, rng, 20 if c.thorough else 5, big=c.thorough, mutants=4, valid=False)
        for inst, it in sc.items:
            for _ in range(8 if c.thorough else 2):
                boxed = 1 if (inst["kind"] == "union" or rng.chance(1, 2)) else 0
                lines.append("codec.x1 %s %d %s %d %s" % (sc.sid, inst["idx"], inst["tlname"], boxed, hx(rng.bytes(rng.below(64)))))
        res = c.tie("tl1-total:" + sc.sid, lines, sc.impl, model, prefix=pre)
        for l, a, b in res:
            if a in ("panic", "CRASH", "TIMEOUT"):
                c.oracle_fail(l, "generated TL1 reader does not return normally on this input: " + a, l)
            if b.startswith("model-err"):
                c.oracle_fail(l, "model reader ran out of fuel / hit a malformed descriptor: " + b, l)
        # allocation proportionality, measured on the implementation (not a tie: the model has no heap)
        al = []
        g = cc.Gen1(sc, rng.fork(), big=True)
        for inst, it in sc.items:
            if inst["kind"] == "union":
                continue
            for _ in range(4 if c.thorough else 2):
                b = g.value(inst["idx"], True, [], 0)
                al.append("codec.a1 %s %d %s 0 %s" % (sc.sid, inst["idx"], inst["tlname"], hx(b)))
                # inflate every 32-bit word in turn to the largest count the sanity check lets through for the remaining input
                for off in range(0, min(len(b), 64) - 3, 4):
                    remaining = len(b) - off - 4 + 256
                    m = b[:off] + (remaining // 4).to_bytes(4, "little") + b[off + 4:] + bytes(256)
                    al.append("codec.a1 %s %d %s 0 %s" % (sc.sid, inst["idx"], inst["tlname"], hx(m)))
        if sc.sid == "amp":
            idx = {i["tlname"]: i["idx"] for i, it in sc.items}
            for L in (400, 2000):
                n = L // 4
                al.append("codec.a1 amp %d amp.a 0 %s" % (idx["amp.a"], hx(n.to_bytes(4, "little") * 2 + bytes(L))))
        out = run_lines(sc.impl, al, prefix=pre, mem_limit=c.impl_mem_limit, timeout=600)
        worst = 0
        for l, a in zip(al, out):
            c.evaluations += 1
            c.count("codec.a1:" + a.split(" ")[0])
            if a in ("panic", "CRASH", "TIMEOUT"):
                c.oracle_fail(l, "reader does not return normally (allocation run): " + a, l)
                continue
            p = a.split(" ")
            n = (len(l.split(" ")[5]) // 2) if l.split(" ")[5] != "-" else 0
            alloc = int(p[1])
            worst = max(worst, alloc / max(n, 1))
            if alloc > ALLOC_PER_BYTE * n + ALLOC_SLACK:
                if l.split(" ")[3] == "amp.a":
                    c.oracle_failures.append({"key": L4A_KEY, "what": "L4A", "input": l})
                    c.count("known:L4A")
                else:
                    c.oracle_fail(l, "reader allocated %d bytes for %d input bytes with length sanity checks enabled" % (alloc, n), l)
        c.extra.setdefault("worst_alloc_per_input_byte", {})[sc.sid] = round(worst, 1)
    c.extra["rule"] = ("malformed TL1 stream only (4 mutations per valid encoding + random bytes) on schemas generated with --checkLengthSanity; "
                       "oracle: no panic/crash/timeout; allocation runs: valid encodings with each 32-bit word inflated to the largest count "
                       "the sanity check admits, TotalAlloc delta ≤ %d·len + %d" % (ALLOC_PER_BYTE, ALLOC_SLACK))
    c.assumptions += ["heap measurement is runtime.MemStats.TotalAlloc of one decode (includes slice headers and size-class rounding)",
                      "JSON text totality rests on easyjson/jlexer (a dependency, trusted)"]
