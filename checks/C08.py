"""C08 — generated readers are total and bounded (DESIGN.md §4 C08): TL1 (tied to the model, theorems), JSON texts (implementation-only
no-panic oracle); the TL2 malformed streams are tied by C03/C13."""
import os
from checks import codec_common as cc
from vlib.core import hx, run_lines, ROOT

MODULES = ["TLVerif.Props.CodecTL1Extra"]
THEOREMS = ["TLVerif.Props.CodecTL1Extra." + t for t in [
    "tl1_read_total", "readTL1_fuel_mono", "fuel_suffices", "tl1_fuel_irrelevant", "tl1_rest_le", "sanity_guard", "alloc_bound_tl1",
    "loop_not_productive", "loop_never_answers", "linear_fuel_bound_insufficient_at"]]
SOURCES = ["TLVerif.Codec.TL1", "TLVerif.Codec.TL1Wf", "TLVerif.Codec.TL1Total"]
# known finding L8: the kernel discards its cycle finder's result, so a schema whose reader recursion consumes no input is accepted
L8_KEY = "L8:kernel-accepts-non-productive-recursion:internal/pure/kernel.go Compile (FindCycle result discarded)"
L4A_KEY = "L4:alloc-amplification-zero-wire-size-elements:CheckLengthSanity(…,4)"
# bytes a reader may allocate per input byte before the check calls it out of proportion (Go struct sizes / wire sizes ≤ ~16 in the corpus)
ALLOC_PER_BYTE = 256
ALLOC_SLACK = 1 << 16


def json_variants(rng, text):
    """malformed / unexpected-shape variants of one JSON text (bytes): structural edits when it parses, byte edits always"""
    import json
    out = []
    try:
        tree = json.loads(text.decode("utf-8", "replace"), parse_constant=lambda x: 0)
    except Exception:
        tree = None
    OTHER = [None, True, 0, -1, 1e300, 2 ** 70, "x", "", [], {}, [[]], {"a": 1}, [1, 2, 3, 4, 5, 6, 7, 8, 9, 10, 11, 12, 13]]

    def edit(t, budget):
        # one random structural edit somewhere in the tree
        if isinstance(t, list):
            k = rng.below(5)
            if k == 0 or not t:
                return t + [t[-1] if t else 0] * rng.range(1, 3)      # longer than the schema says (fixed tuples: N+1, N+2 elements)
            if k == 1:
                return t[:-1]
            if k == 2:
                return t + [rng.choice(OTHER)]
            i = rng.below(len(t))
            return t[:i] + [edit(t[i], budget)] + t[i + 1:]
        if isinstance(t, dict) and t:
            keys = list(t)
            key = rng.choice(keys)
            k = rng.below(5)
            if k == 0:
                return {kk: v for kk, v in t.items() if kk != key}
            if k == 1:
                d = dict(t)
                d["unknown_" + key] = rng.choice(OTHER)
                return d
            d = dict(t)
            d[key] = edit(t[key], budget)
            return d
        return rng.choice(OTHER)

    if tree is not None:
        for _ in range(4):
            try:
                out.append(json.dumps(edit(tree, 3)).encode())
            except Exception:
                pass
        out.append(json.dumps([tree] * 3).encode())
    m = bytearray(text)
    if m:
        for _ in range(2):
            mm = bytearray(m)
            i = rng.below(len(mm))
            k = rng.below(4)
            if k == 0:
                mm[i] = rng.choice(b'[]{}",:0-9e.\\ntf')
            elif k == 1:
                del mm[i:i + rng.range(1, 4)]
            elif k == 2:
                mm[i:i] = rng.choice([b"[", b"]", b"{", b"}", b",", b'"', b"1e999", b"-", b"\\u12", b"null", b"[[[[[[[["])
            else:
                mm = mm[:i]
            out.append(bytes(mm))
    out.append(b"[" * 200)
    out.append(b'{"a":' * 100)
    return out


def json_leg(c, sc, rng, pre):
    """JSON text part of the statement (implementation only): every generated JSON reader returns normally on valid texts of other
    shapes than the schema expects (longer / shorter arrays, wrong value kinds, unknown and missing properties), on mutated texts and
    on pathological nesting. The texts start from what the generated writers emit for type-directed values."""
    g = cc.Gen1(sc, rng.fork(), big=False)
    src = []
    for inst, it in sc.items:
        if inst["kind"] == "union":
            continue
        for _ in range(3 if c.thorough else 1):
            src.append(("codec.jtext %s %d %s 0 %s" % (sc.sid, inst["idx"], inst["tlname"], hx(g.value(inst["idx"], True, [], 0))), inst))
    texts = run_lines(sc.impl, [l for l, _ in src], prefix=pre, mem_limit=c.impl_mem_limit, timeout=300)
    lines = []
    for (l, inst), a in zip(src, texts):
        if not a.startswith("ok "):
            continue
        t = a.split(" ")[1]
        text = b"" if t == "-" else bytes.fromhex(t)
        for v in json_variants(rng, text):
            lines.append("codec.rj %s %d %s %d %s" % (sc.sid, inst["idx"], inst["tlname"], rng.below(2), hx(v)))
    out = run_lines(sc.impl, lines, prefix=pre, mem_limit=c.impl_mem_limit, timeout=600)
    for l, a in zip(lines, out):
        c.evaluations += 1
        c.count("json-total:" + a.split(" ")[0])
        c.distinct.add(l)
        if a in ("panic", "CRASH", "TIMEOUT"):
            c.oracle_fail(l, "generated JSON reader does not return normally on this text: %s (%s)" % (a, bytes.fromhex(l.split(" ")[5])[:120] if l.split(" ")[5] != "-" else b""), l)


def run(c):
    c.lean(MODULES, THEOREMS, sources=SOURCES)
    schemas = [s for s in cc.corpus(c) if s.sanity] + [cc.Schema("amp", [os.path.join(ROOT, "schemas", "amp.tl")], tl2="", sanity=True),
                                                      cc.Schema("loop", [os.path.join(ROOT, "schemas", "loop.tl")], tl2="", sanity=True)]
    model, hcodec, schemas = cc.prepare(c, schemas)
    rng = c.rng
    for sc in schemas:
        certs = cc.certificates(c, model, sc)
        for idx, r in certs.items():
            if not r["wf"]:
                c.oracle_fail("cert wf %s %d" % (sc.sid, idx), "exported descriptor is not well-formed (theorem tl1_read_total does not apply)", None)
            if not r["productive"] and sc.sid == "loop":
                c.oracle_failures.append({"key": L8_KEY, "what": "L8", "input": "schemas/loop.tl"})
                c.count("known:L8")
            elif not r["productive"]:
                c.oracle_fail("cert productive %s %d" % (sc.sid, idx), "schema accepted by the kernel has a type-reference cycle that consumes no input: generated readers recurse without bound", None)
        pre = [sc.desc_line()]
        if sc.sid == "loop":
            if c.thorough:   # replay on the real code: the generated reader overflows the stack on any input (takes ~1 min, 1 GB)
                li = [i for i, it in sc.items if i["tlname"] == "loopA"][0]
                out = run_lines(sc.impl, ["codec.x1 loop %d loopA 0 00000000" % li["idx"]], prefix=pre, mem_limit=c.impl_mem_limit, timeout=600)
                c.evaluations += 1
                c.extra["L8_replay_on_generated_code"] = out[0]
                if out[0] not in ("CRASH", "TIMEOUT", "panic"):
                    c.notes.append("L8 no longer reproduces on generated code: " + out[0])
            continue
        lines = cc.x1_lines(sc, rng, 20 if c.thorough else 5, big=c.thorough, mutants=4, valid=False)
        for inst, it in sc.items:
            for _ in range(8 if c.thorough else 2):
                boxed = 1 if (inst["kind"] == "union" or rng.chance(1, 2)) else 0
                lines.append("codec.x1 %s %d %s %d %s" % (sc.sid, inst["idx"], inst["tlname"], boxed, hx(rng.bytes(rng.below(64)))))
        res = c.tie("tl1-total:" + sc.sid, lines, sc.impl, model, prefix=pre)
        for l, a, b in res:
            if a in ("panic", "CRASH", "TIMEOUT"):
                c.oracle_fail(l, "generated TL1 reader does not return normally on this input: " + a, l)
            if b.startswith("model-err"):
                c.oracle_fail(l, "model reader ran out of fuel / hit a malformed descriptor: " + b, l)
        # allocation proportionality, measured on the implementation (not a tie: the model has no heap)
        al = []
        g = cc.Gen1(sc, rng.fork(), big=True)
        for inst, it in sc.items:
            if inst["kind"] == "union":
                continue
            for _ in range(4 if c.thorough else 2):
                b = g.value(inst["idx"], True, [], 0)
                al.append("codec.a1 %s %d %s 0 %s" % (sc.sid, inst["idx"], inst["tlname"], hx(b)))
                # inflate every 32-bit word in turn to the largest count the sanity check lets through for the remaining input
                for off in range(0, min(len(b), 64) - 3, 4):
                    remaining = len(b) - off - 4 + 256
                    m = b[:off] + (remaining // 4).to_bytes(4, "little") + b[off + 4:] + bytes(256)
                    al.append("codec.a1 %s %d %s 0 %s" % (sc.sid, inst["idx"], inst["tlname"], hx(m)))
        if sc.sid == "amp":
            idx = {i["tlname"]: i["idx"] for i, it in sc.items}
            for L in (400, 2000):
                n = L // 4
                al.append("codec.a1 amp %d amp.a 0 %s" % (idx["amp.a"], hx(n.to_bytes(4, "little") * 2 + bytes(L))))
        out = run_lines(sc.impl, al, prefix=pre, mem_limit=c.impl_mem_limit, timeout=600)
        worst = 0
        for l, a in zip(al, out):
            c.evaluations += 1
            c.count("codec.a1:" + a.split(" ")[0])
            if a in ("panic", "CRASH", "TIMEOUT"):
                c.oracle_fail(l, "reader does not return normally (allocation run): " + a, l)
                continue
            p = a.split(" ")
            n = (len(l.split(" ")[5]) // 2) if l.split(" ")[5] != "-" else 0
            alloc = int(p[1])
            worst = max(worst, alloc / max(n, 1))
            if alloc > ALLOC_PER_BYTE * n + ALLOC_SLACK:
                if l.split(" ")[3] == "amp.a":
                    c.oracle_failures.append({"key": L4A_KEY, "what": "L4A", "input": l})
                    c.count("known:L4A")
                else:
                    c.oracle_fail(l, "reader allocated %d bytes for %d input bytes with length sanity checks enabled" % (alloc, n), l)
        c.extra.setdefault("worst_alloc_per_input_byte", {})[sc.sid] = round(worst, 1)
        json_leg(c, sc, rng, pre)
    c.extra["rule"] = ("malformed TL1 stream only (4 mutations per valid encoding + random bytes) on schemas generated with --checkLengthSanity; "
                       "oracle: no panic/crash/timeout; allocation runs: valid encodings with each 32-bit word inflated to the largest count "
                       "the sanity check admits, TotalAlloc delta ≤ %d·len + %d" % (ALLOC_PER_BYTE, ALLOC_SLACK))
    c.assumptions += ["heap measurement is runtime.MemStats.TotalAlloc of one decode (includes slice headers and size-class rounding)",
                      "JSON totality is explored, not proved: structural and byte-level variants of writer output; the tokenizer easyjson/jlexer is a trusted dependency"]
