"""C23 — Implicit constructor tags follow the canonical-form CRC32 rule (DESIGN.md §4 C23)."""
import os
import zlib

from vlib.core import hx
from checks import syntaxgen as sg

MODULES = ["TLVerif.Props.C23"]
THEOREMS = ["TLVerif.Props.C23." + t for t in [
    "crc32_check_value", "crc32_doc_example", "tag_is_crc_of_canonical", "explicit_tag_verbatim", "explicit_tag_kept",
    "canonical_ignores_tag_and_comments", "skipWS_sees_stripped", "skipWS_none_stripped",
    "canonical_as_documented_partial", "witness_canonical", "witness_documented", "canonical_as_documented_fails_at",
    "skipWS_layout_invariant", "checkToken_layout_invariant", "expect_layout_invariant"]]

# the documented rules are not followed inside `[ … ]` (see known_findings.d/C23.json): fixed witness
WITNESS = "syntax.canon - " + hx(b"foo n:# a:n*[x:%int y:(tuple int 1+2)] = Foo;")
WITNESS_REF = b"foo n:# a:n*[ x:int y:tuple int 3 ] = Foo"


def unhex(s):
    return b"" if s in ("-", "") else bytes.fromhex(s)


def parse_canon(a):
    """'ok tag(e|i):gen:hex …' -> [(tag, explicit, gen, text)]"""
    res = []
    for p in a.split()[1:]:
        t, g, h = p.split(":")
        res.append((int(t[:8], 16), t[8] == "e", int(g, 16), unhex(h)))
    return res


def overlay():
    return os.path.join(os.path.dirname(os.path.dirname(os.path.abspath(__file__))), "go", "hsyntax", "overlay", "verif_hooks.go")


def run(c):
    c.facts(["Syntax"])
    c.lean(MODULES, THEOREMS, sources=["TLVerif.Syntax.Printer", "TLVerif.Syntax.Crc32", "TLVerif.Syntax.CanonLemmas", "TLVerif.Syntax.DocCanonical"])
    model = c.model_exe()
    impl = c.harness("hsyntax", overlays={"internal/tlast/verif_hooks.go": overlay()})
    rng = c.rng
    T = c.thorough
    c.trusted += ["go/hsyntax harness + accessor overlay (canonicalForm is unexported)", "python zlib.crc32 as the independent CRC-32/IEEE",
                  "modelled, not verified: quicktemplate writer (N().S/DUL), fmt %08x, unicode.IsLower on ASCII, hash/crc32"]
    c.assumptions += ["layout invariance is a Lean theorem only for the iterator primitive (skipWS); for whole combinators it is explored: "
                      "every random schema is parsed under several layouts and both application syntaxes and the tags are compared",
                      "the documented-rule reference is evaluated on schemas whose repetition brackets contain only plain fields "
                      "(inside brackets the implementation prints Field.String(); recorded as a known finding with a fixed witness)"]
    lines = []
    if c.replay:
        for f in c.replay.get("failures", []):
            if f.get("input"):
                lines.append(f["input"])
        for t in c.replay.get("broken_ties", []):
            lines.append(t["line"])
    meta = {}
    # (1) repository schemas: whole files, windows, relayouts by replacing line breaks
    for f in sg.corpus_files():
        data = open(f, "rb").read()
        if len(data) < 60000 or T:
            l = "syntax.canon - %s" % hx(data)
            lines.append(l)
            l2 = "syntax.canon - %s" % hx(b"\r\n".join(
                ln if b"//" in ln else ln.replace(b" = ", b"\t=  // c\r\n ") for ln in data.split(b"\n")))
            lines.append(l2)
            meta[l2] = ("same", l)
    for (_, _, ch) in sg.corpus_chunks(8):
        lines.append("syntax.canon - %s" % hx(ch))
    # (2) random schemas: k layouts of the same token stream, both application syntaxes, reference canonical form
    g = sg.Gen(rng, complex_in_brackets=False)
    gw = sg.Gen(rng, complex_in_brackets=True)
    for i in range(5000 if T else 900):
        gen = g if i % 3 else gw
        items = gen.schema()
        combs = [it for it in items if not isinstance(it, str)]
        fl = rng.choice(["-", "-", "-", "b", "d"])
        base = "syntax.canon %s %s" % (fl, hx(sg.layout(sg.schema_tokens(items, None, angle=False), rng, 0)))
        lines.append(base)
        meta[base] = ("gen", combs, gen is g)
        for _ in range(3):
            style = rng.below(3)
            angle = rng.choice([None, True, False])
            l = "syntax.canon %s %s" % (fl, hx(sg.layout(sg.schema_tokens(items, rng, angle=angle), rng, style)))
            if l != base:
                lines.append(l)
                meta[l] = ("same", base)
    # (3) CRC itself against the standard library
    for n in list(range(0, 40)) + [rng.range(40, 3000) for _ in range(60)]:
        lines.append("syntax.crc " + hx(rng.bytes(n)))
    lines.append(WITNESS)
    res = c.tie("canon", lines, impl, model)
    out = {l: a for l, a, _ in res}
    for l, a, _ in res:
        f = l.split(" ")
        if f[0] == "syntax.crc":
            if a != "ok %08x" % (zlib.crc32(unhex(f[1])) & 0xFFFFFFFF):
                c.oracle_fail(l, "hash/crc32 disagrees with zlib", l)
            continue
        if a == "panic" or a == "CRASH":
            c.oracle_fail(l, "panic while parsing / computing the tag", l)
            continue
        if not a.startswith("ok"):
            m = meta.get(l)
            if m and m[0] == "same" and out.get(m[1], "").startswith("ok"):
                c.oracle_fail(l, "a relayout of an accepted schema is rejected", l)
            continue
        cs = parse_canon(a)
        for (tag, explicit, gen, text) in cs:
            crc = zlib.crc32(text) & 0xFFFFFFFF
            if gen != crc:
                c.oracle_fail(l, "GenCrc32 %08x is not the CRC32 %08x of the canonical form %r" % (gen, crc, text), l)
            if not explicit and tag != crc:
                c.oracle_fail(l, "implicit tag %08x is not the CRC32 %08x of the canonical form %r" % (tag, crc, text), l)
            if b"\n" in text or b"  " in text or b"{" in text or b"}" in text or text != text.strip():
                c.oracle_fail(l, "canonical form is not one line with single spaces and without braces: %r" % text, l)
        m = meta.get(l)
        if l == WITNESS:
            if cs and cs[0][3] != WITNESS_REF:
                c.oracle_fail(l, "inside [ ] the canonical form keeps '%%' on lower-case names, parentheses and the arithmetic "
                              "expression instead of its value: %r (documented rules give %r)" % (cs[0][3], WITNESS_REF), l)
            continue
        if not m:
            continue
        if m[0] == "same":
            b = out.get(m[1], "")
            if b.startswith("ok"):
                t0 = [(x[0], x[1]) for x in parse_canon(b)]
                t1 = [(x[0], x[1]) for x in cs]
                if t0 != t1:
                    c.oracle_fail(l, "tags change under relayout / equivalent application syntax: %s vs %s" % (
                        ["%08x" % x[0] for x in t0], ["%08x" % x[0] for x in t1]), l)
            else:
                c.oracle_fail(l, "a relayout of a rejected schema is accepted", l)
        elif m[0] == "gen":
            combs, simple = m[1], m[2]
            if len(combs) != len(cs):
                c.oracle_fail(l, "number of combinators differs from the generated schema", l)
                continue
            for gc, (tag, explicit, gen, text) in zip(combs, cs):
                if gc.tag is not None and (not explicit or tag != gc.tag):
                    c.oracle_fail(l, "explicit tag #%08x is not used verbatim (got %08x)" % (gc.tag, tag), l)
                if gc.tag is None and explicit:
                    c.oracle_fail(l, "implicit tag reported as explicit", l)
                if simple and "_" not in gc.cname.s()[:1] and not (gc.arrow and not gc.is_function):
                    ref = sg.ref_canonical(gc).encode()
                    if ref != text:
                        c.oracle_fail(l, "canonical form %r differs from the documented rules %r" % (text, ref), l)
                        c.count("ref:differs")
                    else:
                        c.count("ref:agrees")
    c.extra["rule"] = ("lines: every repository .tl (whole, CRLF+comment relayout, 8-line windows); random type-directed schemas, each under "
                       "4 layouts (single-space/minimal/wild with comments, CRLF, tabs) and both application syntaxes; random byte strings "
                       "for the CRC; distinct = distinct line text; non-trivial = all")
