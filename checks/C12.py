"""C12 — generated code agrees with the dynamic interpreter internal/pure/onthefly (DESIGN.md §4 C12); TL1 part."""
from checks import codec_common as cc
from vlib.core import hx

LEVEL = "translation_validation"
# known finding: onthefly readers have no element-count sanity check (generated code: CheckLengthSanity), identified by call site
OTF_KEY = "onthefly:ReadTL1-no-length-sanity:t_array_value.go/t_dict_value.go"


def run(c):
    model, hcodec, schemas = cc.prepare(c, [s for s in cc.corpus(c) if s.sid in ("cases", "gold")])
    rng = c.rng
    c.impl_mem_limit = 2 << 30
    c.impl_timeout = 120
    for sc in schemas:
        # valid encodings, truncations and small mutations; count inflation only through a handful of fixed probes (each costs the interpreter GBs)
        g = cc.Gen1(sc, rng.fork(), big=c.thorough)
        lines = []
        for inst, it in sc.items:
            for boxed in (0, 1):
                if inst["kind"] == "union" and not boxed:
                    continue
                for _ in range(20 if c.thorough else 6):
                    b = g.value(inst["idx"], not boxed, [], 0)
                    lines.append("codec.x1 %s %d %s %d %s" % (sc.sid, inst["idx"], inst["tlname"], boxed, hx(b + (rng.bytes(rng.below(4)) if rng.chance(1, 3) else b""))))
                    lines.append("codec.x1 %s %d %s %d %s" % (sc.sid, inst["idx"], inst["tlname"], boxed, hx(b[:rng.below(len(b) + 1)])))
                    if len(b) >= 4:
                        m = bytearray(b)
                        i = rng.below(len(m))
                        m[i] ^= 1 << rng.below(3)          # low bits only: keeps counts small
                        lines.append("codec.x1 %s %d %s %d %s" % (sc.sid, inst["idx"], inst["tlname"], boxed, hx(bytes(m))))
        probes = []
        for inst, it in sc.items:
            if "array" in cc.reach_kinds(sc, inst["idx"]) and inst["kind"] == "struct" and len(probes) < 3:
                probes.append("codec.x1 %s %d %s 0 %s" % (sc.sid, inst["idx"], inst["tlname"], "ffffff7f" * 3))
        pre = [sc.desc_line()]
        res_gen = c.tie("gen-vs-model:" + sc.sid, lines + probes, sc.impl, model, prefix=pre)
        res_otf = c.tie("otf-vs-model:" + sc.sid, lines + probes, sc.otf, model, prefix=pre)
        for (l, a, _), (_, b, _) in zip(res_gen, res_otf):
            if a != b:
                if l in probes and a == "err eof" and b in ("CRASH", "TIMEOUT", "err eof", "panic"):
                    c.oracle_failures.append({"key": OTF_KEY, "what": "otf", "input": l})
                    continue
                c.oracle_fail(l, "generated code and dynamic interpreter disagree: generated %s, interpreter %s" % (a[:100], b[:100]), l)
        # tie failures of the interpreter on the probes are explained by the known finding
        for t in c.tie_failures:
            if t["line"] in probes and t["tie"].startswith("otf-vs-model"):
                t["explained"] = True
    c.extra["rule"] = "same TL1 case lines served by generated code, by onthefly.CreateValue(instance) and by the Lean model; three-way comparison"
    c.extra["explanation"] = "three-way differential run"
