"""C12 — generated code agrees with the dynamic interpreter internal/pure/onthefly (DESIGN.md §4 C12); TL1 part."""
from checks import codec_common as cc

LEVEL = "translation_validation"


def run(c):
    model, hcodec, schemas = cc.prepare(c, cc.corpus(c)[:1] if not c.thorough else None)
    rng = c.rng
    for sc in schemas:
        lines = cc.x1_lines(sc, rng, 20 if c.thorough else 6, big=c.thorough, mutants=2)
        pre = [sc.desc_line()]
        res_gen = c.tie("gen-vs-model:" + sc.sid, lines, sc.impl, model, prefix=pre)
        res_otf = c.tie("otf-vs-model:" + sc.sid, lines, sc.otf, model, prefix=pre)
        for (l, a, _), (_, b, _) in zip(res_gen, res_otf):
            if a != b:
                c.oracle_fail(l, "generated code and dynamic interpreter disagree: generated %s, interpreter %s" % (a[:100], b[:100]), l)
    c.extra["rule"] = "same TL1 case lines served by generated code, by onthefly.CreateValue(instance) and by the Lean model; three-way comparison"
    c.extra["explanation"] = "three-way differential run"
