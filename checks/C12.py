"""C12 — generated code agrees with the dynamic interpreter internal/pure/onthefly (DESIGN.md §4 C12): TL1 and TL2."""
from checks import codec_common as cc, codec_tl2 as t2, otf_model as om
from vlib.core import hx

LEVEL = "translation_validation"
# known finding: onthefly readers have no element-count sanity check (generated code: CheckLengthSanity), identified by call site
# known finding: for duplicate dictionary keys generated code (Go map) keeps the LAST value, the interpreter keeps the FIRST
DUP_KEY = "onthefly:dict-duplicate-key-keeps-first:t_dict_value.go"
OTF_KEY = "onthefly:ReadTL1-no-length-sanity:t_array_value.go/t_dict_value.go"


# TL2 half: every class of disagreement is ONE known finding, identified by the call site in onthefly; a disagreement is attributed
# to them only when checks/otf_model.py reproduces BOTH answers exactly (no switch = generated code, all switches = onthefly)
KEYS = {
    om.A_TRUE_OBJECT: "onthefly:TL2-masked-true-field-is-an-object:t_struct_value.go WriteTL2/ReadFieldsTL2",
    om.B_EMPTY_ARRAY: "onthefly:TL2-empty-array-written-as-0100:t_array_value.go/t_dict_value.go WriteTL2",
    om.C_REPAIR: "onthefly:WriteTL1-resizes-tuple-to-its-nat-argument:t_array_value.go WriteTL1",
    om.D_DUP_FIRST: DUP_KEY,
    om.F_NEGZERO: "onthefly:TL2-float-negative-zero-is-not-empty:kernel_value.go primitiveValues",
    om.S_TRUE_PARSED: "onthefly:ReadTL2-parses-empty-struct-that-generated-code-skips:t_struct_value.go ReadFieldsTL2",
    om.T_TUPLE_COUNT: "onthefly:ReadTL2-tuple-no-count-sanity:t_array_value.go ReadTL2",
    om.N_NO_SANITY: OTF_KEY,
}


def runaway(c, sc, l):
    """would the interpreter create more than om.QUIET elements that no input byte backs (a count or a `#` far larger than the
    input)?  Such lines take it seconds to minutes and end machine-dependently (error after the allocation, OOM, timeout): they are
    not sent to it; the fixed probes, run one process each under a small address-space limit, stand for them."""
    ans, big = om.predict_info(sc, l, om.ALL)
    if ans == "BAND" or (ans or "").startswith("TOOBIG") or big > om.QUIET:
        c.count("not-sent-to-interpreter:runaway-allocation")
        return True
    return False


def tie_probes(c, name, sc, model, pre, lines):
    lim, c.impl_mem_limit = c.impl_mem_limit, 1 << 30        # Go needs ~0.7 GB of address space to start; dies in seconds at 1 GB
    try:
        rg = c.tie("gen-vs-model-%s:%s" % (name, sc.sid), lines, sc.impl, model, prefix=pre, jobs=len(lines))
        ro = c.tie("otf-vs-model-%s:%s" % (name, sc.sid), lines, sc.otf, model, prefix=pre, jobs=len(lines))
    finally:
        c.impl_mem_limit = lim
    return rg, ro


def tl2_compare(c, sc, res_gen, res_otf, what):
    """C12 oracle on every line both implementations answered; returns the lines whose disagreement is explained"""
    otf = {l: a for l, a, _ in res_otf}
    explained = set()
    for l, a, _ in res_gen:
        b = otf.get(l)
        if b is None or a == b:
            continue
        ex = om.explain(sc, l, a, b)
        if ex:
            for x in sorted(ex):
                c.oracle_failures.append({"key": KEYS[x], "what": x, "input": l})
                c.count("tl2-known-deviation:" + x)
            explained.add(l)
        else:
            c.oracle_fail(l, "generated code and dynamic interpreter %s: generated %s, interpreter %s" % (what, a[:100], b[:100]), l)
    return explained


def tl2_phase(c, sc, model, rng, pre):
    """TL2 half of the property: for the same value (decoded from the same TL1 bytes) both write identical TL2 bytes; both accept
    the same TL2 byte strings and agree on what they decoded (observed through the re-written TL2 and TL1)."""
    per = 8 if c.thorough else 3
    # 1 string in `huge` gets a length around 65790, where the TL2 size of the string / of the bodies around it takes the 9-byte form
    g1 = cc.Gen1(sc, rng.fork(), big=True, huge=25 if c.thorough else 60)
    # union constructors are not values of their own in the interpreter (its union value owns the variants; a constructor struct
    # created on its own has no variant index on the wire), so they are compared through their unions only
    items = [(inst, it) for inst, it in t2.tl2_items(sc) if it[3] and not inst.get("isUnionElement")]
    by_idx = {inst["idx"]: inst for inst, _ in items}

    def for_otf(lines):
        return [l for l in lines if not runaway(c, sc, l)]

    x2 = []
    for inst, it in items:
        for boxed in (0, 1):
            if inst["kind"] == "union" and not boxed:
                continue
            for _ in range(per):
                x2.append(t2.x2_line(sc, inst, boxed, g1.value(inst["idx"], not boxed, [], 0)))
    # every run has a few values whose strings are ALL of boundary length (bodies of >= 65790 bytes: 9-byte size form)
    gh = cc.Gen1(sc, rng.fork(), huge=1)
    n_huge = 0
    for inst, it in items:
        if n_huge >= (10 if c.thorough else 4):
            break
        b = gh.value(inst["idx"], False, [], 0)
        if 65790 <= len(b) < 600000:
            x2.append(t2.x2_line(sc, inst, 1, b))
            n_huge += 1
    rg = c.tie("gen-vs-model-tl2w:" + sc.sid, x2, sc.impl, model, prefix=pre)
    ro = c.tie("otf-vs-model-tl2w:" + sc.sid, for_otf(x2), sc.otf, model, prefix=pre)
    explained = tl2_compare(c, sc, rg, ro, "write different TL2 (or TL1) bytes for the same value")
    r2 = set()
    for l, a, _ in rg:
        if a.startswith("ok "):
            w2 = dict(p.split("=", 1) for p in a.split(" ") if "=" in p).get("w2")
            if w2 and w2 not in ("panic", "werr") and not w2.startswith("!"):
                inst = by_idx[int(l.split(" ")[2])]
                bts = t2.unhex(w2)
                r2.add(t2.r2_line(sc, inst, bts))
                if len(bts) < 4096:
                    r2.add(t2.r2_line(sc, inst, t2.mutate2(rng, bts)))
                    r2.add(t2.r2_line(sc, inst, bts[:rng.below(len(bts) + 1)]))
    g2 = t2.Gen2(sc, rng.fork(), big=c.thorough, huge=40 if c.thorough else 0)
    for inst, it in items:
        for _ in range(per):
            v = g2.value(inst["idx"])
            b = g2.top(inst, v, t2.Style(rng.fork(), p=rng.choice([3, 6])) if rng.chance(1, 2) else None)
            r2.add(t2.r2_line(sc, inst, b))
            if rng.chance(1, 2) and len(b) < 4096:
                r2.add(t2.r2_line(sc, inst, t2.mutate2(rng, b)))
            vb = om.bump_union(sc, inst["idx"], v)       # variant index one past the last variant: must be rejected by both
            b = om.encode(sc, inst["idx"], vb) if vb is not None else None
            if b is not None:
                r2.add(t2.r2_line(sc, inst, b))
    r2 = sorted(r2)
    rg = c.tie("gen-vs-model-tl2r:" + sc.sid, r2, sc.impl, model, prefix=pre)
    ro = c.tie("otf-vs-model-tl2r:" + sc.sid, for_otf(r2), sc.otf, model, prefix=pre)
    explained |= tl2_compare(c, sc, rg, ro, "disagree on a TL2 byte string")
    # fixed probes of the two runaway allocations (one process each, small address space so that they die quickly)
    pr = om.probes(sc, items)
    if pr:
        rg, ro = tie_probes(c, "tl2p", sc, model, pre, pr)
        explained |= tl2_compare(c, sc, rg, ro, "disagree on a TL2 byte string")
    for t in c.tie_failures:
        if t["tie"].startswith("otf-vs-model-tl2") and t["tie"].endswith(":" + sc.sid) and t["line"] in explained:
            t["explained"] = True


def run(c):
    model, hcodec, schemas = cc.prepare(c, [s for s in cc.corpus(c) if s.sid in ("cases", "gold")])
    rng = c.rng
    c.impl_timeout = 300
    for sc in schemas:
        # valid encodings, truncations and small mutations; count inflation only through a fixed probe (a mutation that makes the
        # interpreter read string bytes as a count costs it GBs and minutes: see `runaway`)
        g = cc.Gen1(sc, rng.fork(), big=c.thorough)
        lines = []
        for inst, it in sc.items:
            for boxed in (0, 1):
                if inst["kind"] == "union" and not boxed:
                    continue
                for _ in range(20 if c.thorough else 6):
                    b = g.value(inst["idx"], not boxed, [], 0)
                    lines.append("codec.x1 %s %d %s %d %s" % (sc.sid, inst["idx"], inst["tlname"], boxed, hx(b + (rng.bytes(rng.below(4)) if rng.chance(1, 3) else b""))))
                    lines.append("codec.x1 %s %d %s %d %s" % (sc.sid, inst["idx"], inst["tlname"], boxed, hx(b[:rng.below(len(b) + 1)])))
                    if len(b) >= 4:
                        m = bytearray(b)
                        i = 4 * rng.below(len(m) // 4)       # least significant byte of a word
                        m[i] ^= 1 << rng.below(3)          # low bits only: keeps counts small
                        lines.append("codec.x1 %s %d %s %d %s" % (sc.sid, inst["idx"], inst["tlname"], boxed, hx(bytes(m))))
        probes = om.probe_tl1(sc, sc.items)
        pre = [sc.desc_line()]
        res_gen = c.tie("gen-vs-model:" + sc.sid, lines, sc.impl, model, prefix=pre)
        res_otf = c.tie("otf-vs-model:" + sc.sid, [l for l in lines if not runaway(c, sc, l)], sc.otf, model, prefix=pre)
        if probes:
            pg, po = tie_probes(c, "tl1p", sc, model, pre, probes)
            res_gen, res_otf = res_gen + pg, res_otf + po
        dup_lines = set()
        otf_lines = set()
        suspects = []
        otf_ans = {l: b for l, b, _ in res_otf}
        for l, a, _ in res_gen:
            b = otf_ans.get(l)
            if b is not None and a != b:
                ex = om.explain(sc, l, a, b)
                if ex:
                    # exactly the interpreter's answer under its known deviations: a count the generated sanity check refuses with
                    # EOF (the probe: the interpreter dies allocating; a valid n*[T] of elements of zero wire size: it reads them),
                    # first-wins duplicate keys
                    for x in sorted(ex):
                        c.oracle_failures.append({"key": KEYS[x], "what": x, "input": l})
                        c.count("tl1-known-deviation:" + x)
                    otf_lines.add(l)
                    continue
                pa, pb = a.split(" "), b.split(" ")
                if "dict" in cc.reach_kinds(sc, int(l.split(" ")[2])) and a.startswith("ok ") and b.startswith("ok ") and pa[1] == pb[1]:
                    suspects.append((l, a, b))
                    continue
                c.oracle_fail(l, "generated code and dynamic interpreter disagree: generated %s, interpreter %s" % (a[:100], b[:100]), l)
        # a dictionary disagreement is the known duplicate-key finding iff both implementations agree on the canonical
        # (sorted, de-duplicated) re-encoding that the generated code produced for the same input
        canon = []
        for l, a, b in suspects:
            f = l.split(" ")
            w = cc.outputs(a).get("w1b")
            canon.append("codec.x1 %s %s %s 1 %s" % (f[1], f[2], f[3], w))
        cg = c.tie("gen-canon:" + sc.sid, canon, sc.impl, model, prefix=pre)
        co = c.tie("otf-canon:" + sc.sid, canon, sc.otf, model, prefix=pre)
        for (l, a, b), (_, x, _), (_, y, _) in zip(suspects, cg, co):
            if x == y and x.startswith("ok "):
                c.oracle_failures.append({"key": DUP_KEY, "what": "dup", "input": l})
                dup_lines.add(l)
            else:
                c.oracle_fail(l, "generated code and dynamic interpreter disagree on a dictionary type: generated %s, interpreter %s" % (a[:100], b[:100]), l)
        # tie failures of the interpreter on the probes are explained by the known finding
        for t in c.tie_failures:
            if (t["line"] in otf_lines or t["line"] in dup_lines) and t["tie"].startswith("otf-vs-model"):
                t["explained"] = True
        if sc.tl2:
            tl2_phase(c, sc, model, rng, pre)
    c.extra["rule"] = ("same case lines served by generated code, by onthefly.CreateValue(instance) and by the Lean model; three-way comparison. "
                       "TL1: codec.x1 (read TL1, re-write bare+boxed) on type-directed valid encodings, truncations, low-bit mutations. "
                       "TL2: codec.x2 (read TL1, write TL2 + TL1 boxed) on type-directed values incl. strings of 65774..65793 bytes; codec.r2 (read TL2, "
                       "re-write TL2 + TL1 boxed) on the TL2 bytes generated code wrote, their byte mutations and truncations, Gen2 encodings in "
                       "non-minimal forms; lines on which the interpreter would allocate > 4096 elements not backed by input are left to two fixed probes. "
                       "distinct = distinct line text; a disagreement of the two implementations is a violation unless checks/otf_model.py reproduces "
                       "both answers exactly (then it is the known findings named by the deviation switches that matter for the line)")
    c.extra["explanation"] = "three-way differential run"
