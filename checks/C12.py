"""C12 — generated code agrees with the dynamic interpreter internal/pure/onthefly (DESIGN.md §4 C12): TL1 and TL2."""
from checks import codec_common as cc, codec_tl2 as t2
from vlib.core import hx

LEVEL = "translation_validation"
# known finding: onthefly readers have no element-count sanity check (generated code: CheckLengthSanity), identified by call site
# known finding: for duplicate dictionary keys generated code (Go map) keeps the LAST value, the interpreter keeps the FIRST
DUP_KEY = "onthefly:dict-duplicate-key-keeps-first:t_dict_value.go"
OTF_KEY = "onthefly:ReadTL1-no-length-sanity:t_array_value.go/t_dict_value.go"


def tl2_phase(c, sc, model, rng, pre):
    """TL2 half of the property: for the same value (decoded from the same TL1 bytes) both write identical TL2 bytes; both accept
    the same TL2 byte strings and agree on what they decoded (observed through the re-written TL2 and TL1)."""
    per = 8 if c.thorough else 3
    g1 = cc.Gen1(sc, rng.fork(), big=True, huge=25 if c.thorough else 60)
    # union constructors are not values of their own in the interpreter (its union value owns the variants; a constructor struct
    # created on its own has no variant index on the wire), so they are compared through their unions only
    items = [(inst, it) for inst, it in t2.tl2_items(sc) if it[3] and not inst.get("isUnionElement")]
    x2 = []
    for inst, it in items:
        for boxed in (0, 1):
            if inst["kind"] == "union" and not boxed:
                continue
            for _ in range(per):
                x2.append(t2.x2_line(sc, inst, boxed, g1.value(inst["idx"], not boxed, [], 0)))
    rg = c.tie("gen-vs-model-tl2w:" + sc.sid, x2, sc.impl, model, prefix=pre)
    ro = c.tie("otf-vs-model-tl2w:" + sc.sid, x2, sc.otf, model, prefix=pre)
    r2 = set()
    by_idx = {inst["idx"]: inst for inst, _ in items}
    for (l, a, _), (_, b, _) in zip(rg, ro):
        if a != b:
            c.oracle_fail(l, "generated code and dynamic interpreter write different TL2 (or TL1) bytes for the same value: "
                             "generated %s, interpreter %s" % (a[:100], b[:100]), l)
        for o in (a, b):
            if o.startswith("ok "):
                w2 = dict(p.split("=", 1) for p in o.split(" ") if "=" in p).get("w2")
                if w2 and w2 not in ("panic", "werr") and not w2.startswith("!"):
                    inst = by_idx[int(l.split(" ")[2])]
                    bts = t2.unhex(w2)
                    r2.add(t2.r2_line(sc, inst, bts))
                    if len(bts) < 4096:
                        r2.add(t2.r2_line(sc, inst, t2.mutate2(rng, bts)))
                        r2.add(t2.r2_line(sc, inst, bts[:rng.below(len(bts) + 1)]))
    g2 = t2.Gen2(sc, rng.fork(), big=c.thorough, huge=40 if c.thorough else 0)
    for inst, it in items:
        for _ in range(per):
            v = g2.value(inst["idx"])
            r2.add(t2.r2_line(sc, inst, g2.top(inst, v, t2.Style(rng.fork(), p=rng.choice([3, 6])) if rng.chance(1, 2) else None)))
    r2 = sorted(r2)
    rg = c.tie("gen-vs-model-tl2r:" + sc.sid, r2, sc.impl, model, prefix=pre)
    ro = c.tie("otf-vs-model-tl2r:" + sc.sid, r2, sc.otf, model, prefix=pre)
    for (l, a, _), (_, b, _) in zip(rg, ro):
        if a != b:
            c.oracle_fail(l, "generated code and dynamic interpreter disagree on a TL2 byte string: generated %s, interpreter %s"
                          % (a[:100], b[:100]), l)


def run(c):
    model, hcodec, schemas = cc.prepare(c, [s for s in cc.corpus(c) if s.sid in ("cases", "gold")])
    rng = c.rng
    c.impl_timeout = 300
    for sc in schemas:
        # valid encodings, truncations and small mutations; count inflation only through a handful of fixed probes (each costs the interpreter GBs)
        g = cc.Gen1(sc, rng.fork(), big=c.thorough)
        lines = []
        for inst, it in sc.items:
            for boxed in (0, 1):
                if inst["kind"] == "union" and not boxed:
                    continue
                for _ in range(20 if c.thorough else 6):
                    b = g.value(inst["idx"], not boxed, [], 0)
                    lines.append("codec.x1 %s %d %s %d %s" % (sc.sid, inst["idx"], inst["tlname"], boxed, hx(b + (rng.bytes(rng.below(4)) if rng.chance(1, 3) else b""))))
                    lines.append("codec.x1 %s %d %s %d %s" % (sc.sid, inst["idx"], inst["tlname"], boxed, hx(b[:rng.below(len(b) + 1)])))
                    if len(b) >= 4:
                        m = bytearray(b)
                        i = 4 * rng.below(len(m) // 4)       # least significant byte of a word
                        m[i] ^= 1 << rng.below(3)          # low bits only: keeps counts small
                        lines.append("codec.x1 %s %d %s %d %s" % (sc.sid, inst["idx"], inst["tlname"], boxed, hx(bytes(m))))
        probes = []
        for inst, it in sc.items:
            if c.thorough and "array" in cc.reach_kinds(sc, inst["idx"]) and inst["kind"] == "struct" and len(probes) < 1:
                probes.append("codec.x1 %s %d %s 0 %s" % (sc.sid, inst["idx"], inst["tlname"], "ffffff7f" * 3))
        pre = [sc.desc_line()]
        res_gen = c.tie("gen-vs-model:" + sc.sid, lines + probes, sc.impl, model, prefix=pre)
        res_otf = c.tie("otf-vs-model:" + sc.sid, lines + probes, sc.otf, model, prefix=pre)
        dup_lines = set()
        otf_lines = set()
        suspects = []
        for (l, a, _), (_, b, _) in zip(res_gen, res_otf):
            if a != b:
                if a == "err eof" and b in ("CRASH", "TIMEOUT"):
                    # generated code (and the model) reject with EOF — the element-count sanity check — while the interpreter
                    # dies allocating: exactly the missing sanity check of the known finding
                    c.oracle_failures.append({"key": OTF_KEY, "what": "otf", "input": l})
                    otf_lines.add(l)
                    continue
                pa, pb = a.split(" "), b.split(" ")
                if "dict" in cc.reach_kinds(sc, int(l.split(" ")[2])) and a.startswith("ok ") and b.startswith("ok ") and pa[1] == pb[1]:
                    suspects.append((l, a, b))
                    continue
                c.oracle_fail(l, "generated code and dynamic interpreter disagree: generated %s, interpreter %s" % (a[:100], b[:100]), l)
        # a dictionary disagreement is the known duplicate-key finding iff both implementations agree on the canonical
        # (sorted, de-duplicated) re-encoding that the generated code produced for the same input
        canon = []
        for l, a, b in suspects:
            f = l.split(" ")
            w = cc.outputs(a).get("w1b")
            canon.append("codec.x1 %s %s %s 1 %s" % (f[1], f[2], f[3], w))
        cg = c.tie("gen-canon:" + sc.sid, canon, sc.impl, model, prefix=pre)
        co = c.tie("otf-canon:" + sc.sid, canon, sc.otf, model, prefix=pre)
        for (l, a, b), (_, x, _), (_, y, _) in zip(suspects, cg, co):
            if x == y and x.startswith("ok "):
                c.oracle_failures.append({"key": DUP_KEY, "what": "dup", "input": l})
                dup_lines.add(l)
            else:
                c.oracle_fail(l, "generated code and dynamic interpreter disagree on a dictionary type: generated %s, interpreter %s" % (a[:100], b[:100]), l)
        # tie failures of the interpreter on the probes are explained by the known finding
        for t in c.tie_failures:
            if (t["line"] in otf_lines or t["line"] in dup_lines) and t["tie"].startswith("otf-vs-model"):
                t["explained"] = True
        if sc.tl2:
            tl2_phase(c, sc, model, rng, pre)
    c.extra["rule"] = "same TL1 case lines served by generated code, by onthefly.CreateValue(instance) and by the Lean model; three-way comparison"
    c.extra["explanation"] = "three-way differential run"
