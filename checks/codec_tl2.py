"""TL2 aspect of the codec family (C03, C04, C13): type-directed generator of TL2 values and encodings
(minimal = what the generated Go writer emits; re-encoded = admissible non-minimal forms of the same value),
helpers shared by the three checks."""
import os

from checks import codec_common as cc
from vlib.core import ROOT, hx, run_lines

DATA = os.path.join(ROOT, "checks", "data")

F32 = [0, 0x3F800000, 0xBF800000, 0x7FC00000, 0x7F800000, 0xFF800000, 0x40490FDB, 1, 0x00800000]
F64 = [0, 0x3FF0000000000000, 0xBFF0000000000000, 0x7FF8000000000000, 0x7FF0000000000000, 0xFFF0000000000000, 1]
STR_LENS = [0, 0, 1, 2, 3, 4, 5, 7, 8, 11, 16, 31]


def varlen(n):
    if n < 254:
        return bytes([n])
    if n < 254 + 65536:
        return b"\xfe" + (n - 254).to_bytes(2, "little")
    return b"\xff" + n.to_bytes(8, "little")


class Style:
    """Chooser of admissible non-minimal forms. `p` = one in p decisions takes the non-minimal branch."""

    def __init__(self, rng, p=3, kinds=None):
        self.rng = rng
        self.p = p
        self.kinds = kinds  # None = all; else set of names
        self.used = set()

    def on(self, kind):
        if self.kinds is not None and kind not in self.kinds:
            return False
        if self.rng.chance(1, self.p):
            self.used.add(kind)
            return True
        return False


KINDS = ["huge-size", "explicit-zero", "explicit-empty-object", "padded-mask", "unknown-tail", "omitted-present", "true-present",
         "bool-nonminimal", "dict-order", "tuple-short", "tuple-long", "array-tail", "bit-padding", "explicit-index0"]


class Gen2:
    """Values are trees: ('p', x) primitive, ('s', [field values | None | True]) struct, ('u', idx, struct) union,
    ('a', [elems]) array/dict (dict elems are ('s',[k,v]) with distinct keys)."""

    def __init__(self, sc, rng, maxdepth=4, big=False, negzero=False, huge=0):
        self.huge = huge
        self.I = sc.desc["instances"]
        self.rng = rng
        self.maxdepth = maxdepth
        self.big = big
        self.negzero = negzero

    # ------------------------------------------------------------ values
    def prim(self, i):
        r = self.rng
        p = i["prim"]
        if p == "uint32" or p == "int32":
            return r.choice([0, 0, 1, 2, 0xFFFFFFFF, 0x80000000, r.below(2 ** 32), r.below(100)])
        if p == "float32":
            return r.choice(F32 + [0x80000000, r.below(2 ** 32)])        # -0.0 is an ordinary value (`negzero` is kept for callers)
        if p in ("uint64", "int64"):
            return r.choice([0, 0, 1, 2 ** 64 - 1, 2 ** 63, r.below(2 ** 64), r.below(1000)])
        if p == "float64":
            return r.choice(F64 + [2 ** 63, r.below(2 ** 64)])
        if p == "string":
            if self.huge and r.chance(1, self.huge):
                n = r.choice(cc.HUGE_LENS)
            elif self.big and r.chance(1, 30):
                n = r.choice([253, 254, 255, 256, 300, 70000])
            else:
                n = r.choice(STR_LENS)
            return bytes(r.below(256) for _ in range(n)) if r.chance(1, 4) else bytes(r.range(97, 122) for _ in range(n))
        if p == "bool" or p == "bit":
            return r.chance(1, 2)
        if p == "byte":
            return r.choice([0, 1, 255, r.below(256)])
        raise ValueError(p)

    def is_true(self, ty):
        i = self.I[ty]
        return i["kind"] == "struct" and not (i.get("fields") or [])

    def value(self, ty, depth=0):
        i = self.I[ty]
        k = i["kind"]
        r = self.rng
        if k == "prim":
            return ("p", self.prim(i))
        if k == "struct":
            fs = []
            if (i.get("isAlias") or i.get("isUnwrap")) and not i.get("isUnionElement"):
                return ("s", [self.value(i["fields"][0]["ty"], depth + 1)])
            for f in i.get("fields") or []:
                opt = f.get("tl2bit") is not None
                if f["name"].startswith("_"):
                    fs.append(None)
                elif f.get("isBit"):
                    fs.append(True if r.chance(1, 2) else None)
                elif opt:
                    fs.append(self.value(f["ty"], depth + 1) if depth < self.maxdepth and r.chance(1, 2) else None)
                else:
                    fs.append(self.value(f["ty"], depth + 1))
            return ("s", fs)
        if k == "union":
            n = len(i["variants"])
            vi = r.below(n) if depth < self.maxdepth else 0
            return ("u", vi, self.value(i["variants"][vi], depth + 1))
        if k == "array":
            if i.get("isTuple") and not i.get("dynamicSize"):
                n = i.get("count", 0)
            else:
                n = 0 if depth >= self.maxdepth else r.choice([0, 0, 1, 1, 2, 3, 5, 9, 17] if self.I[i["elem"]["ty"]]["kind"] == "prim" else [0, 0, 1, 1, 2, 3])
            return ("a", [self.value(i["elem"]["ty"], depth + 1) for _ in range(n)])
        if k == "dict":
            n = 0 if depth >= self.maxdepth else r.choice([0, 0, 1, 2, 3])
            es, seen = [], set()
            for _ in range(n):
                e = self.value(i["elem"]["ty"], depth + 1)
                key = repr(e[1][0])
                if key not in seen:
                    seen.add(key)
                    es.append(e)
            es.sort(key=lambda e: self.dict_key(i, e))
            return ("a", es)
        raise ValueError(k)

    def dict_key(self, i, e):
        kv = e[1][0]
        while kv[0] == "s":
            kv = kv[1][0]
        x = kv[1]
        kt = self.I[i["elem"]["ty"]]["fields"][0]["ty"]
        while self.I[kt]["kind"] == "struct":
            kt = self.I[kt]["fields"][0]["ty"]
        p = self.I[kt]["prim"]
        if p == "int32" and x >= 2 ** 31:
            return x - 2 ** 32
        if p == "int64" and x >= 2 ** 63:
            return x - 2 ** 64
        return x

    # ------------------------------------------------------------ encoding
    def size(self, n, st):
        if st and st.on("huge-size"):
            return b"\xff" + n.to_bytes(8, "little")
        return varlen(n)

    def prim_bytes(self, p, x, st):
        if p in ("uint32", "int32", "float32"):
            return x.to_bytes(4, "little")
        if p in ("uint64", "int64", "float64"):
            return x.to_bytes(8, "little")
        if p == "byte":
            return bytes([x])
        if p == "string":
            return self.size(len(x), st) + x
        if p == "bool":
            if x and st and st.on("bool-nonminimal"):
                return bytes([st.rng.range(2, 255)])
            return b"\x01" if x else b"\x00"
        if p == "bit":
            return b""
        raise ValueError(p)

    def prim_empty(self, p, x):
        # floats are raw bit patterns: empty iff the pattern is zero (the generated writer tests `(x != 0 || 1/x < 0)`), so -0.0
        # (0x80000000 / 2**63) is written out like any other value
        if p == "string":
            return len(x) == 0
        return not x

    def obj(self, body, zie, st):
        if not body:
            if st and st.on("explicit-empty-object"):
                return self.size(1, st) + b"\x00"
            return None if zie else b"\x00"
        return self.size(len(body), st) + body

    def body(self, ui, rs, st, nfields):
        """rs: per-field bytes or None. Mirrors InternalWriteTL2: mask byte before field i when (i+1)%8==0, truncated to last used byte."""
        # the variant index is size-encoded too: its huge form is an admissible non-minimal encoding
        blocks = [[1 if ui else 0, self.size(ui, st) if ui else b""]]
        for i, r in enumerate(rs):
            if (i + 1) % 8 == 0:
                blocks.append([0, b""])
            if r is not None:
                blocks[-1][0] |= 1 << ((i + 1) % 8)
                blocks[-1][1] += r
        if ui == 0 and st and st.on("explicit-index0"):
            blocks[0][0] |= 1
            blocks[0][1] = self.size(0, st) + blocks[0][1]
        keep_all = st is not None and st.on("padded-mask")
        tail = b""
        if st and st.on("unknown-tail"):
            keep_all = True
            # bits of fields this schema version does not know, then their bytes
            free = [b for b in range(8) if ((len(blocks) - 1) * 8 + b - 1) >= nfields and not (len(blocks) == 1 and b == 0)]
            for b in free:
                if st.rng.chance(1, 2):
                    blocks[-1][0] |= 1 << b
            tail = st.rng.bytes(st.rng.range(1, 6))
        if not keep_all:
            while blocks and blocks[-1][0] == 0:
                blocks.pop()
        return b"".join(bytes([m]) + c for m, c in blocks) + tail

    def enc(self, ty, v, zie, st=None):
        """bytes, or None when nothing is written (presence bit stays clear)"""
        i = self.I[ty]
        k = i["kind"]
        if k == "prim":
            p = i["prim"]
            if zie and self.prim_empty(p, v[1]):
                if st and p != "bit" and st.on("explicit-zero"):
                    return self.prim_bytes(p, v[1], st)
                return None
            return self.prim_bytes(p, v[1], st)
        if k == "struct":
            fields = i.get("fields") or []
            if (i.get("isAlias") or i.get("isUnwrap")) and not i.get("isUnionElement"):
                return self.enc(fields[0]["ty"], v[1][0], zie, st)
            rs = []
            for f, x in zip(fields, v[1]):
                if f["name"].startswith("_"):
                    if st and st.on("omitted-present"):
                        rs.append(self.enc(f["ty"], self.value(f["ty"], self.maxdepth), False, st))
                    else:
                        rs.append(None)
                elif f.get("tl2bit") is not None:
                    if x is None:
                        rs.append(None)
                    elif f.get("isBit"):
                        rs.append(b"")
                    else:
                        rs.append(self.enc(f["ty"], x, False, st))
                elif self.is_true(f["ty"]) and not self.I[f["ty"]].get("isUnionElement"):
                    rs.append((self.size(0, st) if st.rng.chance(1, 2) else self.size(1, st) + b"\x00") if st and st.on("true-present") else None)
                else:
                    rs.append(self.enc(f["ty"], x, True, st))
            ui = i.get("unionIndex", 0) if i.get("isUnionElement") else 0
            return self.obj(self.body(ui, rs, st, len(fields)), zie, st)
        if k == "union":
            return self.enc(i["variants"][v[1]], v[2], zie, st)
        if k in ("array", "dict"):
            es = list(v[1])
            e = i["elem"]
            fixed = k == "array" and i.get("isTuple") and not i.get("dynamicSize")
            if not es:
                if st and st.on("explicit-zero"):
                    return self.size(1, st) + b"\x00"     # body = count 0
                return None if zie else b"\x00"
            extra = b""
            if fixed and st:
                if st.on("tuple-short"):
                    while es and self.enc(e["ty"], es[-1], True, None) is None and not self.is_true(e["ty"]):
                        es.pop()
                elif st.on("tuple-long") and not (self.I[e["ty"]]["kind"] == "prim" and self.I[e["ty"]]["prim"] == "bit"):
                    # one element more than this schema version knows
                    extra = self.enc(e["ty"], self.value(e["ty"], self.maxdepth), False, st)
            if k == "dict" and st and st.on("dict-order"):
                st.rng.shuffle(es)
            is_bit = self.I[e["ty"]]["kind"] == "prim" and self.I[e["ty"]]["prim"] == "bit"
            n = len(es)
            if is_bit:
                c = bytearray((n + 7) // 8)
                for j, x in enumerate(es):
                    if x[1]:
                        c[j // 8] |= 1 << (j % 8)
                if n % 8 and st and st.on("bit-padding"):
                    c[-1] |= (0xFF << (n % 8)) & 0xFF
                c = bytes(c)
            else:
                c = b"".join(self.enc(e["ty"], x, False, st) for x in es)
            if extra:
                n += 1
                c += extra
            if st and st.on("array-tail") and not (fixed and n < i.get("count", 0)):
                c += st.rng.bytes(st.rng.range(1, 4))
            body = self.size(n, st) + c
            return self.size(len(body), st) + body
        raise ValueError(k)

    def top(self, inst, v, st=None):
        b = self.enc(inst["idx"], v, False, st)
        return b if b is not None else b""


def is_enum_element(sc, inst):
    if inst["kind"] != "struct" or not inst.get("isUnionElement"):
        return False
    for u in sc.desc["instances"]:
        if u["kind"] == "union" and u.get("isEnum") and inst["idx"] in u["variants"]:
            return True
    return False


def tl2_items(sc):
    """factory items with TL2 code that are worth driving (enum constructors are served by a generic no-op object)"""
    return [(inst, it) for inst, it in sc.items if it[4] and inst["hasTL2"]]


def mutate2(rng, b):
    """one malformed variant of a TL2 encoding (byte granularity)"""
    if not b:
        return bytes([rng.below(256)])
    k = rng.below(9)
    m = bytearray(b)
    if k == 0:
        return bytes(m[:rng.below(len(m))])
    if k == 1:
        m[rng.below(len(m))] ^= 1 << rng.below(8)
    elif k == 2:
        m[rng.below(len(m))] = rng.below(256)
    elif k == 3:
        m[rng.below(len(m))] = rng.choice([0, 1, 0xFE, 0xFF, 0x7F, 0x80, 253])
    elif k == 4:
        m += rng.bytes(rng.range(1, 8))
    elif k == 5:
        i = rng.below(len(m))
        del m[i:i + rng.range(1, 4)]
    elif k == 6:
        i = rng.below(len(m) + 1)
        m[i:i] = rng.bytes(rng.range(1, 4))
    elif k == 7:
        i = rng.below(len(m))
        m[i] = (m[i] + rng.choice([1, 255, 2, 8])) & 0xFF      # size / count / mask off by a little
    else:
        i = rng.below(len(m))
        m[i:i + 1] = b"\xff" + rng.choice([0, 1, 2 ** 63 - 1, 2 ** 63, 2 ** 64 - 1, len(m), rng.below(2 ** 16)]).to_bytes(8, "little")
    return bytes(m)


def r2_line(sc, inst, b):
    return "codec.r2 %s %d %s %s" % (sc.sid, inst["idx"], inst["tlname"], hx(b))


def x2_line(sc, inst, boxed, b):
    return "codec.x2 %s %d %s %d %s" % (sc.sid, inst["idx"], inst["tlname"], boxed, hx(b))


def unhex(s):
    return b"" if s == "-" else bytes.fromhex(s)


def impl_only(sc, lines, cmd=None):
    """run lines on the implementation alone (value transport by FillRandom, oracle-only observables).
    A fatal crash of the process (e.g. a FillRandom that exhausts memory) loses the rest of its chunk: those lines are
    retried one process each with a short timeout, so that only the crashing line itself stays `CRASH`."""
    cmd = cmd or sc.impl
    pre = [sc.desc_line()]
    out = run_lines(cmd, lines, prefix=pre, timeout=45)      # a runaway FillRandom (goldmaster cycleTuple) runs for minutes
    bad = [i for i, a in enumerate(out) if a == "CRASH"]
    for i in bad[:400]:
        try:
            out[i] = run_lines(cmd, [lines[i]], prefix=pre, jobs=1, timeout=4)[0]
        except Exception:
            out[i] = "CRASH"
    return out


def corpus(c):
    T = cc.TLS
    s = [cc.Schema("cases", [T + "/cases.tl"], tl2="*", sanity=True, bytes_wl="cases_bytes."),
         cc.Schema("cases2", [T + "/cases.tl2"], tl2="*", sanity=True),
         cc.Schema("extra2", [DATA + "/tl2extra.tl2"], tl2="*", sanity=True)]
    if c.thorough:
        s += [cc.Schema("gold", [T + "/goldmaster.tl", T + "/goldmaster2.tl", T + "/goldmaster3.tl"], tl2="*", sanity=True, split=True),
              cc.Schema("casesns", [T + "/cases.tl"], tl2="cases.,casesTL2.", sanity=False)]
    return s


def prepare(c, schemas=None):
    """build everything once per check: model, hcodec, tl2gen, per-schema descriptor + generated driver"""
    model = c.model_exe()
    hcodec = c.harness("hcodec")
    tl2gen = cc.build_tl2gen(c)
    out = []
    for sc in (schemas if schemas is not None else corpus(c)):
        d, err = cc.export_desc(c, hcodec, sc)
        if d is None:
            c.proof_failures.append({"stage": "descriptor export", "schema": sc.sid, "detail": err})
            continue
        ok, msg = cc.generate(c, tl2gen, sc)
        if not ok:
            c.proof_failures.append({"stage": "generate", "schema": sc.sid, "detail": msg})
            continue
        sc.items = cc.link_items(sc)
        out.append(sc)
    c.extra["programs"] = len(out)
    c.extra["schemas"] = [{"sid": s.sid, "files": [os.path.basename(f) for f in s.files], "tl2": s.tl2,
                           "instances": len(s.desc["instances"]), "tl2_items": len(tl2_items(s))} for s in out]
    c.trusted += ["hcodec descriptor export (pure.Kernel accessors)", "generic driver go/hgen over generated meta/factory",
                  "modelled not verified: Go slices/maps/append, encoding/binary; the tie is differential"]
    return model, out
