"""C03 — TL2 binary round trip of generated Go code (DESIGN.md §4 C03)."""
from checks import codec_common as cc, codec_tl2 as t2
from vlib.core import hx, run_lines

MODULES = ["TLVerif.Props.C03"]
THEOREMS = ["TLVerif.Props.C03." + t for t in [
    "layout_agrees_write", "write_never_panics", "write_total", "body_roundtrip", "tl2_roundtrip_prim",
    "tl2_roundtrip", "tl2_rewrite_identical", "bit_alias_roundtrip_fails", "roundtrip_all_fails"]]

# witness inputs of the known finding (bit behind an alias / inside Maybe): what the reader accepts is re-written to bytes it rejects
BIT_WITNESS = [("y.flag", "01"), ("y.useFlag", "06060100000001"), ("y.maybeBit", "050203030101")]


# []byte variants: a dictionary read by ReadTL2 loses its contents (elements are read into copies)
BYTES_WITNESS = ("cases_bytes.testDictInt", "0d020b0109060100000002000000")
BYTES_KEY = "codec.r2 cases 84 cases_bytes.testDictInt 0d020b0109060100000002000000 #bytes"


def cc_reach(sc, ty, seen=None):
    """instance kinds reachable from ty"""
    seen = seen if seen is not None else set()
    if ty in seen:
        return set()
    seen.add(ty)
    i = sc.desc["instances"][ty]
    res = {i["kind"]}
    for f in i.get("fields") or []:
        res |= cc_reach(sc, f["ty"], seen)
    if i.get("elem"):
        res |= cc_reach(sc, i["elem"]["ty"], seen)
    for v in i.get("variants") or []:
        res |= cc_reach(sc, v, seen)
    return res


def bit_schema():
    return cc.Schema("bit", [t2.DATA + "/tl2bit.tl2"], tl2="*", sanity=True)


def run(c):
    c.lean(MODULES, THEOREMS, sources=["TLVerif.Codec.TL2", "TLVerif.Codec.TL2Lemmas", "TLVerif.Codec.TL2RoundTrip"])
    model, schemas = t2.prepare(c, t2.corpus(c) + [bit_schema()])
    rng = c.rng
    per = 12 if c.thorough else 5
    replay = set()
    if c.replay:
        for f in c.replay.get("failures", []):
            if f.get("input"):
                replay.add(f["input"])
        for t in c.replay.get("broken_ties", []):
            replay.add(t["line"])
    fillpanics = set()
    for sc in schemas:
        pre = [sc.desc_line()]
        by_name = {inst["tlname"]: inst for inst, _ in sc.items}
        produced = {}
        lines1, lines2 = [], set(l for l in replay if l.split(" ")[1] == sc.sid and l.startswith("codec.r2 "))
        lines1 += [l for l in replay if l.split(" ")[1] == sc.sid and l.startswith("codec.x2 ")]
        items = [(i, it) for i, it in t2.tl2_items(sc)]
        if sc.sid == "bit":
            for n, h in BIT_WITNESS:
                lines2.add("codec.r2 bit %d %s %s" % (by_name[n]["idx"], n, h))
        else:
            # (A) values decoded from valid TL1 bytes (TL1-origin types), bare and boxed, plus FillRandom through TL1
            g1 = cc.Gen1(sc, rng.fork(), big=c.thorough, huge=20 if c.thorough else 40)
            rnd = []
            for inst, it in items:
                if not it[3]:
                    continue
                for boxed in (0, 1):
                    if inst["kind"] == "union" and not boxed:
                        continue
                    for _ in range(per):
                        lines1.append(t2.x2_line(sc, inst, boxed, g1.value(inst["idx"], not boxed, [], 0)))
                for _ in range(per):
                    rnd.append(("codec.rand %s %d %s %d" % (sc.sid, inst["idx"], inst["tlname"], rng.below(2 ** 32)), inst))
            for (l, inst), a in zip(rnd, t2.impl_only(sc, [l for l, _ in rnd])):
                if a.startswith("ok ") and a != "ok werr":
                    lines1.append(t2.x2_line(sc, inst, 1, t2.unhex(a[3:])))
                    c.count("codec.rand:ok")
            # (B) FillRandom written straight to TL2 (all TL2 types, incl. TL2-origin)
            rnd = [("codec.rand2 %s %d %s %d" % (sc.sid, inst["idx"], inst["tlname"], rng.below(2 ** 32)), inst)
                   for inst, it in items for _ in range(per)]
            for (l, inst), a in zip(rnd, t2.impl_only(sc, [l for l, _ in rnd])):
                if a == "panic":
                    c.oracle_fail(l, "WriteTL2 of a FillRandom value panics", l)
                elif a.startswith("ok "):
                    produced[t2.r2_line(sc, inst, t2.unhex(a[3:]))] = l      # bytes written by WriteTL2: must read back exactly (phase D)
                    c.count("codec.rand2:ok")
                elif a == "fillpanic":
                    c.count("codec.rand2:fillpanic")     # FillRandom itself panicked (no value obtained): C18's concern
                    fillpanics.add(inst["tlname"])
            # (C) values read from arbitrary TL2 bytes: type-directed encodings (minimal / re-encoded), mutations, random bytes
            g2 = t2.Gen2(sc, rng.fork(), big=c.thorough, negzero=True, huge=20 if c.thorough else 40)
            for inst, it in items:
                if t2.is_enum_element(sc, inst):
                    continue
                for _ in range(per):
                    v = g2.value(inst["idx"])
                    b = g2.top(inst, v, t2.Style(rng.fork(), p=rng.choice([3, 6])) if rng.chance(1, 2) else None)
                    lines2.add(t2.r2_line(sc, inst, b))
                    for _ in range(2):
                        lines2.add(t2.r2_line(sc, inst, t2.mutate2(rng, b)))
                lines2.add(t2.r2_line(sc, inst, rng.bytes(rng.below(24))))
        res = c.tie("tl1-to-tl2:" + sc.sid, lines1, sc.impl, model, prefix=pre) if lines1 else []
        again = dict(produced)
        tl1_of = {}      # r2 line -> [(source line, TL1 boxed form of the value that was written)]: the value must come back, not only the bytes

        def note(l, w2, w1b=None):
            f = l.split(" ")
            if w2 in ("panic", "werr") or w2.startswith("!"):
                c.oracle_fail(l, "WriteTL2 fails (%s) on a value obtained through the generated API" % w2, l)
            else:
                k = "codec.r2 %s %s %s %s" % (f[1], f[2], f[3], w2)
                again.setdefault(k, l)
                if w1b is not None:
                    tl1_of.setdefault(k, []).append((l, w1b))

        for l, a, _ in res:
            if a == "panic":
                c.oracle_fail(l, "generated code panics", l)
            elif a.startswith("ok "):
                note(l, cc_out(a).get("w2", "?"), cc_out(a).get("w1b"))
        res = c.tie("tl2-read:" + sc.sid, sorted(lines2), sc.impl, model, prefix=pre)
        for l, a, _ in res:
            if a == "panic":
                c.oracle_fail(l, "generated code panics", l)
            elif a.startswith("ok "):
                note(l, cc_out(a).get("w2", "?"), cc_out(a).get("w1b"))
        # (D) the property itself: what the implementation wrote reads back exactly and re-encodes identically
        l3 = sorted(again)
        res = c.tie("tl2-roundtrip:" + sc.sid, l3, sc.impl, model, prefix=pre)
        for l, a, _ in res:
            w2 = l.split(" ")[4]
            n = 0 if w2 == "-" else len(w2) // 2
            if not a.startswith("ok %d w2=%s " % (n, w2)):
                c.oracle_fail(l, "TL2 round trip fails: bytes written by WriteTL2 do not read back exactly / re-encode identically "
                                 "(got `%s`; written for input `%s`)" % (a[:100], again[l][:160]), l)
            else:
                # same bytes is not enough: the VALUE read back must be the one that was written (observable for TL1-origin types
                # through its TL1 encoding; e.g. a float -0.0 silently left out by the writer comes back as +0.0 with identical TL2 bytes)
                back = cc_out(a).get("w1b")
                for src, w1b in tl1_of.get(l, []):
                    if w1b != back:
                        c.oracle_fail(l, "TL2 round trip changes the value: TL1 form %s of the value written (input `%s`) reads back as %s"
                                      % (w1b[:80], src[:160], str(back)[:80]), l)
                        break
        # (E) []byte variants of the generated code (--generateByteVersions): not modelled (slice-backed dictionaries keep
        # insertion order), so implementation only: FillRandom -> WriteTL2 -> ReadTL2 (fresh object) -> WriteTL2 must be identical
        if sc.bytes_wl:
            bimpl = sc.impl + ["-bytes"]
            bitems = [(i, it) for i, it in items if any(i["tlname"].startswith(p) for p in sc.bytes_wl.split(","))]
            rnd = [("codec.rand2 %s %d %s %d" % (sc.sid, inst["idx"], inst["tlname"], rng.below(2 ** 32)), inst)
                   for inst, it in bitems for _ in range(per * 2)]
            wit = by_name.get(BYTES_WITNESS[0])
            bl = {}
            if wit is not None:
                bl["codec.r2 %s %d %s %s" % (sc.sid, wit["idx"], wit["tlname"], BYTES_WITNESS[1])] = (wit, BYTES_WITNESS[1], True)
            for (l, inst), a in zip(rnd, run_lines(bimpl, [l for l, _ in rnd], prefix=pre)):
                if a.startswith("ok "):
                    bl.setdefault("codec.r2 %s %d %s %s" % (sc.sid, inst["idx"], inst["tlname"], a[3:]), (inst, a[3:], False))
            bls = sorted(bl)
            for l, a in zip(bls, run_lines(bimpl, bls, prefix=pre)):
                inst, w2, is_wit = bl[l]
                c.evaluations += 1
                c.count("bytes:" + a.split(" ")[0])
                n = 0 if w2 == "-" else len(w2) // 2
                if not a.startswith("ok %d w2=%s " % (n, w2)):
                    has_dict = "dict" in cc_reach(sc, inst["idx"])
                    key = (BYTES_KEY if (has_dict and sc.sid == "cases") else l + " #bytes")
                    c.oracle_fail(key, "[]byte variant: TL2 round trip fails (%s): read back and re-written as `%s`" % (
                        "dictionary contents lost" if has_dict else "unexpected", a[:80]), l + " #bytes")
    if fillpanics:
        c.notes.append("FillRandom itself panics for %s (no value obtained; not counted against C03)" % ", ".join(sorted(fillpanics)))
    c.extra["rule"] = ("(A) valid type-directed TL1 encodings and FillRandom values of every TL1-origin TL2-enabled factory item are decoded and written in TL2; "
                       "(B) FillRandom values written in TL2; (C) type-directed TL2 encodings (minimal and admissibly re-encoded), 2 mutations each, random bytes; "
                       "(D) every TL2 encoding the implementation produced in A–C is read back and re-written (round-trip oracle: exact consumed length, identical bytes, "
                       "and for TL1-origin types the same value as observed through its TL1 encoding). distinct = distinct case line")
    c.assumptions += ["schemas: repository corpus (cases.tl with --tl2WhiteList=*, cases.tl2; thorough: goldmaster*.tl, cases.tl with a namespace whitelist) "
                      "plus checks/data/tl2extra.tl2 (TL2-only constructs) and checks/data/tl2bit.tl2 (known finding); per-schema certificates are "
                      "'for every schema explored in this run'",
                      "[]bit / [N]bit and Maybe inside arrays are modelled but cannot be tied: tl2gen's Go output for them does not compile"]


def cc_out(a):
    return dict(p.split("=", 1) for p in a.split(" ")[1:] if "=" in p)
