"""Function-result aspect of the codec family (C07): corpus, request generator (the `#` fields that shape the result are kept
small and their values are returned), result generators (TL1 type-directed, TL2 wrapper in non-minimal forms), line builders."""
import os

from checks import codec_common as cc
from checks import codec_json as cj
from checks import codec_tl2 as t2
from vlib.core import ROOT, hx, run_lines

T = cc.TLS
DATA = os.path.join(ROOT, "checks", "data")
FMTS = ("tl1", "tl2", "json")


def corpus(c):
    s = [cc.Schema("cases", [T + "/cases.tl"], tl2="*", sanity=True),
         cc.Schema("rf", [DATA + "/resultfn.tl"], tl2="*", sanity=True),
         cc.Schema("rfns", [DATA + "/resultfn.tl"], tl2="", sanity=False),
         cc.Schema("cases2", [T + "/cases.tl2"], tl2="*", sanity=True),
         cc.Schema("extra2", [DATA + "/tl2extra.tl2"], tl2="*", sanity=True)]
    if c.thorough:
        s += [cc.Schema("gold", [T + "/goldmaster.tl", T + "/goldmaster2.tl", T + "/goldmaster3.tl"], tl2="*", sanity=True, split=True),
              cc.Schema("goldns", [T + "/goldmaster.tl", T + "/goldmaster2.tl", T + "/goldmaster3.tl"], tl2="", sanity=True),
              cc.Schema("casesns", [T + "/cases.tl"], tl2="", sanity=False),
              cc.Schema("caseswl", [T + "/cases.tl"], tl2="cases.", sanity=True)]
    return s


def setup(c):
    """model driver, in-repo harness, tl2gen and the generated code of every schema, built concurrently"""
    from concurrent.futures import ThreadPoolExecutor
    import time
    t0 = time.time()
    with ThreadPoolExecutor(8) as ex:
        fm = ex.submit(c.model_exe)
        fh = ex.submit(c.harness, "hcodec")
        ft = ex.submit(cc.build_tl2gen, c)
        hcodec, tl2gen = fh.result(), ft.result()
        scs = corpus(c)
        oks = list(ex.map(lambda sc: cj.prepare(c, hcodec, tl2gen, sc), scs))
        model = fm.result()
    out = []
    for sc, ok in zip(scs, oks):
        if ok:
            sc.items = cc.link_items(sc)
            out.append(sc)
    c.extra["setup_s"] = round(time.time() - t0, 1)
    c.extra["programs"] = len(out)
    c.trusted += ["hcodec descriptor export (pure.Kernel accessors)", "generic driver go/hgen over generated meta/factory (typed path by reflection)",
                  "modelled not verified: Go slices/maps/append, encoding/binary, strconv float formatting/parsing, the easyjson lexer"]
    return model, out


def functions(sc):
    """descriptor instances of the functions the generated factory serves"""
    return [inst for inst, it in sc.items if inst["kind"] == "struct" and inst.get("isFunction") and it[2]]


def prefix(sc):
    al = [str(i["idx"]) for i in sc.desc["instances"] if i.get("isFunction") and i.get("isResultAlias")]
    return [sc.desc_line(), "codec.ext %s ralias %s" % (sc.sid, " ".join(al) if al else "-")]


def prefix_nosanity(sc):
    """the same descriptor registered with --checkLengthSanity=false (model only: counterfactual for the inherited finding L4)"""
    f = sc.desc_line().split(" ")
    f[2] = "0"
    return [" ".join(f)] + prefix(sc)[1:]


class ReqGen(cc.Gen1):
    """TL1 requests. `#` fields used by the result type are sizes: kept small; the field values are returned so that the
    check can compute the result's nat arguments itself."""

    SIZES = [0, 0, 1, 1, 2, 2, 3, 4, 5, 7, 8, 9]

    def request(self, fn):
        used = {a["v"] for a in (fn.get("resultNatArgs") or []) if a["k"] == "field"}
        out = self.u32(fn["tag"])
        vals = []
        r = self.rng
        for idx, f in enumerate(fn.get("fields") or []):
            present = True
            if f.get("mask"):
                present = (self.natarg(f["mask"], vals, []) >> f["bit"]) & 1 == 1
            if not present:
                vals.append(None)
                continue
            t = self.I[f["ty"]]
            na = [self.natarg(a, vals, []) for a in f["natArgs"]]
            if t["kind"] == "prim" and t["prim"] == "uint32":
                if idx in used:
                    v = r.choice(self.SIZES) if r.chance(3, 4) else r.below(16)
                    if not self.sized(fn) and r.chance(1, 3):
                        v = r.below(2 ** 32)          # the request field only feeds field masks of the result: any bits
                else:
                    v = self.nat_field_value(fn, idx, 0)
                vals.append(v)
                out += self.u32(v)
            else:
                vals.append(None)
                out += self.value(f["ty"], f["bare"], na, 1)
        na = [self.natarg(a, vals, []) for a in (fn.get("resultNatArgs") or [])]
        return out, na

    def sized(self, fn):
        """does the result type reach an array whose count is a nat parameter? (then the request's `#` fields stay small)"""
        seen, todo = set(), [fn["resultTy"]]
        while todo:
            t = todo.pop()
            if t in seen:
                continue
            seen.add(t)
            i = self.I[t]
            if i["kind"] == "array" and i.get("dynamicSize"):
                return True
            todo += [f["ty"] for f in i.get("fields") or []] + list(i.get("variants") or [])
            if i.get("elem"):
                todo.append(i["elem"]["ty"])
        return False


class ResGen(cj.GenJ):
    """TL1 result values: GenJ (JSON-relevant primitives, dictionary keys within the guard of C05's F1: valid UTF-8) whose floats leave
    the guard of L3 (NaN payloads; plus extra `-0.0`, harmless for JSON since the repair of L2) when `wild`."""

    def __init__(self, sc, rng, big=False, wild=False):
        super().__init__(sc, rng, big=big, guard=True)
        self.wild = wild

    def prim(self, i):
        if self.wild and i["prim"] in ("float32", "float64") and self.rng.chance(1, 4):
            r = self.rng
            if i["prim"] == "float32":
                return self.u32(r.choice([0x80000000, 0x80000000, 0x7FC00001, 0xFFC00000, 0x7F800001, 0xFFFFFFFF]))
            return r.choice([1 << 63, 1 << 63, 0x7FF8000000000000, 0xFFF8000000000001, 0x7FF0000000000001, 2 ** 64 - 1]).to_bytes(8, "little")
        return super().prim(i)


def _tl1_string_at(b, pos):
    """(string bytes, next position) of the TL1 string starting at pos"""
    n = b[pos]
    if n <= 253:
        start, ln = pos + 1, n
    elif n == 254:
        start, ln = pos + 4, int.from_bytes(b[pos + 1:pos + 4], "little")
    else:
        start, ln = pos + 8, int.from_bytes(b[pos + 1:pos + 8], "little")
    end = start + ln
    return b[start:end], end + (-(end - pos) % 4)


class ResGenSorted(ResGen):
    """ResGen whose dictionaries are written the way Go writes a map: keys sorted, no duplicates (only such bytes are
    encodings of result VALUES; what the readers make of other orders is C02's subject)"""

    def key_of(self, i, eb):
        e = self.I[i["elem"]["ty"]]
        pos = 0 if i["elem"]["bare"] else 4
        kf = e["fields"][0]
        t = self.I[kf["ty"]]
        while t["kind"] == "struct":
            if not kf["bare"]:
                pos += 4
            kf = t["fields"][0]
            t = self.I[kf["ty"]]
        p = t["prim"]
        if p == "string":
            return _tl1_string_at(eb, pos)[0]
        if p in ("int32", "uint32"):
            v = int.from_bytes(eb[pos:pos + 4], "little")
            return v - 2 ** 32 if p == "int32" and v >= 2 ** 31 else v
        if p in ("int64", "uint64"):
            v = int.from_bytes(eb[pos:pos + 8], "little")
            return v - 2 ** 64 if p == "int64" and v >= 2 ** 63 else v
        if p == "bool":
            return int.from_bytes(eb[pos:pos + 4], "little") == t.get("trueTag", 0)
        raise ValueError("dictionary key " + p)

    def value(self, ty, bare, params, depth):
        i = self.I[ty]
        if i["kind"] != "dict":
            return super().value(ty, bare, params, depth)
        e = i["elem"]
        na = [self.natarg(a, [], params) for a in e["natArgs"]]
        n = 0 if depth >= self.maxdepth else self.rng.choice([0, 0, 1, 1, 2, 3, 5])
        els = {}
        for _ in range(n):
            eb = self.value(e["ty"], e["bare"], na, depth + 1)
            els[self.key_of(i, eb)] = eb
        return self.u32(len(els)) + b"".join(els[k] for k in sorted(els))


class Gen2Plain(t2.Gen2):
    """Gen2 whose string dictionary keys stay inside the guard of C05's finding F1 (valid UTF-8; F2 was repaired in /repo 540af2db)"""

    def value(self, ty, depth=0):
        v = super().value(ty, depth)
        i = self.I[ty]
        if i["kind"] == "dict":
            es, seen = [], set()
            for e in v[1]:
                e = ("s", [self.plain(e[1][0])] + list(e[1][1:]))
                k = repr(e[1][0])
                if k not in seen:
                    seen.add(k)
                    es.append(e)
            es.sort(key=lambda e: self.dict_key(i, e))
            return ("a", es)
        return v

    def plain(self, kv):
        if kv[0] == "s":
            return ("s", [self.plain(kv[1][0])] + list(kv[1][1:]))
        if kv[0] == "p" and isinstance(kv[1], (bytes, bytearray)) and not cj.key_plain(bytes(kv[1])):
            return ("p", bytes(97 + (x % 26) for x in kv[1]))
        return kv


def xr_line(sc, fn, req, src, dst, payload):
    return "codec.xr %s %d %s %s %s %s %s" % (sc.sid, fn["idx"], fn["tlname"], hx(req) if req is not None else "-", src, dst, hx(payload))


def canon(a):
    """strip the transport / oracle tokens of an implementation answer"""
    return " ".join(t for t in a.split(" ") if not (t.startswith("raw=") or t.startswith("typed=")))


def parse(a):
    f = a.split(" ")
    d = {"status": f[0]}
    for p in f[1:]:
        if "=" in p:
            k, v = p.split("=", 1)
            d[k] = v
    return d


def unhex(s):
    return b"" if s == "-" else bytes.fromhex(s)


def wrap2(g2, rty, v, st):
    """TL2 encoding of a function result (not an alias): object with the result as its only field (bit 1, zeroIfEmpty)"""
    r = g2.enc(rty, v, True, st)
    b = g2.obj(g2.body(0, [r], st, 1), False, st)
    return b if b is not None else b""


def impl_only(sc, lines, timeout=45):
    """implementation alone (value transport); a crashed / runaway process costs only its own line"""
    pre = prefix(sc)
    out = run_lines(sc.impl, lines, prefix=pre, timeout=timeout, mem_limit=6 << 30)
    bad = [i for i, a in enumerate(out) if a in ("CRASH", "TIMEOUT")]
    for i in bad[:200]:
        try:
            out[i] = run_lines(sc.impl, [lines[i]], prefix=pre, jobs=1, timeout=4, mem_limit=6 << 30)[0]
        except Exception:
            out[i] = "CRASH"
    return out
