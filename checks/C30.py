"""C30 — the linter rejects documented unsafe schema evolutions (DESIGN.md §4 C29/C30)."""
from checks import lintlib as L

MODULES = ["TLVerif.Props.C30"]
THEOREMS = ["TLVerif.Props.C30." + t for t in [
    "rejects_removed_constructor",
    "rejects_removed_function",
    "rejects_missing_constructor",
    "rejects_fewer_fields_or_targs",
    "rejects_fewer_fields_function",
    "compare_accepts_only_same_nodes",
    "rejects_changed_field_type_partial",
    "rejects_changed_mask",
    "rejects_appended_unmasked_field",
    "rejects_reused_mask_bit",
    "rejects_bare_type_to_union_partial",
    "union_statement_fails",
    "union_in_repeat_accepted",
    "bare_change_statement_fails",
    "compare_ignores_bare",
    "repeat_changes_accepted",
    "fewer_args_panics"]]


def run(c):
    c.lean(MODULES, THEOREMS, sources=["TLVerif.Lint.Ast", "TLVerif.Lint.Core", "TLVerif.Lint.Spec", "TLVerif.Lint.CoreLemmas",
                                       "TLVerif.Lint.Examples", "TLVerif.Lint.Driver"])
    model = c.model_exe()
    impl = c.harness("hlint")
    c.trusted += ["go/hlint harness: token -> TL text renderer (self-checked: the real parser's AST must dump back to the same tokens)",
                  "modelled, not verified: Go map/slice semantics inside CheckBackwardCompatibility"]
    lines = []
    if c.replay:
        for f in c.replay.get("failures", []):
            if f.get("input"):
                lines.append((f["input"], "replay-fail", {}))
        for t in c.replay.get("broken_ties", []):
            lines.append((t["line"], "replay", {}))
    for name, ln in sorted(L.witness_lines(impl).items()):
        if name in L.C30_WITNESSES:
            lines.append((ln, "witness", {"name": name}))
    samples, proto = L.sample_lines(impl)
    for ln, exp, f in samples:
        lines.append((ln, "sample-" + exp, {"file": f}))
    lines += L.build_cases(c, impl, 900 if c.thorough else 110)
    res = c.tie("verdict", [l for l, _, _ in lines], impl, model)
    for (l, kind, meta), (_, a, _) in zip(lines, res):
        c.count("kind:" + kind + ":" + a)
        if kind == "replay-fail" and a != "rej":
            c.oracle_fail(l, "replayed unsafe edit not rejected: verdict %s" % a, l)
        if kind == "witness" and a != "rej":
            c.oracle_fail(l, "unsafe edit not rejected (%s): verdict %s" % (meta["name"], a), l)
        if kind == "sample-rej" and a != "rej":
            c.oracle_fail(l, "repository sample %s (incorrect change) not rejected" % meta.get("file"), l)
        if kind == "unsafe":
            c.count("unsafe-edit:%s:%s:%s" % (meta["kind"], meta["class"], a))
            if meta["class"] == "guard" and a != "rej":
                c.oracle_fail(l, "unsafe edit %s (%s) not rejected: verdict %s" % (
                    meta["kind"], {k: v for k, v in meta.items() if k not in ("kind", "class")}, a), l)
    c.extra["rule"] = ("random base schemas (prelude + generic library + 2..6 random types incl. unions, nat/Type template arguments, "
                       "masks, repeats, 0..3 functions; half of them with a planted bare use in a 2nd/3rd type argument, in a repeat or "
                       "nested) x {identity, 3 safe sequences, 8 single unsafe edits at random positions, 2 mixed sequences} + repository "
                       "samples + the witnesses of the known defects; the C30 oracle (verdict = reject) is applied to unsafe edits that "
                       "lie inside the guard of the rejection theorems, to incorrect-changes samples and to the witnesses; unsafe edits "
                       "in a known defect class (bare flag ignored, repeats opaque, box usage hidden, fewer arguments) are counted per "
                       "class; every line is also a model-vs-code verdict comparison; distinct = distinct line text")
