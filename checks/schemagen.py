"""schemagen — type-directed random generator of TL1 schemas with KNOWN resolution (DESIGN §1.4 (ii), property C11).

    gen_schema(rng, size) -> (tl_text, desc_json)

builds a schema AST (TypeDef / Comb / FieldD / type expressions) in which every reference is already resolved
(which definition, bare or boxed, which `#` value feeds which parameter), prints it as TL1 text for tl2gen with
randomly chosen *spellings* (constructor name / %TypeName / (a b c) / a<b,c> / arithmetic / implicit scales),
and computes ITS OWN descriptor in exactly the JSON format `hcodec desc` exports — from the AST and the
documented rules (docs/tldoc.ru.md), never from the kernel.  Constructor tags are either explicit (#xxxxxxxx)
or implicit: CRC32 (IEEE) of the canonical one-line form, computed here by `Comb.canonical()`.

The descriptor mirrors the *granularity* the kernel uses (one instance per template instantiation with numeric
arguments substituted and `#`-variables left open as nat parameters, brackets as array instances, map-backed
dictionaries as dict instances) so that the two can be compared modulo instance numbering (`compare_desc`).
"""
import json
import zlib

PRIM_CANON = {"nat": "uint32", "int": "int32", "long": "int64", "float": "float32", "double": "float64", "string": "string"}
PRIM_TL = {"nat": "#", "int": "int", "long": "long", "float": "float", "double": "double", "string": "string"}
PRIM_TLNAME = {"uint32": "nat", "int32": "int", "int64": "long", "float32": "float", "float64": "double", "string": "string", "bool": "bool"}


# ------------------------------------------------------------------------------------------------ AST
class TypeDef:
    """one TL type (right-hand name) with its constructors; kind: simple | union | wrapper | bool | function"""

    def __init__(self, ns, name, params=(), kind="simple"):
        self.ns, self.name, self.params, self.kind = ns, name, list(params), kind   # params: [(name, 'nat'|'type', role)]
        self.combs = []
        self.dict = None          # None | 'fixed' (dictionary<t>, key = string) | 'args' (dictionaryAny<k,v>)
        self.prelude = False

    def tname(self):
        return (self.ns + "." if self.ns else "") + self.name

    def nat_params(self):
        return [p for p in self.params if p[1] == "nat"]


class Comb:
    def __init__(self, tdef, ns, name, tag=None, fields=None, builtin=False):
        self.tdef, self.ns, self.name, self.tag, self.explicit = tdef, ns, name, tag, tag is not None
        self.fields = fields if fields is not None else []
        self.builtin = builtin      # `int#a8509bda ? = Int;`
        self.result = None          # functions: result type expression
        self.modifier = None
        tdef.combs.append(self)

    def cname(self):
        return (self.ns + "." if self.ns else "") + self.name

    # -- text
    def text(self):
        parts = []
        if self.modifier:
            parts.append("@" + self.modifier)
        parts.append(self.cname() + ("#%08x" % self.tag if self.explicit else ""))
        for p in self.tdef.params:
            parts.append("{%s:%s}" % (p[0], "#" if p[1] == "nat" else "Type"))
        if self.builtin:
            parts.append("?")
        else:
            for f in self.fields:
                parts.append(f.text())
        parts.append("=")
        if self.tdef.kind == "function":
            parts.append(self.result.text(top=True))
        else:
            parts.append(" ".join([self.tdef.tname()] + [p[0] for p in self.tdef.params]))
        return " ".join(parts) + ";"

    # -- canonical one-line form (internal/tlast/qt_tlparser.qtpl canonicalForm), own implementation
    def canonical(self):
        s = self.cname() + " "
        for p in self.tdef.params:
            s += p[0] + (":# " if p[1] == "nat" else ":Type ")
        if self.builtin:
            s += "? "
        else:
            for f in self.fields:
                s += f.canon() + " "
        s += "= "
        if self.tdef.kind == "function":
            s += self.result.canon()
        else:
            s += " ".join([self.tdef.tname()] + [p[0] for p in self.tdef.params])
        return s

    def implicit_tag(self):
        return zlib.crc32(self.canonical().encode()) & 0xFFFFFFFF


class FieldD:
    def __init__(self, name, ty, mask=None):
        self.name, self.ty, self.mask = name, ty, mask      # mask: (NatE, bit)

    def _pre(self):
        s = self.name + ":" if self.name else ""
        if self.mask:
            s += "%s.%d?" % (self.mask[0].name, self.mask[1])
        return s

    def text(self):
        if isinstance(self.ty, TVec):
            # `# name:[T]` — an anonymous `#` followed by brackets: one field holding count ++ elements
            return "# " + self._pre() + "[" + self.ty.elem.text() + "]"
        return self._pre() + self.ty.text()

    def canon(self):
        if isinstance(self.ty, TVec):
            return "# " + self._pre() + "[ " + self.ty.elem.string() + " ]"
        return self._pre() + self.ty.canon()


class NatE:
    """nat expression: const (list of summands), field (earlier `#` field), param (`{n:#}`)"""

    def __init__(self, k, name=None, nums=None):
        self.k, self.name, self.nums = k, name, nums

    def value(self):
        return sum(self.nums) & 0xFFFFFFFF

    def text(self, angle=False):
        if self.k != "const":
            return self.name
        if len(self.nums) == 1:
            return str(self.nums[0])
        s = " + ".join(str(n) for n in self.nums)
        return s if angle else "(" + s + ")"

    def canon(self):
        return str(self.value()) if self.k == "const" else self.name

    def string(self):
        return " + ".join(str(n) for n in self.nums) if self.k == "const" else self.name


class TPrim:
    def __init__(self, k, percent_name=None):
        self.k, self.percent_name = k, percent_name    # percent_name: spelled `%Int` (bare reference to the boxed wrapper)

    def text(self, top=False):
        return "%" + self.percent_name if self.percent_name else PRIM_TL[self.k]

    def canon(self):
        return "%" + self.percent_name if self.percent_name else PRIM_TL[self.k]

    string = canon


class TVar:
    def __init__(self, name, force_bare=False):
        self.name, self.force_bare = name, force_bare

    def text(self, top=False):
        return ("%" if self.force_bare else "") + self.name

    def canon(self):
        return ("%" if self.force_bare and not self.name[0].islower() else "") + self.name

    def string(self):
        return ("%" if self.force_bare else "") + self.name


class TRef:
    """reference to a defined type: bare/boxed is *decided* here; `spell` only chooses how to write it"""

    def __init__(self, tdef, bare, args=(), use_cname=None, percent=False, style="paren"):
        self.tdef, self.bare, self.args = tdef, bare, list(args)     # args: NatE | type expression, in parameter order
        self.use_cname = bare if use_cname is None else use_cname
        self.percent, self.style = percent, style

    def _name(self):
        return self.tdef.combs[0].cname() if self.use_cname else self.tdef.tname()

    def text(self, top=False):
        n = self._name()
        if not self.args:
            return ("%" if self.percent else "") + n
        if self.style == "angle":
            return ("%" if self.percent else "") + n + "<" + ", ".join(a.text(True) if isinstance(a, NatE) else a.text() for a in self.args) + ">"
        inner = n + " " + " ".join(a.text() for a in self.args)
        if top and not self.percent:
            return inner
        if self.percent and self.style == "paren2":
            return "(%" + inner + ")"
        return ("%" if self.percent else "") + "(" + inner + ")"

    def canon(self):
        n = self._name()
        last = n.split(".")[-1]
        s = ("%" if self.percent and not last[0].islower() else "") + n
        for a in self.args:
            s += " " + a.canon()
        return s

    def string(self):
        n = self._name()
        if not self.args:
            return ("%" if self.percent else "") + n
        return ("%" if self.percent else "") + "(" + n + "".join(" " + a.string() for a in self.args) + ")"


class TRep:
    """`n*[T]` — elements only, count from a constant, an earlier `#` field or a nat parameter"""

    def __init__(self, count, elem, implicit=False):
        self.count, self.elem, self.implicit = count, elem, implicit

    def text(self, top=False):
        if self.implicit:
            return "[" + self.elem.text() + "]"
        c = self.count
        sc = c.name if c.k != "const" else (str(c.nums[0]) if len(c.nums) == 1 else "(" + " + ".join(str(n) for n in c.nums) + ")")
        return sc + "*[" + self.elem.text() + "]"

    def canon(self):
        return ("" if self.implicit else self.count.canon() + "*") + "[ " + self.elem.string() + " ]"


class TVec:
    """the `# [T]` pattern of a constructor body (count ++ elements), only as a whole field"""

    def __init__(self, elem):
        self.elem = elem


# ------------------------------------------------------------------------------------------------ prelude
def prelude():
    """the customary base definitions; returns dict name -> TypeDef (AST like any other type)"""
    P = {}

    def simple(cname, tname, tag, params, fields, builtin=False):
        td = TypeDef("", tname, params, "simple")
        td.prelude = True
        Comb(td, "", cname, tag, fields, builtin=builtin)
        P[tname] = td
        return td

    for c, t, tag, k in [("int", "Int", 0xa8509bda, "int"), ("long", "Long", 0x22076cba, "long"), ("string", "String", 0xb5286e24, "string"),
                         ("float", "Float", 0x824dab22, "float"), ("double", "Double", 0x2210c154, "double")]:
        td = simple(c, t, tag, [], [FieldD("", TPrim(k))], builtin=True)
        td.kind = "wrapper"
        td.wraps = k
    simple("vector", "Vector", 0x1cb5c415, [("t", "type", None)], [FieldD("", TVec(TVar("t")))])
    simple("tuple", "Tuple", 0x9770768a, [("t", "type", None), ("n", "nat", "size")], [FieldD("", TRep(NatE("param", "n"), TVar("t"), implicit=True))])
    df = simple("dictionaryField", "DictionaryField", None, [("t", "type", None)], [FieldD("key", TPrim("string")), FieldD("value", TVar("t"))])
    d = simple("dictionary", "Dictionary", 0x1f4c618f, [("t", "type", None)],
               [FieldD("", TRef(P["Vector"], True, [TRef(df, True, [TVar("t")], use_cname=False, percent=True)], use_cname=False, percent=True))])
    d.dict = "fixed"
    daf = simple("dictionaryAnyField", "DictionaryAnyField", None, [("k", "type", None), ("v", "type", None)], [FieldD("key", TVar("k")), FieldD("value", TVar("v"))])
    da = simple("dictionaryAny", "DictionaryAny", 0x1f4c6190, [("k", "type", None), ("v", "type", None)],
                [FieldD("", TVec(TRef(daf, True, [TVar("k"), TVar("v")])))])
    da.dict = "args"
    simple("true", "True", None, [], [])
    b = TypeDef("", "Bool", [], "bool")
    b.prelude = True
    Comb(b, "", "boolFalse", 0xbc799737)
    Comb(b, "", "boolTrue", 0x997275b5)
    P["Bool"] = b
    m = TypeDef("", "Maybe", [("t", "type", None)], "union")
    m.prelude = True
    Comb(m, "", "resultFalse", 0x27930a7b)
    Comb(m, "", "resultTrue", 0x3f9c8ef8, [FieldD("", TVar("t"))])
    P["Maybe"] = m
    for t in P.values():
        for c in t.combs:
            if c.tag is None:
                c.tag = c.implicit_tag()
    return P


# ------------------------------------------------------------------------------------------------ descriptor from the AST
def _stars(rt):
    k = rt[0]
    if k == "P":
        return 0
    if k in ("N", "C"):
        n = 0
        for a in rt[-1]:
            n += 1 if a[0] == "*" else (_stars(a[1]) if a[0] == "t" else 0)
        return n
    if k == "V":
        return _stars(rt[1])
    if k == "T":
        return (1 if rt[1][0] == "*" else 0) + _stars(rt[2])
    if k in ("D", "F"):
        return _stars(rt[1]) + _stars(rt[3])
    raise ValueError(k)


def variant_names(td):
    """JSON variant names of a union (prefix/suffix shared with the type name removed; rule of the TL1 front end)"""
    low1 = lambda s: s[:1].lower() + s[1:]
    prefix, suffix = low1(td.name).lower(), td.name.lower()
    for c in td.combs:
        cn = c.name.lower()
        if not cn.startswith(prefix):
            prefix = ""
        if not cn.endswith(suffix):
            suffix = ""
    res = []
    for c in td.combs:
        v = c.name
        if prefix and len(prefix) < len(v):
            v = v[len(prefix):]
        elif suffix and len(suffix) < len(v):
            v = v[:len(v) - len(suffix)]
        v = v.lstrip("_")
        if not (v[:1].isascii() and v[:1].isalpha()):
            v = "v" + v
        if v in res:
            v = c.ns + "_" + v
        res.append(v)
    return res


class Instantiator:
    """Monomorphises the AST: one instance per (definition, numeric/open nat arguments, type arguments)."""

    def __init__(self, types, has_tl2=False):
        self.types = types
        self.ids = {id(t): i for i, t in enumerate(types)}
        self.insts = []
        self.memo = {}
        self.has_tl2 = has_tl2

    # -- names (only for humans / debugging; the comparison ignores them)
    def rt_name(self, rt, bare=True, top=True):
        k = rt[0]
        if k == "P":
            return ("" if bare or top else "+") + rt[1] if rt[1] != "bool" else "bool"
        if k in ("N", "C"):
            td = self.types[rt[1]]
            base = td.tname() if td.kind == "union" and k == "N" else td.combs[rt[2] if k == "C" else 0].cname()
            if td.kind == "wrapper":
                base = td.tname()
            args = []
            for a in rt[-1]:
                args.append(str(a[1]) if a[0] == "n" else "*" if a[0] == "*" else self.rt_name(a[1], a[2], False))
            pre = "" if top or bare or td.kind == "union" else "+"
            return pre + base + ("<" + ",".join(args) + ">" if args else "")
        if k == "V":
            return "[]" + self.rt_name(rt[1], rt[2], False)
        if k == "T":
            return "[" + (str(rt[1][1]) if rt[1][0] == "n" else "*") + "]" + self.rt_name(rt[2], rt[3], False)
        if k == "D":
            return "[" + self.rt_name(rt[1], rt[2], False) + "]" + self.rt_name(rt[3], rt[4], False)
        if k == "F":
            return "__dict_field<" + self.rt_name(rt[1], rt[2], False) + "," + self.rt_name(rt[3], rt[4], False) + ">"

    # -- resolution of a type expression inside an instance
    def nat(self, e, env):
        """-> (rarg, natarg or None)"""
        if e.k == "const":
            return ("n", e.value()), None
        if e.k == "field":
            return ("*",), {"k": "field", "v": env["fields"][e.name]}
        b = env["params"][e.name]
        if b[0] == "n":
            return ("n", b[1]), None
        return ("*",), {"k": "param", "v": b[1]}

    def resolve(self, e, env):
        """-> (rt, bare, natArgs)"""
        if isinstance(e, TPrim):
            return ("P", PRIM_CANON[e.k]), True, []
        if isinstance(e, TVar):
            rt, bare, na = env["params"][e.name]
            return rt, bare or e.force_bare, list(na)
        if isinstance(e, TVec):
            rt, bare, na = self.resolve(e.elem, env)
            return ("V", rt, bare), True, na
        if isinstance(e, TRep):
            c, cna = self.nat(e.count, env)
            rt, bare, na = self.resolve(e.elem, env)
            return ("T", c, rt, bare), True, ([cna] if cna else []) + na
        td = e.tdef
        if td.kind == "bool":
            return ("P", "bool"), False, []
        if td.kind == "wrapper" and e.bare:
            return ("P", PRIM_CANON[td.wraps]), True, []
        rargs, nas = [], []
        for (pn, pk, _), a in zip(td.params, e.args):
            if pk == "nat":
                r, na = self.nat(a, env)
                rargs.append(r)
                if na:
                    nas.append(na)
            else:
                rt, bare, na = self.resolve(a, env)
                rargs.append(("t", rt, bare))
                nas += na
        return ("N", self.ids[id(td)], tuple(rargs)), (e.bare and td.kind != "union"), nas

    # -- instances
    def inst(self, rt):
        if rt in self.memo:
            return self.memo[rt]
        idx = len(self.insts)
        self.memo[rt] = idx
        j = {"idx": idx, "name": self.rt_name(rt), "tlname": "", "kind": "", "tag": 0, "natParams": _stars(rt), "hasTL2": self.has_tl2,
             "originTL2": False, "topLevel": False, "boxedOnly": False}
        self.insts.append(j)
        k = rt[0]
        if k == "P":
            j.update(kind="prim", prim=rt[1], tlname=PRIM_TLNAME[rt[1]])
            if rt[1] == "bool":
                b = [t for t in self.types if t.kind == "bool"][0]
                j.update(falseTag=b.combs[0].tag, trueTag=b.combs[1].tag, boxedOnly=True)
        elif k == "N":
            td = self.types[rt[1]]
            if td.kind == "union":
                self.union(j, td, rt)
            else:
                # a simple type *is* its only constructor
                del self.memo[rt]
                self.insts.pop()
                idx = self.inst(("C", rt[1], 0, rt[2]))
                self.memo[rt] = idx
                return idx
        elif k == "C":
            self.struct(j, self.types[rt[1]], rt[2], rt[3])
        elif k == "V":
            j.update(kind="array", elem=self.elem_field(rt[1], rt[2], 0))
        elif k == "T":
            dyn = rt[1][0] == "*"
            j.update(kind="array", isTuple=True, elem=self.elem_field(rt[2], rt[3], 1 if dyn else 0))
            if dyn:
                j["dynamicSize"] = True
            else:
                j["count"] = rt[1][1]
        elif k == "D":
            n = _stars(rt)
            j.update(kind="dict", elem={"name": "", "ty": self.inst(("F",) + rt[1:]), "bare": True, "bit": 0,
                                        "natArgs": [{"k": "param", "v": i} for i in range(n)], "isBit": False})
        elif k == "F":
            nk = _stars(rt[1])
            j.update(kind="struct", tlname="__dict_field", fields=[
                {"name": "key", "ty": self.inst(rt[1]), "bare": rt[2], "bit": 0, "natArgs": [{"k": "param", "v": i} for i in range(nk)], "isBit": False},
                {"name": "value", "ty": self.inst(rt[3]), "bare": rt[4], "bit": 0,
                 "natArgs": [{"k": "param", "v": nk + i} for i in range(_stars(rt[3]))], "isBit": False}])
        return idx

    def elem_field(self, rt, bare, shift):
        return {"name": "", "ty": self.inst(rt), "bare": bare, "bit": 0, "natArgs": [{"k": "param", "v": shift + i} for i in range(_stars(rt))], "isBit": False}

    def env_of(self, td, rargs):
        params, n = {}, 0
        for (pn, pk, _), a in zip(td.params, rargs):
            if pk == "nat":
                if a[0] == "n":
                    params[pn] = ("n", a[1])
                else:
                    params[pn] = ("*", n)
                    n += 1
            else:
                s = _stars(a[1])
                params[pn] = (a[1], a[2], [{"k": "param", "v": n + i} for i in range(s)])
                n += s
        return {"params": params, "fields": {}}, n

    def union(self, j, td, rt):
        n = _stars(rt)
        vs = [self.inst(("C", rt[1], ci, rt[2])) for ci in range(len(td.combs))]
        j.update(kind="union", tlname=td.tname(), topLevel=not td.params, boxedOnly=True, variants=vs, variantNames=variant_names(td))
        if n:
            j["elementNatArgs"] = [{"k": "param", "v": i} for i in range(n)]
        if all(not c.fields for c in td.combs):
            j["isEnum"] = True
        if td.name == "Maybe" and not td.ns and len(td.combs) == 2 and not td.combs[0].fields and len(td.combs[1].fields) == 1:
            j["isMaybe"] = True

    def struct(self, j, td, ci, rargs):
        c = td.combs[ci]
        env, n = self.env_of(td, rargs)
        is_union = td.kind == "union"
        j.update(kind="struct", tlname=c.cname(), tag=c.tag, topLevel=not td.params, boxedOnly=is_union)
        fields = []
        tl2bit = 0
        if td.dict:
            # map-backed dictionary: count ++ {key,value} elements; all nat parameters are handed to the dict
            if td.dict == "fixed":
                key = (("P", "string"), True)
                val = rargs[0]
            else:
                key = (rargs[0][1], rargs[0][2])
                val = rargs[1]
            d = self.inst(("D", key[0], key[1], val[1], val[2]))
            fields.append({"name": "", "ty": d, "bare": True, "bit": 0, "natArgs": [{"k": "param", "v": i} for i in range(n)], "isBit": False})
        else:
            for i, f in enumerate(c.fields):
                rt, bare, na = self.resolve(f.ty, env)
                fj = {"name": f.name, "ty": self.inst(rt), "bare": bare}
                if f.mask:
                    _, m = self.nat(f.mask[0], env)
                    fj["mask"] = m if m else {"k": "num", "v": self.nat(f.mask[0], env)[0][1]}
                    if self.has_tl2:
                        fj["tl2bit"] = tl2bit
                    tl2bit += 1
                fj["bit"] = f.mask[1] if f.mask else 0
                fj["natArgs"] = na
                fj["isBit"] = bool(f.mask) and rt[0] in ("N", "C") and self.types[rt[1]].kind == "simple" and self.types[rt[1]].combs[0].cname() == "true"
                fields.append(fj)
                if f.name:
                    env["fields"][f.name] = i
        if fields:
            j["fields"] = fields
        typedef = td.kind != "function" and len(fields) == 1 and fields[0]["name"] == "" and "mask" not in fields[0]
        if typedef:
            j["isTypedef"] = True
            if not is_union:
                j["isAlias"] = True
                if td.kind == "wrapper" or td.dict or c.cname() in ("vector", "tuple") or td.tname() in ("Vector", "Tuple"):
                    j["isUnwrap"] = True
        if is_union:
            j["isUnionElement"] = True
            if ci:
                j["unionIndex"] = ci
        if td.kind == "function":
            rt, bare, na = self.resolve(c.result, env)
            j.update(isFunction=True, resultTy=self.inst(rt))
            # annotation mask as the generated registry reports it: bit = position in the kernel's standard annotation list
            std = ["any", "internal", "kphp", "read", "readwrite", "write"]
            if getattr(c, "modifier", None) in std:
                j["annotations"] = 1 << std.index(c.modifier)
            if na:
                j["resultNatArgs"] = na

    def run(self):
        for td in self.types:
            if td.params:
                continue
            if td.kind == "bool":
                self.inst(("P", "bool"))
            elif td.kind == "union":
                self.inst(("N", self.ids[id(td)], ()))
            else:
                self.inst(("C", self.ids[id(td)], 0, ()))
        return self.insts


def descriptor(types, has_tl2=False):
    it = Instantiator(types, has_tl2)
    insts = it.run()
    top = sorted(i["name"] for i in insts if i["topLevel"] and i["kind"] in ("struct", "union") and not i.get("isUnionElement"))
    return {"instances": insts, "topLevel": top}


def schema_text(types):
    out, fn = [], False
    for td in types:
        if (td.kind == "function") != fn:
            fn = not fn
            out.append("---functions---" if fn else "---types---")
        for c in td.combs:
            out.append(c.text())
    return "\n".join(out) + "\n"


# ------------------------------------------------------------------------------------------------ descriptor comparison
WIRE_KEYS = ["kind", "tag", "natParams", "prim", "falseTag", "trueTag", "isTuple", "dynamicSize", "count", "isFunction"]
SOFT_KEYS = ["tlname", "isAlias", "isTypedef", "isUnwrap", "isUnionElement", "unionIndex", "isEnum", "isMaybe", "topLevel", "boxedOnly",
             "hasTL2", "originTL2", "variantNames", "resultBare"]


def compare_desc(mine, kern):
    """Structural comparison modulo instance numbering, started from every name-addressable instance of `mine`.
    Returns (wire_diffs, soft_diffs, pairs_compared): wire = attributes the TL1/TL2 byte formats depend on."""
    MI, KI = mine["instances"], kern["instances"]
    kby = {}
    for i in KI:
        if i["kind"] in ("struct", "union") and i["natParams"] == 0 and i["tlname"]:
            kby.setdefault((i["tlname"], i["kind"]), []).append(i)
    wire, soft, seen = [], [], {}

    def fld(path, a, b):
        for k in ("bare", "bit", "isBit"):
            if a.get(k, False) != b.get(k, False):
                (wire if k != "isBit" else soft).append("%s: field %s %s=%r kernel %r" % (path, a.get("name"), k, a.get(k), b.get(k)))
        if a.get("name", "") != b.get("name", ""):
            soft.append("%s: field name %r kernel %r" % (path, a.get("name"), b.get("name")))
        if a.get("mask") != b.get("mask"):
            wire.append("%s: field %s mask %r kernel %r" % (path, a.get("name"), a.get("mask"), b.get("mask")))
        if a.get("natArgs", []) != b.get("natArgs", []):
            wire.append("%s: field %s natArgs %r kernel %r" % (path, a.get("name"), a.get("natArgs"), b.get("natArgs")))
        if a.get("tl2bit") != b.get("tl2bit"):
            soft.append("%s: field %s tl2bit %r kernel %r" % (path, a.get("name"), a.get("tl2bit"), b.get("tl2bit")))
        walk(path + "." + (a.get("name") or "_"), a["ty"], b["ty"])

    def walk(path, ai, bi):
        if ai in seen:
            if seen[ai] != bi:
                wire.append("%s: instance %s corresponds to kernel instances %s and %s" % (path, MI[ai]["name"], KI[seen[ai]]["name"], KI[bi]["name"]))
            return
        seen[ai] = bi
        a, b = MI[ai], KI[bi]
        for k in WIRE_KEYS:
            if a.get(k, 0) != b.get(k, 0):
                wire.append("%s (%s | %s): %s=%r kernel %r" % (path, a["name"], b["name"], k, a.get(k), b.get(k)))
        for k in SOFT_KEYS:
            if a.get(k, 0) != b.get(k, 0):
                soft.append("%s (%s | %s): %s=%r kernel %r" % (path, a["name"], b["name"], k, a.get(k), b.get(k)))
        if a["kind"] != b["kind"]:
            return
        fa, fb = a.get("fields") or [], b.get("fields") or []
        if len(fa) != len(fb):
            wire.append("%s (%s): %d fields, kernel %d" % (path, a["name"], len(fa), len(fb)))
        for x, y in zip(fa, fb):
            fld(path, x, y)
        if a.get("elem"):
            fld(path, a["elem"], b["elem"])
        va, vb = a.get("variants") or [], b.get("variants") or []
        if len(va) != len(vb):
            wire.append("%s (%s): %d variants, kernel %d" % (path, a["name"], len(va), len(vb)))
        for n, (x, y) in enumerate(zip(va, vb)):
            walk(path + "|" + str(n), x, y)
        if (a.get("elementNatArgs") or []) != (b.get("elementNatArgs") or []):
            wire.append("%s (%s): elementNatArgs %r kernel %r" % (path, a["name"], a.get("elementNatArgs"), b.get("elementNatArgs")))
        if a.get("isFunction"):
            if (a.get("resultNatArgs") or []) != (b.get("resultNatArgs") or []):
                wire.append("%s: resultNatArgs %r kernel %r" % (path, a.get("resultNatArgs"), b.get("resultNatArgs")))
            walk(path + "=>", a.get("resultTy", 0), b.get("resultTy", 0))

    roots = 0
    for a in MI:
        if a["kind"] in ("struct", "union") and a["natParams"] == 0 and a["tlname"] and a["topLevel"]:
            c = kby.get((a["tlname"], a["kind"]))
            if not c:
                wire.append("%s: no kernel instance with this TL name" % a["tlname"])
                continue
            roots += 1
            walk(a["tlname"], a["idx"], c[0]["idx"])
    mine_names = {(a["tlname"], a["kind"]) for a in MI if a["kind"] in ("struct", "union") and a["natParams"] == 0 and a["topLevel"]}
    for (n, k), v in sorted(kby.items()):
        if v[0]["topLevel"] and (n, k) not in mine_names:
            wire.append("%s: kernel has a top-level %s the generator's descriptor lacks" % (n, k))
    return wire, soft, len(seen)


# ------------------------------------------------------------------------------------------------ random generation
WORDS = ["foo", "bar", "baz", "qux", "item", "node", "leaf", "tree", "point", "rect", "user", "msg", "val", "key", "box", "cell",
         "row", "col", "pix", "dot", "arc", "edge", "page", "blob", "chunk", "frame", "slot", "tag", "unit", "wrap", "zone", "task"]
NSPACES = ["", "", "", "ab", "cd", "geo", "net_io", "svc2", "x"]
FIELD_WORDS = ["a", "b", "c", "x", "y", "z", "id", "cnt", "len", "val", "key", "data", "flags", "next", "prev", "items", "name", "kind",
               "size", "extra", "mask", "n", "m", "k", "w", "h", "lo", "hi", "ts", "ver"]
MODIFIERS = ["read", "write", "readwrite", "any", "internal", "kphp"]
BITS = [0, 0, 1, 1, 2, 3, 4, 5, 7, 8, 15, 16, 23, 24, 30, 31, 31]


class Ctx:
    """what a constructor body under construction can refer to"""

    def __init__(self, td):
        self.td = td
        self.natvars = []     # dict(e=NatE, role='mask'|'size'|'both')
        self.typevars = [p[0] for p in td.params if p[1] == "type"]
        self.barevars = {p[0] for p in td.params if p[1] == "type" and p[2] == "bare"}
        self.mutual = []      # other definitions of a mutually recursive group (usable only under a guard)
        for p in td.params:
            if p[1] == "nat":
                self.natvars.append({"e": NatE("param", p[0]), "role": p[2]})
        self.names = set(p[0] for p in td.params)
        self.norm = set()
        self.prev_nat = None   # name of the immediately preceding `#` field (implicit scale)


def mentions_var(e, name, own=None):
    """does the type expression use Type variable `name` other than by handing it back to the definition `own` itself"""
    if isinstance(e, TVar):
        return e.name == name
    if isinstance(e, TRef):
        if e.tdef is own:
            return False
        return any(mentions_var(a, name, own) for a in e.args if not isinstance(a, NatE))
    if isinstance(e, (TRep, TVec)):
        return mentions_var(e.elem, name, own)
    return False


class SchemaGen:
    def __init__(self, rng, size, features=None):
        self.rng, self.size = rng, size
        self.P = prelude()
        self.types = list(self.P.values())
        self.user = []            # user TypeDefs usable as field types (not functions)
        self.used_names = set()   # tips: constructor and type names
        self.norm_names = set()
        self.tags = set()
        for t in self.types:
            for c in t.combs:
                self.used_names.add(c.cname())
                if c.tag is not None:
                    self.tags.add(c.tag)
            self.used_names.add(t.tname())
        self.used_names |= {"int", "long", "string", "float", "double", "nat", "bool", "bit", "byte", "uint32", "int32", "int64", "uint64",
                            "float32", "float64", "__dict_field"}
        self.feat = {}
        self.maxdepth = 3
        self.cover = features is None or features.get("cover", True)
        self.near_collisions = (features is None or features.get("near_collisions", True)) and rng.chance(1, 3)

    def hit(self, k):
        self.feat[k] = self.feat.get(k, 0) + 1

    # -- names
    def norm(self, s):
        return s.replace("_", "").lower()

    def fresh_type_names(self, union=False):
        """-> (ns, TypeName, constructor base name)"""
        r = self.rng
        for _ in range(200):
            ns = r.choice(NSPACES)
            w = r.choice(WORDS)
            k = r.below(10)
            if k < 3:
                w = w + r.choice(WORDS).capitalize()
            elif k < 5:
                w = w + "_" + r.choice(WORDS)
            elif k < 7:
                w = w + str(r.below(100))
            if self.near_collisions and self.user and r.chance(1, 5):
                # a name that differs from an existing one only by case / underscore / namespace
                o = r.choice(self.user)
                base = o.name[:1].lower() + o.name[1:]
                v = r.below(20)     # case-only twins are rare: Go refuses the generated package (case-insensitive file name collision)
                if v < 9:
                    ns, w = r.choice([n for n in NSPACES if n != o.ns] or [""]), base
                elif v < 19:
                    ns, w = o.ns, (base.replace("_", "") if "_" in base else base[:1] + "_" + base[1:])
                else:
                    ns, w = o.ns, base[:1] + base[1:].swapcase()
                self.hit("name:near-collision")
            tn = w[:1].upper() + w[1:]
            cn = w[:1].lower() + w[1:]
            full_t, full_c = (ns + "." if ns else "") + tn, (ns + "." if ns else "") + cn
            if full_t in self.used_names or full_c in self.used_names or full_t == full_c:
                continue
            if not union and r.chance(1, 6):
                # constructor differs from the type name by case only, but not just in the first letter
                cn2 = cn[:1] + cn[1:].swapcase() if len(cn) > 2 else cn
                if (ns + "." if ns else "") + cn2 not in self.used_names and cn2[:1].islower():
                    cn, full_c = cn2, (ns + "." if ns else "") + cn2
            self.used_names |= {full_t, full_c}
            return ns, tn, cn
        raise RuntimeError("name space exhausted")

    def fresh_tag(self):
        while True:
            t = self.rng.below(2 ** 32)
            if t and t not in self.tags:
                self.tags.add(t)
                return t

    def field_name(self, ctx):
        r = self.rng
        for _ in range(100):
            w = r.choice(FIELD_WORDS)
            k = r.below(8)
            if k == 0:
                w = w + "_" + r.choice(FIELD_WORDS)
            elif k == 1:
                w = w + r.choice(FIELD_WORDS).capitalize()
            elif k == 2:
                w = w + str(r.below(10))
            if w in ctx.names or self.norm(w) in ctx.norm:
                continue
            ctx.names.add(w)
            ctx.norm.add(self.norm(w))
            return w
        raise RuntimeError("field names exhausted")

    # -- nat expressions
    def const(self, role):
        r = self.rng
        if role == "size":
            v = r.choice([0, 1, 1, 2, 2, 3, 3, 4, 5, 7])
        elif role == "mask":
            v = r.choice([0, 1, 2, 3, 5, 7, 255, 0x80000000, 0xFFFFFFFF, 0x7FFFFFFF, r.below(2 ** 32), r.below(16)])
        else:
            v = r.choice([0, 1, 2, 3, 4, 5, 7])
        if v and v < 1000 and r.chance(1, 4):
            a = r.below(v + 1)
            self.hit("nat:arith")
            return NatE("const", nums=[a, v - a] if r.chance(2, 3) else [a, 0, v - a])
        return NatE("const", nums=[v])

    def nat_for(self, ctx, role):
        """a nat expression usable where a parameter of `role` is expected"""
        r = self.rng
        cands = [v for v in ctx.natvars if v["role"] == role]
        if cands and r.chance(3, 4):
            v = r.choice(cands)
            self.hit("natarg:" + v["e"].k)
            return v["e"]
        self.hit("natarg:const")
        return self.const(role)

    # -- type expressions
    def spell_ref(self, td, bare, args):
        r = self.rng
        style = r.choice(["paren", "paren", "angle", "paren2"])
        if td.kind == "union" or td.kind == "bool":
            return TRef(td, False, args, use_cname=False, percent=False, style=style)
        if not bare:
            self.hit("ref:boxed")
            return TRef(td, False, args, use_cname=False, percent=False, style=style)
        k = r.below(6)
        if k == 0:
            self.hit("ref:%Type")
            return TRef(td, True, args, use_cname=False, percent=True, style=style)
        if k == 1:
            self.hit("ref:%cons")
            return TRef(td, True, args, use_cname=True, percent=True, style=style)
        self.hit("ref:cons")
        return TRef(td, True, args, use_cname=True, percent=False, style=style)

    def can_be_bare(self, e, ctx):
        """may `%X` be applied when X is bound to `e`? (unions, Bool and unconstrained type variables may not)"""
        if isinstance(e, TPrim):
            return True
        if isinstance(e, TVar):
            return e.name in ctx.barevars
        return isinstance(e, TRef) and e.tdef.kind in ("simple", "wrapper")

    def args_for(self, ctx, td, depth, key_only=False):
        args = []
        for pn, pk, role in td.params:
            if pk == "nat":
                args.append(self.nat_for(ctx, role))
            elif role == "bare":
                # the body says `%X`: half of the time hand it a *boxed* reference, so that the `%` decides the wire format
                for _ in range(30):
                    a = self.gen_type(ctx, depth + 1, arg=True)
                    if self.can_be_bare(a, ctx):
                        break
                else:
                    a = TPrim("int")
                if self.rng.chance(1, 2):
                    simple = [t for t in self.user if t.kind == "simple" and not t.params]
                    if simple and self.rng.chance(1, 2):
                        a = TRef(self.rng.choice(simple), False, [], use_cname=False)
                    else:
                        a = TRef(self.P[self.rng.choice(["Int", "Long", "String", "Double"])], False, [], use_cname=False)
                    self.hit("type:%var-gets-boxed-arg")
                args.append(a)
            else:
                args.append(self.gen_type(ctx, depth + 1, arg=True))
        return args

    def key_type(self, ctx):
        """a type the generators can use as a Go map key"""
        r = self.rng
        k = r.below(8)
        if k < 3:
            return TPrim("string")
        if k < 5:
            return TPrim("int")
        if k == 5:
            return TPrim("long")
        if k == 6:
            return TPrim("nat")
        return TRef(self.P["Int"], False, [], use_cname=False)

    def prim(self):
        r = self.rng
        k = r.choice(["int", "int", "long", "string", "string", "float", "double", "nat"])
        W = {"int": "Int", "long": "Long", "string": "String", "float": "Float", "double": "Double"}
        if k in W and r.chance(1, 8):
            self.hit("prim:%Boxed")
            return TPrim(k, percent_name=W[k])
        self.hit("prim:" + k)
        return TPrim(k)

    def gen_type(self, ctx, depth, arg=False, guard=False, masked=False):
        """a random type expression; `guard` = we are under a vector / mask / Maybe, recursion allowed"""
        r = self.rng
        P = self.P
        deep = depth >= self.maxdepth
        choices = ["prim"] * 6 + ["wrapper"] * 2 + ["bool", "true"]
        if not deep:
            choices += ["vector"] * 3 + ["tuple"] * 2 + ["maybe"] * 2 + ["dict", "dictany", "pairs", "Vector"]
            if not arg:
                choices += ["rep"] * 3
        if self.user:
            choices += ["user"] * (4 if deep else 8)
        if ctx.typevars:
            choices += ["var"] * 5
        if guard and ctx.td.kind != "function" and r.chance(1, 3):
            choices += ["self"] * 6
        if guard and ctx.mutual:
            choices += ["mutual"] * 8
        if masked:
            choices += ["true"] * 5
        c = r.choice(choices)
        if c == "prim":
            return self.prim()
        if c == "wrapper":
            self.hit("ref:Boxed-builtin")
            return TRef(P[r.choice(["Int", "Long", "String", "Float", "Double"])], False, [], use_cname=False)
        if c == "bool":
            self.hit("type:Bool")
            return TRef(P["Bool"], False, [], use_cname=False)
        if c == "true":
            if masked or r.chance(1, 2):
                self.hit("type:true")
                return self.spell_ref(P["True"], True, [])
            self.hit("type:True-boxed")
            return TRef(P["True"], False, [], use_cname=False)
        if c == "vector":
            self.hit("type:vector")
            return self.spell_ref(P["Vector"], True, [self.gen_type(ctx, depth + 1, arg=True, guard=True)])
        if c == "Vector":
            self.hit("type:Vector-boxed")
            return self.spell_ref(P["Vector"], False, [self.gen_type(ctx, depth + 1, arg=True, guard=True)])
        if c == "tuple":
            self.hit("type:tuple")
            n = self.nat_for(ctx, "size")
            return self.spell_ref(P["Tuple"], r.chance(5, 6), [self.gen_type(ctx, depth + 1, arg=True), n])
        if c == "rep":
            n = self.nat_for(ctx, "size")
            self.hit("type:rep-" + n.k)
            imp = n.k == "field" and ctx.prev_nat == n.name and r.chance(1, 2)
            if imp:
                self.hit("type:rep-implicit-scale")
            return TRep(n, self.gen_type(ctx, depth + 1, arg=True), implicit=imp)
        if c == "maybe":
            self.hit("type:Maybe")
            return self.spell_ref(P["Maybe"], False, [self.gen_type(ctx, depth + 1, arg=True, guard=True)])
        if c == "dict":
            self.hit("type:dictionary")
            return self.spell_ref(P["Dictionary"], r.chance(5, 6), [self.gen_type(ctx, depth + 1, arg=True, guard=True)])
        if c == "dictany":
            self.hit("type:dictionaryAny")
            return self.spell_ref(P["DictionaryAny"], r.chance(5, 6), [self.key_type(ctx), self.gen_type(ctx, depth + 1, arg=True, guard=True)])
        if c == "pairs":
            # non-map dictionary: vector of {key,value} pairs with a key Go cannot hash / the heuristics do not cover
            self.hit("type:vector-of-pairs")
            k = r.choice([TPrim("double"), TPrim("float"), self.gen_type(ctx, depth + 2, arg=True)])
            return self.spell_ref(P["Vector"], True, [self.spell_ref(P["DictionaryAnyField"], True, [k, self.gen_type(ctx, depth + 2, arg=True)])])
        if c == "var":
            v = r.choice(ctx.typevars)
            if v in ctx.barevars and r.chance(2, 3):
                self.hit("type:%var")
                return TVar(v, force_bare=True)
            self.hit("type:var")
            return TVar(v)
        if c == "mutual":
            self.hit("type:mutual-recursion")
            td = r.choice(ctx.mutual)
            return self.spell_ref(td, td.kind != "union" and r.chance(2, 3), [])
        if c == "self":
            self.hit("type:recursive")
            td = ctx.td
            own = [NatE("param", p[0]) if p[1] == "nat" else TVar(p[0]) for p in td.params]    # `list X` inside `list {X:Type}`
            if own:
                self.hit("type:recursive-template")
            return self.spell_ref(td, td.kind != "union" and r.chance(2, 3), own)
        td = r.choice(self.user)
        templ = [t for t in self.user if t.nat_params()]
        if templ and ctx.natvars and r.chance(1, 2):
            td = r.choice(templ)      # hand `#` values down: external nat parameters through several levels
        self.hit("type:user-" + td.kind + ("-templ" if td.params else ""))
        return self.spell_ref(td, r.chance(3, 4), self.args_for(ctx, td, depth))

    # -- constructor bodies
    def gen_fields(self, ctx, nfields, named=True):
        r = self.rng
        fields = []
        last = ctx.td.params[-1] if ctx.td.params else None
        if nfields and last and last[1] == "nat" and last[2] in ("size", "both") and ctx.td.kind != "function" and r.chance(1, 3):
            self.hit("type:rep-implicit-last-param")
            fields.append(FieldD(self.field_name(ctx), TRep(NatE("param", last[0]), self.gen_type(ctx, 1, arg=True), implicit=True)))
            nfields -= 1
        for i in range(nfields):
            masks = [v for v in ctx.natvars if v["role"] in ("mask", "both")]
            mask = None
            if masks and r.chance(2, 5):
                m = r.choice(masks)
                mask = (m["e"], r.choice(BITS))
                self.hit("mask:" + m["e"].k)
                self.hit("maskbit:%d" % mask[1])
            if r.chance(1, 4):
                # a new `#` field, used by later fields as mask or as size
                role = "mask" if r.chance(3, 5) else "size"
                name = self.field_name(ctx)
                fields.append(FieldD(name, TPrim("nat"), mask))
                ctx.natvars.append({"e": NatE("field", name), "role": role})
                ctx.prev_nat = name
                self.hit("natfield:" + role + ("-masked" if mask else ""))
                continue
            if not mask and r.chance(1, 12) and ctx.td.kind != "function":
                # `# name:[T]` pattern
                self.hit("type:#[T]")
                fields.append(FieldD(self.field_name(ctx), TVec(self.gen_type(ctx, 1, arg=True, guard=True))))
                ctx.prev_nat = None
                continue
            # recursion is allowed under a mask only when the mask is a local `#` field: a value can then always stop (bit clear);
            # a mask that is a nat parameter may be instantiated with a constant that has the bit set, which makes the type uninhabited
            ty = self.gen_type(ctx, 0, guard=bool(mask) and mask[0].k == "field", masked=bool(mask))
            fields.append(FieldD(self.field_name(ctx), ty, mask))
            ctx.prev_nat = None
        return fields

    def gen_params(self):
        r = self.rng
        params = []
        if r.chance(2, 5):
            names = ["n", "m", "k", "F", "fm", "sz", "N", "dim"]
            tnames = ["X", "Y", "T", "t", "elem"]
            used = set()
            for _ in range(r.range(1, 3)):
                if r.chance(3, 5):
                    cand = [n for n in names if self.norm(n) not in used]
                    n = r.choice(cand)
                    role = r.choice(["mask", "mask", "size", "size", "both"]) if r.chance(1, 6) else r.choice(["mask", "size"])
                    params.append((n, "nat", role))
                else:
                    cand = [n for n in tnames if self.norm(n) not in used]
                    n = r.choice(cand)
                    params.append((n, "type", "bare" if r.chance(1, 3) else None))
                used.add(self.norm(n))
        return params

    def set_tag(self, c):
        if self.rng.chance(3, 10):
            t = c.implicit_tag()
            if t and t not in self.tags:
                c.tag, c.explicit = t, False
                self.tags.add(t)
                self.hit("tag:implicit")
                return
        c.tag, c.explicit = self.fresh_tag(), True
        self.hit("tag:explicit")

    def gen_struct(self):
        r = self.rng
        ns, tn, cn = self.fresh_type_names()
        td = TypeDef(ns, tn, self.gen_params(), "simple")
        ctx = Ctx(td)
        c = Comb(td, ns, cn)
        tparams = [p[0] for p in td.params if p[1] == "type"]
        if r.chance(1, 8) and len(tparams) <= 1:
            # typedef-like: a single anonymous field. A Type parameter the body never mentions ("phantom") is legal TL and the
            # kernel accepts it, but tl2gen panics when the argument type is not instantiated elsewhere
            # (type_rw_wrapper.go resolvedT2GoNameArg: "instance … must exist"), so the body always mentions it.
            self.hit("struct:typedef")
            for _ in range(30):
                ty = self.gen_type(ctx, 0)
                if not tparams or mentions_var(ty, tparams[0], td):
                    break
            else:
                ty = TVar(tparams[0])
            c.fields = [FieldD("", ty)]
        else:
            if r.chance(1, 8):
                # wide constructor: more than one TL2 presence-mask block (a block covers 8 field slots, slot 0 of the first is the variant bit)
                c.fields = self.gen_fields(ctx, r.range(9, 20))
                self.hit("struct:wide")
            else:
                c.fields = self.gen_fields(ctx, r.choice([0, 1, 2, 2, 3, 3, 4, 5, 6, 8]))
            self.hit("struct:plain" + ("-templ" if td.params else ""))
        self.fix_unused_params(td, [c], ctx)
        self.set_tag(c)
        return td

    def fix_unused_params(self, td, combs, ctx):
        """every `#` parameter is used according to its role at least once (otherwise its role is a fiction)"""
        for pn, pk, role in td.params:
            c = self.rng.choice(combs)
            cx = Ctx(td)
            cx.names |= {f.name for f in c.fields if f.name}
            cx.norm |= {self.norm(f.name) for f in c.fields if f.name}
            if len(c.fields) == 1 and c.fields[0].name == "":
                continue
            if pk == "nat":
                e = NatE("param", pn)
                if role in ("mask", "both"):
                    c.fields.append(FieldD(self.field_name(cx), self.prim(), (e, self.rng.choice(BITS))))
                if role in ("size", "both"):
                    c.fields.append(FieldD(self.field_name(cx), TRep(e, self.prim())))
            else:
                c.fields.append(FieldD(self.field_name(cx), TVar(pn)))

    def gen_mutual(self):
        """two simple types referring to each other under guards (masked field / vector / Maybe / dictionary)"""
        r = self.rng
        tds = []
        for _ in range(2):
            ns, tn, cn = self.fresh_type_names()
            td = TypeDef(ns, tn, [], "simple")
            Comb(td, ns, cn)
            tds.append(td)
        for td, other in ((tds[0], tds[1]), (tds[1], tds[0])):
            ctx = Ctx(td)
            ctx.mutual = [other]
            c = td.combs[0]
            c.fields = self.gen_fields(ctx, r.range(1, 4))
            # make sure the cycle really exists
            k = r.below(3)
            if k == 0:
                m = self.field_name(ctx)
                c.fields.append(FieldD(m, TPrim("nat")))
                c.fields.append(FieldD(self.field_name(ctx), self.spell_ref(other, r.chance(2, 3), []), (NatE("field", m), r.choice(BITS))))
            elif k == 1:
                c.fields.append(FieldD(self.field_name(ctx), self.spell_ref(self.P["Vector"], True, [self.spell_ref(other, r.chance(2, 3), [])])))
            else:
                c.fields.append(FieldD(self.field_name(ctx), self.spell_ref(self.P["Maybe"], False, [self.spell_ref(other, r.chance(2, 3), [])])))
        for td in tds:
            self.set_tag(td.combs[0])
        self.hit("struct:mutual-pair")
        return tds

    def gen_union(self):
        r = self.rng
        ns, tn, base = self.fresh_type_names(union=True)
        td = TypeDef(ns, tn, self.gen_params() if r.chance(1, 3) else [], "union")
        enum = r.chance(1, 4) and not td.params
        nv = r.range(2, 4)
        sufs = ["A", "B", "C", "One", "Two", "Nil", "Some", "Leaf", "Fork", "_x", "_y", "0", "1"]
        used = set()
        for i in range(nv):
            for _ in range(100):
                s = r.choice(sufs)
                cn = base + s if r.chance(4, 5) or True else s.lower() + tn
                full = (ns + "." if ns else "") + cn
                if s not in used and full not in self.used_names:
                    break
            used.add(s)
            self.used_names.add(full)
            c = Comb(td, ns, cn)
            ctx = Ctx(td)
            if enum:
                c.fields = []
            elif r.chance(1, 6):
                c.fields = [FieldD("", self.gen_type(ctx, 0, guard=i > 0))]
                self.hit("union:typedef-variant")
            else:
                # variant 0 must be finite without recursion: recursion only from later variants
                c.fields = self.gen_fields(ctx, r.choice([0, 1, 1, 2, 3]))
        ctx = Ctx(td)
        if td.params:
            self.fix_unused_params(td, td.combs[1:] or td.combs, ctx)
        for c in td.combs:
            self.set_tag(c)
        self.hit("union:enum" if enum else "union:fields" + ("-templ" if td.params else ""))
        return td

    def gen_function(self):
        r = self.rng
        ns, tn, cn = self.fresh_type_names()
        td = TypeDef(ns, cn, [], "function")
        td.name = cn
        ctx = Ctx(td)
        c = Comb(td, ns, cn)
        c.modifier = r.choice(MODIFIERS)
        c.fields = self.gen_fields(ctx, r.choice([0, 1, 2, 3, 4]))
        # result: boxed
        k = r.below(6)
        P = self.P
        if k == 0:
            res = TRef(P[r.choice(["Int", "Long", "String", "True", "Bool"])], False, [], use_cname=False)
        elif k == 1:
            res = TRef(P["Vector"], False, [self.gen_type(ctx, 1, arg=True)], use_cname=False, style=r.choice(["paren", "angle"]))
        elif k == 2:
            res = TRef(P["Tuple"], False, [self.gen_type(ctx, 1, arg=True), self.nat_for(ctx, "size")], use_cname=False, style=r.choice(["paren", "angle"]))
        elif k == 3:
            res = TRef(P["Maybe"], False, [self.gen_type(ctx, 1, arg=True)], use_cname=False, style=r.choice(["paren", "angle"]))
        else:
            cands = [t for t in self.user]
            if cands:
                t = r.choice(cands)
                res = TRef(t, False, self.args_for(ctx, t, 1), use_cname=False, style=r.choice(["paren", "angle"]))
                if t.params:
                    self.hit("function:result-depends-on-args")
            else:
                res = TRef(P["True"], False, [], use_cname=False)
        c.result = res
        self.set_tag(c)
        self.hit("function")
        return td

    def gen_user_of(self, t):
        """a non-template container so that template `t` is instantiated and reachable from a factory item"""
        ns, tn, cn = self.fresh_type_names()
        td = TypeDef(ns, tn, [], "simple")
        ctx = Ctx(td)
        c = Comb(td, ns, cn)
        c.fields = self.gen_fields(ctx, self.rng.range(1, 3))
        for _ in range(self.rng.range(1, 2)):
            c.fields.append(FieldD(self.field_name(ctx), self.spell_ref(t, t.kind != "union" and self.rng.chance(3, 4), self.args_for(ctx, t, 0))))
        self.set_tag(c)
        self.hit("struct:user-of-template")
        return td

    # -- coverage block: constructs whose presence must not be left to chance (sensitivity of the checks that use the generator)
    def new_simple(self, params=()):
        ns, tn, cn = self.fresh_type_names()
        td = TypeDef(ns, tn, list(params), "simple")
        c = Comb(td, ns, cn)
        return td, c, Ctx(td)

    def finish(self, *tds):
        for td in tds:
            for c in td.combs:
                self.set_tag(c)
            self.types.append(td)
            self.user.append(td)

    def cover_barevar(self):
        """`{X:Type} a:%X …`: the percent sign on a type variable decides bare/boxed of a boxed argument"""
        r = self.rng
        tb, c, ctx = self.new_simple([(r.choice(["X", "T", "elem"]), "type", "bare")])
        x = tb.params[0][0]
        c.fields = [FieldD(self.field_name(ctx), TVar(x, force_bare=True)),
                    FieldD(self.field_name(ctx), self.spell_ref(self.P["Vector"], True, [TVar(x, force_bare=True)])),
                    FieldD(self.field_name(ctx), TVar(x))]
        if r.chance(1, 2):
            c.fields.append(FieldD(self.field_name(ctx), TRep(self.const("size"), TVar(x, force_bare=True))))
        r.shuffle(c.fields)
        self.finish(tb)
        u, c, ctx = self.new_simple()
        simple = [t for t in self.user if t.kind == "simple" and not t.params and t is not tb]
        args = [TRef(self.P[r.choice(["Int", "Long", "String", "Double"])], False, [], use_cname=False), self.prim()]
        if simple:
            args.append(TRef(r.choice(simple), False, [], use_cname=False))
        for a in args:
            c.fields.append(FieldD(self.field_name(ctx), self.spell_ref(tb, r.chance(3, 4), [a])))
        self.finish(u)
        self.hit("cover:barevar")

    def cover_natpass(self):
        """`#` values handed down three levels as mask and as size, from fields and from constants"""
        r = self.rng
        b1, b2, b3 = r.choice(BITS), r.choice(BITS), r.choice(BITS)
        l3, c3, x3 = self.new_simple([("fm", "nat", "mask"), ("sz", "nat", "size")])
        c3.fields = [FieldD(self.field_name(x3), self.prim(), (NatE("param", "fm"), b1)),
                     FieldD(self.field_name(x3), TRep(NatE("param", "sz"), self.prim())),
                     FieldD(self.field_name(x3), TRep(NatE("param", "sz"), self.prim()), (NatE("param", "fm"), b2))]
        self.finish(l3)
        l2, c2, x2 = self.new_simple([("m", "nat", "mask"), ("s", "nat", "size")] if r.chance(1, 2) else [("s", "nat", "size"), ("m", "nat", "mask")])
        M, S = NatE("param", "m"), NatE("param", "s")
        c2.fields = [FieldD(self.field_name(x2), self.spell_ref(l3, r.chance(3, 4), [M, S])),
                     FieldD(self.field_name(x2), self.spell_ref(l3, r.chance(3, 4), [M, self.const("size")]), (M, b3)),
                     FieldD(self.field_name(x2), self.spell_ref(self.P["Vector"], True, [self.spell_ref(l3, r.chance(3, 4), [self.const("mask"), S])]))]
        self.finish(l2)
        l1, c1, x1 = self.new_simple()
        fm, sz = self.field_name(x1), self.field_name(x1)
        order = {"m": NatE("field", fm), "s": NatE("field", sz)}
        c1.fields = [FieldD(fm, TPrim("nat")), FieldD(sz, TPrim("nat")),
                     FieldD(self.field_name(x1), self.spell_ref(l2, r.chance(3, 4), [order[p[0]] for p in l2.params])),
                     FieldD(self.field_name(x1), self.spell_ref(l2, r.chance(3, 4), [order[p[0]] if p[0] == "s" else self.const("mask") for p in l2.params]))]
        self.finish(l1)
        self.hit("cover:natpass-3-levels")

    def cover_union_nat(self):
        """a union whose constructors take a nat parameter, used with a field and with a constant"""
        r = self.rng
        ns, tn, base = self.fresh_type_names(union=True)
        td = TypeDef(ns, tn, [("k", "nat", "mask")], "union")
        K = NatE("param", "k")
        for suf in ("A", "B", "C")[:r.range(2, 3)]:
            full = (ns + "." if ns else "") + base + suf
            self.used_names.add(full)
            c = Comb(td, ns, base + suf)
            ctx = Ctx(td)
            c.fields = [FieldD(self.field_name(ctx), self.prim(), (K, r.choice(BITS)))] + ([FieldD(self.field_name(ctx), self.prim())] if r.chance(1, 2) else [])
        self.finish(td)
        u, c, ctx = self.new_simple()
        m = self.field_name(ctx)
        c.fields = [FieldD(m, TPrim("nat")), FieldD(self.field_name(ctx), self.spell_ref(td, False, [NatE("field", m)])),
                    FieldD(self.field_name(ctx), self.spell_ref(td, False, [self.const("mask")]))]
        self.finish(u)
        self.hit("cover:union-nat")

    def cover_recursion(self):
        """recursion through a masked field, a vector, Maybe and a dictionary in one type"""
        r = self.rng
        td, c, ctx = self.new_simple()
        fm = self.field_name(ctx)
        me = lambda: self.spell_ref(td, r.chance(2, 3), [])
        c.fields = [FieldD(fm, TPrim("nat")), FieldD(self.field_name(ctx), me(), (NatE("field", fm), r.choice(BITS))),
                    FieldD(self.field_name(ctx), self.spell_ref(self.P["Vector"], True, [me()])),
                    FieldD(self.field_name(ctx), self.spell_ref(self.P["Maybe"], False, [me()])),
                    FieldD(self.field_name(ctx), self.spell_ref(self.P["Dictionary"], True, [me()])),
                    FieldD(self.field_name(ctx), self.spell_ref(self.P["True"], True, []), (NatE("field", fm), r.choice(BITS))),
                    FieldD(self.field_name(ctx), TRef(self.P["Bool"], False, [], use_cname=False))]
        self.finish(td)
        self.hit("cover:recursion")

    def wide_fields(self, ctx, n, mask=None, local_mask=True):
        """n fields for a wide constructor: cheap types, `m.K?true` bits and optional fields also late in the body.
        `mask`: a nat expression usable as mask from the start (a parameter); a local `#` mask field is added early when asked."""
        r = self.rng
        fields = []
        masks = [mask] if mask is not None else []
        at = r.below(min(5, n)) if local_mask else -1
        for i in range(n):
            if i == at:
                m = self.field_name(ctx)
                fields.append(FieldD(m, TPrim("nat")))
                masks.append(NatE("field", m))
                continue
            late = i >= 7
            k = r.below(10)
            if masks and (k < 3 or (late and k < 5)):
                fields.append(FieldD(self.field_name(ctx), self.spell_ref(self.P["True"], True, []), (r.choice(masks), r.choice(BITS))))
            elif masks and k < 6:
                fields.append(FieldD(self.field_name(ctx), r.choice([TPrim("int"), TPrim("string"), TPrim("long"), TPrim("double"),
                                                                    self.spell_ref(self.P["Vector"], True, [TPrim("int")])]),
                                     (r.choice(masks), r.choice(BITS))))
            else:
                fields.append(FieldD(self.field_name(ctx), r.choice([TPrim("int"), TPrim("int"), TPrim("string"), TPrim("long"), TPrim("float"),
                                                                    TRef(self.P["Bool"], False, [], use_cname=False),
                                                                    self.spell_ref(self.P["Vector"], True, [TPrim(r.choice(["int", "string"]))])])))
        return fields

    def cover_wide(self):
        """constructors with 9–20 fields (two or three TL2 presence-mask blocks): plain, with local and external masks, as union variants"""
        r = self.rng
        w1, c1, x1 = self.new_simple()
        c1.fields = self.wide_fields(x1, r.range(9, 20))
        self.finish(w1)
        # external mask: `{n:#} … flag:n.K?true …`, used with a field and with a constant
        w2, c2, x2 = self.new_simple([("n", "nat", "mask")])
        c2.fields = self.wide_fields(x2, r.range(9, 14), mask=NatE("param", "n"), local_mask=r.chance(1, 2))
        self.finish(w2)
        # wide union variants (a non-first variant needs 8 slots for a second block)
        ns, tn, base = self.fresh_type_names(union=True)
        u = TypeDef(ns, tn, [], "union")
        for suf in ("A", "B", "C")[:r.range(2, 3)]:
            self.used_names.add((ns + "." if ns else "") + base + suf)
            c = Comb(u, ns, base + suf)
            c.fields = self.wide_fields(Ctx(u), r.choice([0, 2, 8, 9, 12, 17]) if suf == "A" else r.range(8, 16))
        self.finish(u)
        h, ch, xh = self.new_simple()
        m = self.field_name(xh)
        ch.fields = [FieldD(m, TPrim("nat")), FieldD(self.field_name(xh), self.spell_ref(w1, r.chance(3, 4), [])),
                     FieldD(self.field_name(xh), self.spell_ref(w2, r.chance(3, 4), [NatE("field", m)])),
                     FieldD(self.field_name(xh), self.spell_ref(self.P["Vector"], True, [self.spell_ref(w2, True, [self.const("mask")])])),
                     FieldD(self.field_name(xh), self.spell_ref(u, False, [])),
                     FieldD(self.field_name(xh), self.spell_ref(self.P["Vector"], True, [self.spell_ref(u, False, [])]))]
        self.finish(h)
        self.hit("cover:wide")

    def run(self):
        r = self.rng
        n = 0
        while n < self.size:
            if self.size - n >= 2 and r.chance(1, 8):
                tds = self.gen_mutual()
            else:
                tds = [self.gen_union() if r.chance(1, 4) else self.gen_struct()]
            for td in tds:
                self.types.append(td)
                self.user.append(td)
                n += 1
        if self.cover:
            self.cover_barevar()
            self.cover_natpass()
            self.cover_union_nat()
            self.cover_recursion()
            self.cover_wide()
        # make sure every template is instantiated somewhere
        for t in list(self.user):
            if t.params and not self.is_referenced(t):
                td = self.gen_user_of(t)
                self.types.append(td)
                self.user.append(td)
        for _ in range(r.choice([0, 1, 1, 2, 3]) if self.size > 1 else 0):
            self.types.append(self.gen_function())
        return self.types

    def is_referenced(self, t):
        def walk(e):
            if isinstance(e, TRef):
                return e.tdef is t or any(walk(a) for a in e.args if not isinstance(a, NatE))
            if isinstance(e, (TRep, TVec)):
                return walk(e.elem)
            return False
        for td in self.types:
            if td.params or td is t:
                continue
            for c in td.combs:
                if any(walk(f.ty) for f in c.fields):
                    return True
        return False


def gen_schema_ex(rng, size, features=None, has_tl2=False):
    """`has_tl2`: descriptor of the schema as generated with --tl2WhiteList=* (every instance has TL2 code, masked fields carry
    their position in the hidden TL2 presence mask)"""
    g = SchemaGen(rng, size, features)
    types = g.run()
    return schema_text(types), descriptor(types, has_tl2), g


def gen_schema(rng, size):
    """-> (tl_text, desc_json): a random TL1 schema and the generator's own descriptor (format of `hcodec desc`)"""
    text, desc, _ = gen_schema_ex(rng, size)
    return text, desc


if __name__ == "__main__":
    import sys
    sys.path.insert(0, __file__.rsplit("/", 2)[0])
    from vlib.core import SplitMix64
    seed = int(sys.argv[1]) if len(sys.argv) > 1 else 0
    size = int(sys.argv[2]) if len(sys.argv) > 2 else 6
    t, d, g = gen_schema_ex(SplitMix64(seed), size)
    sys.stdout.write(t)
    if len(sys.argv) > 3:
        json.dump(d, open(sys.argv[3], "w"))
