"""Regenerates known_findings.d/C28.json and C30.json from the witness table in lintlib.py (run by hand:
`python3 -m checks.lint_mkknown <path to built hlint binary>`). The keys are the exact case lines."""
import json
import os
import sys
from checks import lintlib as L

WHAT = {
    "L5-second-arg": "checkBoxUsage follows only the first non-arithmetic type argument (and compareTypes ignores %): Foo becomes a union although used bare in the 2nd argument of (pair int %Foo), the field becomes (pair int Foo) - accepted",
    "L5-repeat": "checkAllTypeRefs does not look inside [ ] repeats: Foo becomes a union although used bare in n*[%Foo] (which becomes n*[Foo]) - accepted",
    "L7-bare-to-boxed": "compareTypes never compares TypeRef.Bare: field p:%Foo changed to p:Foo (wire gains the 4-byte constructor tag) - accepted",
    "repeat-element": "the contents of [ ] repeats are never compared: xs:n*[int] changed to xs:n*[long] - accepted",
    "repeat-scale": "the scale of a repeat is never compared: xs:n*[int] changed to xs:m*[int] - accepted",
    "tag-changed": "constructor tags are never compared: foo#00000001 changed to foo#00000002 (boxed encodings change) - accepted",
    "size-bit": "bits of a # field used as an array size are not treated as used: new field y:n.0?int on the size field n of xs:n*[int] - accepted",
    "constant-bit": "bits set by arithmetic constants passed to a # template argument are not treated as used: (T 5) with new field b:n.0?int - accepted",
    "fewer-args-panic": "compareTypes indexes newType.Args[i] for every old argument: removing a template argument of a type declared after a combinator that references it makes the linter panic (index out of range) instead of reporting an error",
}

if __name__ == "__main__":
    impl = [sys.argv[1]]
    lines = L.witness_lines(impl)
    root = os.path.dirname(os.path.dirname(os.path.abspath(__file__)))
    os.makedirs(os.path.join(root, "known_findings.d"), exist_ok=True)
    for pid, names in (("C28", L.C28_WITNESSES), ("C30", L.C30_WITNESSES)):
        fs = []
        for n in names:
            key = lines[n] if pid == "C30" else lines[n].replace("lint.check ", "lint.compat ", 1)
            fs.append({"property": pid, "key": key, "what": n + ": " + WHAT[n]})
        json.dump({"findings": fs}, open(os.path.join(root, "known_findings.d", pid + ".json"), "w"), indent=1)
    print("written")
