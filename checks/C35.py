"""C35 — Packet stream framing round-trips and detects corruption (DESIGN.md §4 C35).

Case lines (family `packet`, harness go/hpacket, model lean/TLVerif/Packet):

  packet.conn <n0>:<proto>:<crcC> <script> <chunks> <corrupt> <rbuf> <wbuf>
      whole connection history: injected start state, writer-side script (WritePacket / NoFlush / WritePacket2 /
      Flush / raw bytes / mode changes incl. AES-CBC on), delivery chunk sizes, one corruption, buffer sizes.
      result: wire bytes, failed writes, packets read + final error, bytes the reader wrote back (pongs).
  packet.read <n0>:<proto>:<crcC> <mode ops> <stream> <chunks> <rbuf>
      reader only, on an arbitrary byte stream.
  packet.wlen <proto> <len>
      WritePacketHeaderUnlocked length validation only.
  packet.hs <seed> <enc> <proto> <crc32c-flag> <client packets> <server packets> <chunk> <corrupt>
      the real HandshakeClient/HandshakeServer over net.Pipe with fixed keys, then packets both ways.

The oracle below re-implements the *property* (not the model) in Python: frame layout with zlib/own CRC,
round trip, chunk invariance, "no altered packet is ever delivered", "a flipped byte after the handshake is an error".
"""
import zlib
from vlib.core import hx

MODULES = ["TLVerif.Props.C35"]
THEOREMS = ["TLVerif.Props.C35." + t for t in [
    "frames_roundtrip_plain", "frames_roundtrip_encrypted", "chunk_invariant", "reader_refines_stream",
    "chunk_dependence_magic", "cbc_roundtrip", "writer_total", "accepted_packet_has_valid_crc_and_seq",
    "frame_accepted", "flipped_frame_rejected", "corrupt_detected_partial", "real_crc_detects", "corrupt_detected_real",
    "word_roundtrip"]]

NONCE = 0x7acb87aa
HS = 0x7682eef5
PING = 0x5730a2df
PONG = 0x8430eaa7
OVERHEAD = 16
MAXLEN = 16 * 1024 * 1024 - 1

_c_table = []
for _i in range(256):
    _c = _i
    for _ in range(8):
        _c = (_c >> 1) ^ 0x82F63B78 if _c & 1 else _c >> 1
    _c_table.append(_c)


def crc32c(b):
    c = 0xFFFFFFFF
    for x in b:
        c = _c_table[(c ^ x) & 0xFF] ^ (c >> 8)
    return c ^ 0xFFFFFFFF


def le32(n):
    return (n & 0xFFFFFFFF).to_bytes(4, "little")


def unhex(s):
    return b"" if s == "-" else bytes.fromhex(s)


def frame(n, tip, body, crcc, enc, badcrc=0, badalign=None, seq=None, length=None):
    """the documented layout, independently of the model"""
    h = le32(len(body) + OVERHEAD if length is None else length) + le32((n - 2) if seq is None else seq) + le32(tip)
    c = (crc32c(h + body) if crcc else zlib.crc32(h + body)) ^ badcrc
    al = (-len(body)) % 4 if enc else 0
    pad = bytes(al) if badalign is None else bytes([badalign] * al)
    return h + body + le32(c) + pad


class Script:
    """writer-side history + what the property predicts for it"""

    def __init__(self, n0, proto, crcc):
        self.n0, self.proto0, self.crcc0 = n0, proto, crcc
        self.ops = []  # rendered strings
        self.n = n0
        self.proto, self.crcc, self.enc = proto, crcc, False
        self.written = []  # (index of op, tip, body) expected to be accepted by the writer
        self.plain = b""  # expected plaintext stream while no raw/enc surprises (None when unknown)
        self.pos = 0  # plaintext bytes since encryption start
        self.pending_pad = False
        self.hs_end = None  # plaintext/wire offset of the end of the handshake (n == 2), if n0 < 2
        self.kind = "rt"
        self.raw = False
        self.unflushed = False
        self.neg = False  # outside the property: encryption switched on with a packet not yet flushed

    def _emit(self, b):
        if self.plain is not None:
            self.plain += b
        self.pos += len(b)

    def _flush(self):
        if self.enc:
            pad = (-self.pos) % 16
            self._emit((le32(4) * 3)[:pad])
        if self.n >= 2 and self.hs_end is None:
            self.hs_end = len(self.plain)
        self.unflushed = False

    def write(self, tip, body, how="w", split=None):
        if how == "2":
            k = split if split is not None else len(body) // 2
            self.ops.append("2:%08x:%s:%s" % (tip, hx(body[:k]), hx(body[k:])))
        else:
            self.ops.append("%s:%08x:%s" % (how, tip, hx(body)))
        if len(body) > MAXLEN - OVERHEAD or (self.proto == 0 and len(body) % 4 != 0):
            return False
        self.written.append((len(self.ops) - 1, tip, body))
        self._emit(frame(self.n, tip, body, self.crcc, self.enc))
        self.n += 1
        self.unflushed = True
        if how != "n":
            self._flush()
        return True

    def flush(self):
        self.ops.append("f")
        self._flush()

    def rawbytes(self, b):
        self.ops.append("r:" + hx(b))
        self._flush()
        self._emit(b)
        self.raw = True

    def set_proto(self, v):
        self.ops.append("v%d" % v)
        self.proto = v

    def set_crcc(self):
        self.ops.append("c")
        self.crcc = True

    def encrypt(self, key, iv):
        self.ops.append("e:%s:%s" % (key.hex(), iv.hex()))
        if self.unflushed:
            self.neg = True
        self.enc = True
        self.enc_start = len(self.plain)
        self.pos = 0
        self.key, self.iv = key, iv

    def start(self):
        return "%d:%d:%d" % (self.n0, self.proto0, 1 if self.crcc0 else 0)

    def text(self):
        return ",".join(self.ops) if self.ops else "-"

    def final(self):
        self._flush()


def body_len(rng, proto, big):
    k = rng.below(12)
    if k == 0:
        l = 0
    elif k <= 4:
        l = rng.below(20)
    elif k <= 7:
        l = rng.below(70)
    elif k <= 9:
        l = rng.choice([12, 16, 28, 32, 44, 48, 60, 64, 1004, 1007, 1008, 1020, 255, 256, 257])
    elif k == 10:
        l = rng.below(2000)
    else:
        l = rng.below(big)
    if proto == 0:
        l -= l % 4
    return l


def rnd_tip(rng, n):
    k = rng.below(10)
    if k == 0:
        return rng.choice([0, 1, 4, 0xFFFFFFFF, 0x80000000, NONCE, HS, PING ^ 1, PONG ^ 0x100])
    return rng.below(2**32)


def gen_script(rng, big, want_enc=None, builtin=False, short=False):
    """a mostly valid connection history"""
    handshake = rng.chance(1, 2)
    enc = rng.chance(1, 2) if want_enc is None else want_enc
    key, iv = rng.bytes(32), rng.bytes(16)
    if handshake:
        s = Script(0, 0, False)
        proto = rng.choice([0, 1, 1, 2])
        l = rng.choice([0, 4, 28, 60, 1004, 4 * rng.below(252)])
        s.write(NONCE, rng.bytes(l))
        if proto:
            s.set_proto(proto)
        if enc:
            s.encrypt(key, iv)
        l = rng.choice([28, 28, 0, 4 * rng.below(40), rng.below(200)])
        if proto == 0:
            l -= l % 4
        s.write(HS, rng.bytes(l))
        if rng.chance(2, 3):
            s.set_crcc()
    else:
        n0 = rng.choice([2, 2, 3, 5, 2**31 + 1, 2**31 + 2, 2**32 - 1, 2**32, 2**32 + 1, 2**32 + 2, 2 + rng.below(1000), rng.below(2**40) + 2])
        s = Script(n0, rng.choice([0, 1, 1, 2]), rng.chance(1, 2))
        if enc:
            s.encrypt(key, iv)
    npk = rng.below(3) if short else rng.below(7)
    for _ in range(npk):
        how = rng.choice(["w", "w", "w", "n", "n", "2"])
        if builtin and rng.chance(1, 3):
            k = rng.below(6)
            if k <= 2:
                s.write(PING, rng.bytes(8), how)
            elif k == 3:
                s.write(PING, rng.bytes(rng.choice([0, 4, 12, 16])), how)
            elif k == 4:
                s.write(PONG, rng.bytes(8), how)
            else:
                s.write(PONG, rng.bytes(rng.choice([0, 4, 12])), how)
            s.kind = "builtin"
        else:
            l = body_len(rng, s.proto, 300 if short else big)
            if s.proto == 0 and rng.chance(1, 12):
                l += rng.range(1, 3)  # writer must refuse
            tip = rnd_tip(rng, s.n)
            if tip in (PING, PONG):
                tip ^= 2
            s.write(tip, rng.bytes(l), how)
        if rng.chance(1, 6):
            s.flush()
    s.final()
    return s


def chunkings(rng, n):
    res = []
    for _ in range(n):
        k = rng.below(6)
        if k == 0:
            res.append([1])
        elif k == 1:
            res.append([1 << 20])
        elif k == 2:
            res.append([rng.range(1, 40)])
        elif k == 3:
            res.append([16])
        else:
            res.append([rng.choice([1, 2, 3, 4, 5, 7, 8, 11, 12, 13, 15, 16, 17, 31, 32, 33, 100, 1000]) for _ in range(rng.range(2, 6))])
    return res


MAGICS = [b"stats\r\n", b"stats\n", b"get stats\r\n", b"version\r\n"]


def gen_malformed(rng):
    """a reader-only case: valid frames, then one malformed element; the last word of the line is the number of
    packets that must be delivered before the error (`-` when nothing is claimed); both sides ignore it"""
    n0 = rng.choice([0, 0, 1, 2, 2, 3, 7, 2**32 + 1, rng.below(1000)])
    proto = rng.choice([0, 1, 2])
    crcc = rng.chance(1, 2)
    stream = b""
    exp = []
    n = n0
    for _ in range(rng.below(3)):
        l = 4 * rng.below(12) if proto == 0 else rng.below(40)
        tip = NONCE if n == 0 else HS if n == 1 else (rng.below(2**32) | 1) ^ (PING & 0)  # avoid ping/pong below
        if tip in (PING, PONG):
            tip ^= 4
        body = rng.bytes(l)
        if n > 0:
            stream += le32(4) * rng.choice([0, 0, 0, 1, 2, 3])
        stream += frame(n, tip, body, crcc, False)
        exp.append((tip, body))
        n += 1
    l = 4 * rng.below(12) if proto == 0 else rng.below(40)
    tip = NONCE if n == 0 else HS if n == 1 else rng.below(2**32)
    if tip in (PING, PONG):
        tip ^= 4
    body = rng.bytes(l)
    k = rng.below(16)
    claim = True
    if k == 0:
        bad = frame(n, tip, body, crcc, False, badcrc=rng.range(1, 2**32 - 1))
    elif k == 1:
        bad = frame(n, tip, body, crcc, False, seq=(n - 2 + rng.range(1, 2**32 - 1)) & 0xFFFFFFFF)
    elif k == 2:
        bad = frame(n, tip, body, crcc, False, length=rng.choice([0, 1, 2, 3, 5, 8, 12, 15]))
    elif k == 3:
        bad = frame(n, tip, body, crcc, False, length=rng.choice([MAXLEN + 1, 2**24, 2**31, 2**32 - 1, 2**32 - 4]))
    elif k == 4:
        bad = le32(4) * rng.choice([4, 5, 8]) + frame(n, tip, body, crcc, False)
        claim = n > 0
    elif k == 5:
        f = frame(n, tip, body, crcc, False)
        bad = f[:rng.below(len(f))]
        claim = False  # truncation on a boundary of padding may be a clean EOF
    elif k == 6:
        bad = frame(n, tip ^ 0x10, body, crcc, False) if n < 2 else frame(n, PONG, rng.bytes(8), crcc, False)
    elif k == 7:
        bad = frame(n, PING, rng.bytes(rng.choice([0, 4, 12])), crcc, False)
        claim = n >= 2
    elif k == 8:
        bad = frame(n, tip, rng.bytes(1024 - 16 + 4 * rng.below(4)), crcc, False)
        claim = n < 2
    elif k == 9:
        bad = frame(n, tip, rng.bytes(4 * rng.below(8) + rng.range(1, 3)), crcc, False)
        claim = proto == 0
    elif k == 10:
        bad = rng.choice(MAGICS) + rng.bytes(rng.below(20))
        claim = False
    elif k == 11:
        bad = rng.bytes(rng.below(40))
        claim = False
    elif k == 12:
        bad = frame(n, tip, body, not crcc, False)  # the other CRC table
    elif k == 13:
        bad = le32(4) + frame(n, tip, body, crcc, False)[:rng.below(12)]
        claim = False
    elif k == 14:
        bad = frame(n + 1, tip, body, crcc, False)
    else:
        bad = frame(n, tip, body, crcc, False, length=4) + rng.bytes(8)
        claim = False
    stream += bad
    if rng.chance(1, 2):
        stream += frame(n + 1, 5, b"", crcc, False)
    if n0 == 0 and k in (10,) and not exp:
        chunks = [rng.choice([6, 7, 9, 11, 12, 5, 3])]
    else:
        chunks = chunkings(rng, 1)[0]
    return "packet.read %d:%d:%d - %s %s %d %s" % (n0, proto, 1 if crcc else 0, hx(stream), ",".join(map(str, chunks)),
                                                    rng.choice([12, 16, 17, 64, 4096]), str(len(exp)) if claim else "-")


def gen_raw_enc(rng):
    """plaintext-level malformations inside an AES-CBC stream (raw test hook of the writer)"""
    n0 = rng.choice([2, 3, 9])
    s = Script(n0, rng.choice([0, 1, 2]), rng.chance(1, 2))
    s.encrypt(rng.bytes(32), rng.bytes(16))
    for _ in range(rng.below(3)):
        l = 4 * rng.below(10) if s.proto == 0 else rng.below(30)
        s.write(rng.below(2**32) | 0x100, rng.bytes(l), rng.choice(["w", "n"]))
    exp = [(t, b) for (_, t, b) in s.written]
    l = rng.below(30)
    if s.proto == 0:
        l -= l % 4
    body = rng.bytes(l)
    k = rng.below(5)
    if k == 0 and l % 4:
        bad = frame(s.n, 99, body, s.crcc, True, badalign=rng.range(1, 255))
    elif k == 1:
        bad = le32(4) * rng.choice([4, 5, 7]) + frame(s.n, 99, body, s.crcc, True)
    elif k == 2:
        bad = frame(s.n, 99, body, s.crcc, True, badcrc=1 << rng.below(32))
    elif k == 3:
        bad = frame(s.n, 99, body, s.crcc, True, seq=s.n)
    else:
        bad = frame(s.n, 99, body, s.crcc, True)[:-4] + rng.bytes(3) + bytes([rng.range(0, 255)])
        if bad == frame(s.n, 99, body, s.crcc, True):
            bad = bad[:-1] + bytes([bad[-1] ^ 1])
        if len(frame(s.n, 99, body, s.crcc, True)) - 4 < 16 + l:  # we overwrote CRC bytes, still invalid
            pass
    bad += bytes(-len(bad) % 4)
    s.rawbytes(bad)
    s.final()
    return s


def script_from_text(st, text):
    """rebuild the prediction object from the case line itself (so that replays are judged like fresh cases)"""
    n0, pr, cc = [int(x) for x in st.split(":")]
    s = Script(n0, pr, cc != 0)
    first_raw_written = None
    for o in ([] if text == "-" else text.split(",")):
        f = o.split(":")
        if f[0] in ("w", "n"):
            s.write(int(f[1], 16), unhex(f[2]), f[0])
        elif f[0] == "2":
            b1, b2 = unhex(f[2]), unhex(f[3])
            s.write(int(f[1], 16), b1 + b2, "2", split=len(b1))
        elif f[0] == "f":
            s.flush()
        elif f[0] == "r":
            if first_raw_written is None:
                first_raw_written = len(s.written)
            s.rawbytes(unhex(f[1]))
        elif f[0] == "c":
            s.set_crcc()
        elif f[0] == "e":
            s.encrypt(bytes.fromhex(f[1]), bytes.fromhex(f[2]))
        elif f[0].startswith("v"):
            s.set_proto(int(f[0][1:]))
    s.final()
    s.first_raw_written = first_raw_written
    return s


def conn_meta(line):
    f = line.split(" ")
    s = script_from_text(f[1], f[2])
    cor = f[4]
    ck, off = None, None
    if cor != "-":
        ck = cor[0]
        off = int(cor[1:].split(":")[0])
    return s, (f[1], f[2]), ck, off


BUFS = [1, 2, 7, 12, 16, 17, 31, 64, 100, 4096, 65536]


def conn_line(s, chunks, cor, rb, wb):
    return "packet.conn %s %s %s %s %d %d" % (s.start(), s.text(), ",".join(map(str, chunks)), cor, rb, wb)


def parse_conn_out(a):
    f = a.split(" ")
    if len(f) != 5 or f[0] != "ok" or not f[1].startswith("wire=") or not f[3].startswith("r="):
        return None
    f = f[1:]
    wire = unhex(f[0][5:])
    werr = [] if f[1] == "w=-" else [int(x.split(":")[0]) for x in f[1][2:].split(",")]
    evs = f[2][2:].split(",")
    pk = []
    for e in evs[:-1]:
        p = e.split(":")
        pk.append((int(p[1], 16), unhex(p[2])))
    return wire, werr, pk, evs[-1][2:], unhex(f[3][5:])


def run(c):
    c.facts(["Packet"])
    c.lean(MODULES, THEOREMS)
    model = c.model_exe()
    impl = c.harness("hpacket", overlays={"pkg/rpc/verif_hooks.go": c_root() + "/go/hpacket/overlay/verif_hooks.go"})
    rng = c.rng
    c.trusted += ["go/hpacket harness + in-package overlay verif_hooks.go (state injection, encrypt with given keys, raw write)",
                  "factgen constant extraction (facts.d/Packet.json)",
                  "modelled, not verified: hash/crc32, crypto/aes, crypto/cipher (CBC), net.Conn semantics (one Read = at most one chunk)"]
    c.assumptions += [
        "not a theorem, explored only: a changed byte in the length word, and any changed ciphertext byte under AES-CBC, is "
        "detected with probability 1-2^-32 (every such single-byte change of short histories is tried; none was accepted)",
        "no read timeout is used, so the reader never sends pings and every pong is unexpected (as in the model)",
        "the AES instance of the model is not proved to satisfy the block-cipher law; its agreement with crypto/aes is sampled "
        "(exact ciphertext comparison); the bitwise CRC instance is proved to detect single-byte changes, its agreement with "
        "hash/crc32 is sampled",
        "bodies above ~6 kB (quick) / 70 kB (thorough) and the 16 MB limit itself are covered by the theorems and by the "
        "length-validation cases (`packet.wlen`), not by full-content runs",
        "the real-handshake cases use a deterministic crypto/rand and one fixed crypto key; nonce time and pid vary from run "
        "to run, therefore behaviour under corruption behind the real handshake is judged by the oracle, not compared with the model"]
    replay_lines = []
    if c.replay:
        for f in c.replay.get("failures", []):
            if f.get("input"):
                replay_lines.append(f["input"])
        for t in c.replay.get("broken_ties", []):
            replay_lines.append(t["line"])

    big = 70000 if c.thorough else 6000
    lines = [l for l in replay_lines if l.startswith("packet.conn ")]
    seen = set(lines)

    def add(s, chunks, cor, rb, wb, gid, ck=None, off=None):
        ln = conn_line(s, chunks, cor, rb, wb)
        if ln not in seen:
            seen.add(ln)
            lines.append(ln)

    # ---- phase A: mostly valid histories, several chunkings / buffer sizes each
    nscripts = 450 if c.thorough else 120
    gid = 0
    scripts = []
    for i in range(nscripts):
        s = gen_script(rng, big, builtin=(i % 4 == 3))
        scripts.append(s)
        gid += 1
        for ch in chunkings(rng, 4 if c.thorough else 3):
            add(s, ch, "-", rng.choice(BUFS), rng.choice(BUFS), gid)
    for i in range(120 if c.thorough else 30):
        # encryption switched on while a packet written with NoFlush is still buffered (encStart != 0 in cryptoWriter)
        s = Script(rng.choice([2, 3, 50]), rng.choice([0, 1, 2]), rng.chance(1, 2))
        for _ in range(rng.range(1, 2)):
            s.write(rng.below(2**32) | 0x200, rng.bytes(body_len(rng, s.proto, 100)), "n")
        s.encrypt(rng.bytes(32), rng.bytes(16))
        for _ in range(rng.below(3)):
            s.write(rng.below(2**32) | 0x200, rng.bytes(body_len(rng, s.proto, 100)), rng.choice(["w", "n"]))
        s.final()
        gid += 1
        add(s, chunkings(rng, 1)[0], "-", rng.choice(BUFS), rng.choice(BUFS), gid)
    # ---- phase B: single-byte corruptions and truncations of short histories, every offset
    ncor = 150 if c.thorough else 36
    for i in range(ncor):
        s = gen_script(rng, 300, short=True, builtin=(i % 5 == 4), want_enc=(i % 2 == 0))
        if s.plain is None:
            continue
        gid += 1
        n = len(s.plain)
        offs = range(n) if n <= 400 else sorted(set(rng.below(n) for _ in range(300)))
        ch = chunkings(rng, 1)[0]
        rb, wb = rng.choice(BUFS), rng.choice(BUFS)
        add(s, ch, "-", rb, wb, gid)
        for o in offs:
            for _ in range(2 if c.thorough else 1):
                x = rng.choice([1, 2, 4, 8, 16, 32, 64, 128, rng.range(1, 255), rng.range(1, 255)])
                add(s, ch if rng.chance(1, 2) else chunkings(rng, 1)[0], "x%d:%02x" % (o, x), rb, wb, gid, "x", o)
            if rng.chance(1, 2) or n <= 120:
                add(s, ch, "t%d" % o, rb, wb, gid, "t", o)
    res = c.tie("conn", lines, impl, model)

    # ---------------- oracle on the implementation's outputs (everything is derived from the case line itself)
    groups = {}

    def judge_conn(l, a):
        s, g, ck, off = conn_meta(l)
        p = parse_conn_out(a)
        if p is None:
            c.oracle_fail(l, "connection history not executed: " + a[:80], l)
            return
        wire, werr, pk, fin, pong = p
        c.count("final:" + fin)
        acc = [(t, b) for (i, t, b) in s.written if i not in werr]
        if len(werr) != len([1 for o in s.ops if o[0] in "wn2"]) - len(s.written):
            c.oracle_fail(l, "writer accepted/refused a different set of packets than the length rules say", l)
        if s.raw:
            # generator-made malformation of the plaintext (test hook): the packets written before it, then an error
            want = [(t, b) for (i, t, b) in s.written[:s.first_raw_written] if i not in werr]
            if ck is None and (pk != want or fin == "eof"):
                c.oracle_fail(l, "malformed plaintext inside the stream: %d packets delivered, final %s" % (len(pk), fin), l)
            return
        if s.neg:
            # the CRC of the unflushed packet goes out encrypted while the peer still expects it in the clear: the
            # property does not apply; only "nothing altered is delivered" is required (the tie compares the rest)
            allp = [(t, b) for (t, b) in acc if not (t == PING and len(b) == 8)]
            if pk != allp[:len(pk)]:
                c.oracle_fail(l, "an altered packet was delivered", l)
            return
        # what a reader must deliver: everything up to the first packet the transport itself consumes or refuses
        exp = []
        stop = None
        for (t, b) in acc:
            if t == PING and len(b) == 8:
                continue
            if t in (PING, PONG):
                stop = "err"
                break
            exp.append((t, b))
        if ck is None:
            if not s.enc and wire != s.plain:
                c.oracle_fail(l, "unencrypted wire bytes are not length|seq|type|body|crc32 frames back to back", l)
            if s.enc and (len(wire) != len(s.plain) or wire[:s.enc_start] != s.plain[:s.enc_start] or (len(wire) - s.enc_start) % 16):
                c.oracle_fail(l, "encrypted wire: wrong length/prefix/block alignment", l)
            if pk != exp or (stop is None and fin != "eof") or (stop == "err" and fin in ("eof", "ueof")):
                c.oracle_fail(l, "packets written are not read back identically and in order (got %d packets, final %s)" % (len(pk), fin), l)
            groups.setdefault(g, []).append(((tuple(pk), fin, pong), l))
        else:
            if pk != exp[:len(pk)]:
                c.oracle_fail(l, "an altered packet was delivered after corruption at offset %d" % off, l)
            hs_end = s.hs_end if s.n0 < 2 else 0
            if ck == "x" and hs_end is not None and off >= hs_end and off < len(wire) and fin == "eof":
                c.oracle_fail(l, "flipped byte at offset %d after the handshake was not reported as an error" % off, l)
            if ck == "t" and fin not in ("eof", "ueof") and stop is None:
                c.oracle_fail(l, "truncated stream reported as %s" % fin, l)

    for l, a, _ in res:
        judge_conn(l, a)
    for g, outs in groups.items():
        if len(set(o for o, _ in outs)) > 1:
            c.oracle_fail(outs[0][1], "result of reading depends on the segmentation of the byte stream / buffer sizes", outs[0][1])
    # ---- phase C: malformed streams (reader only), plaintext-level malformations under AES-CBC, length validation
    lines2 = [l for l in replay_lines if l.startswith("packet.read ")]
    for _ in range(3000 if c.thorough else 700):
        ln = gen_malformed(rng)
        if ln not in seen:
            seen.add(ln)
            lines2.append(ln)
    res2 = c.tie("read", lines2, impl, model)
    for l, a, _ in res2:
        if not a.startswith("ok r="):
            c.oracle_fail(l, "reader-only case not executed: " + a[:60], l)
            continue
        evs = a.split(" ")[1][2:].split(",")
        c.count("read-final:" + evs[-1][2:])
        claim = (l.split(" ") + ["-"])[6]
        if claim != "-" and (len(evs) - 1 != int(claim) or evs[-1] == "e:eof"):
            c.oracle_fail(l, "malformed packet: delivered %d packets (expected the %s valid ones before it), final %s" % (
                len(evs) - 1, claim, evs[-1]), l)
    lines3 = []
    for _ in range(800 if c.thorough else 150):
        s3 = gen_raw_enc(rng)
        ln = conn_line(s3, chunkings(rng, 1)[0], "-", rng.choice(BUFS), rng.choice(BUFS))
        if ln not in seen:
            seen.add(ln)
            lines3.append(ln)
    res3 = c.tie("raw", lines3, impl, model)
    for l, a, _ in res3:
        judge_conn(l, a)
    lines4 = [l for l in replay_lines if l.startswith("packet.wlen ")]
    for pr in (0, 1, 2):
        for ln_ in list(range(0, 40)) + [MAXLEN - OVERHEAD - d for d in range(-6, 7)] + [2**24, 2**31 - 1, 2**31, 2**32, 2**40] + \
                [rng.below(2**25) for _ in range(40)]:
            if ln_ >= 0:
                lines4.append("packet.wlen %d %d" % (pr, ln_))
    res4 = c.tie("wlen", lines4, impl, model)
    for l, a, _ in res4:
        pr, ln_ = int(l.split(" ")[1]), int(l.split(" ")[2])
        want = "err large" if ln_ > MAXLEN - OVERHEAD else "err size4" if (pr == 0 and ln_ % 4) else "ok"
        if a != want:
            c.oracle_fail(l, "body length %d (protocol %d): writer says %s" % (ln_, pr, a), l)
    # ---- phase D: the real HandshakeClient/HandshakeServer (fixed crypto key, deterministic crypto/rand), then packets
    def plain_after_hs(proto, enc, pkts):
        sc = Script(2, proto, True)
        sc.enc = enc
        for (t, b) in pkts:
            sc.write(t, b, "w")
        return sc.plain

    def rnd_pkts(proto, k):
        res = []
        for _ in range(k):
            l = body_len(rng, proto, 400)
            t = rng.below(2**32)
            if t in (PING, PONG):
                t ^= 8
            res.append((t, rng.bytes(l)))
        return res

    def pk_text(ps):
        return ",".join("%08x:%s" % (t, hx(b)) for t, b in ps) or "-"

    lines5 = [l for l in replay_lines if l.startswith("packet.hs ")]

    def hs_meta(l):
        f = l.split(" ")

        def pks(t):
            return [] if t == "-" else [(int(x.split(":")[0], 16), unhex(x.split(":")[1])) for x in t.split(",")]
        return int(f[2]), min(int(f[3]), 2), pks(f[4]), pks(f[5]), (None if f[7] == "-" else int(f[7][1:].split(":")[0]))

    for i in range(150 if c.thorough else 48):
        enc = i % 2
        req = rng.choice([0, 1, 1, 2, 2, 3])
        proto = min(req, 2)
        cp, sp = rnd_pkts(proto, rng.below(4)), rnd_pkts(proto, rng.below(3))
        seed = rng.below(256)
        ln = "packet.hs %d %d %d %s %s %d -" % (seed, enc, req, pk_text(cp), pk_text(sp), rng.choice([1, 3, 7, 16, 100, 4096]))
        lines5.append(ln)
        if i % 4 < 2 and cp:
            pl = plain_after_hs(proto, bool(enc), cp[:2])
            offs = range(len(pl)) if len(pl) <= 160 else sorted(set(rng.below(len(pl)) for _ in range(120)))
            for o in offs:
                ln = "packet.hs %d %d %d %s - %d x%d:%02x" % (seed, enc, req, pk_text(cp[:2]), rng.choice([1, 16, 4096]), o,
                                                           rng.choice([1, 2, 4, 8, 16, 32, 64, 128, rng.range(1, 255)]))
                lines5.append(ln)
    res5 = c.tie("hs", lines5, impl, model, canon=lambda a: a.split(" #")[0], jobs=min(16, max(1, len(lines5) // 50)))
    lines6 = []
    want6 = {}

    def kv(txt):
        return dict(x.split("=", 1) for x in txt.split(" ") if "=" in x)

    def evs_of(txt):
        e_ = txt.split(",")
        return [(int(x.split(":")[1], 16), unhex(x.split(":")[2])) for x in e_[:-1]], e_[-1][2:]

    for l, a, _ in res5:
        enc, proto, cp, sp, off = hs_meta(l)
        if not a.startswith("ok "):
            c.oracle_fail(l, "real handshake did not complete: " + a[:60], l)
            continue
        d = kv(a)
        if int(d["enc"]) != enc or int(d["proto"]) != proto or d["crcc"] != "1":
            c.oracle_fail(l, "handshake negotiated enc=%s proto=%s crc32c=%s" % (d["enc"], d["proto"], d["crcc"]), l)
        sr, sfin = evs_of(d["sr"])
        cr, cfin = evs_of(d["cr"])
        c.count("hs-final:" + sfin)
        if off is None:
            if sr != cp or sfin != "eof" or cr != sp or cfin != "eof":
                c.oracle_fail(l, "packets after the real handshake are not read back identically", l)
            if unhex(d["c2s"]) != plain_after_hs(proto, bool(enc), cp) or unhex(d["s2c"]) != plain_after_hs(proto, bool(enc), sp):
                c.oracle_fail(l, "stream after the handshake is not crc32c frames (+alignment/padding when encrypted)", l)
            # the handshake bytes themselves must be what the framing model (and the framing code driven directly)
            # produces for the nonce/handshake bodies and keys observed in this run
            for side in ("c", "s"):
                hp, hw = unhex(d[side + "hp"]), unhex(d[side + "hs"])
                l1 = int.from_bytes(hp[0:4], "little")
                l2 = int.from_bytes(hp[l1:l1 + 4], "little")
                b1, b2 = hp[12:l1 - 4], hp[l1 + 12:l1 + l2 - 4]
                ops = ["w:%08x:%s" % (NONCE, hx(b1)), "v%d" % proto]
                if enc:
                    ops.append("e:%s:%s" % (d[side + "key"], d[side + "iv"]))
                ops.append("w:%08x:%s" % (HS, hx(b2)))
                ln = "packet.conn 0:0:0 %s %d - 4096 4096" % (",".join(ops), rng.choice([1, 16, 64]))
                if ln not in want6:
                    want6[ln] = (hw, l)
                    lines6.append(ln)
        else:
            if sr != cp[:len(sr)]:
                c.oracle_fail(l, "an altered packet was delivered after corruption at offset %d behind the real handshake" % off, l)
            if sfin == "eof":
                c.oracle_fail(l, "flipped byte at offset %d behind the real handshake was not reported as an error" % off, l)
    res6 = c.tie("hs-frames", lines6, impl, model)
    for l, a, _ in res6:
        p = parse_conn_out(a)
        if p is None or p[0] != want6[l][0] or p[3] != "eof":
            c.oracle_fail(want6[l][1], "bytes of the real handshake differ from the framing of its nonce/handshake packets", want6[l][1])
    c.extra["rule"] = ("lines: %d random connection histories (handshake-shaped from seq -2 or injected state incl. seq wrap-around, "
                       "protocol 0/1/2, both CRC tables, AES-CBC on/off, WritePacket/NoFlush/WritePacket2/Flush mixes, ping/pong) x chunkings x "
                       "buffer sizes; %d short histories x every wire offset x single-byte xor and truncation; distinct = distinct line text; "
                       "reader-only malformed streams (bad crc/seq/length/type, excess padding, memcached commands, truncation, random), "
                       "plaintext-level malformations under AES-CBC, body-length validation; real handshakes (enc on/off, protocol 0..3 requested) "
                       "followed by packets both ways, with every offset of the first packets corrupted; every line is a different input" % (nscripts, ncor))


def c_root():
    import os
    return os.path.dirname(os.path.dirname(os.path.abspath(__file__)))
