"""JSON aspect of the codec family (C05, C06): corpus, value generator, tree dump parser / JSON text printer,
type-directed rewrite generator (documented alternative forms and invalid mutations), oracles."""
import os
import struct

from checks import codec_common as cc

T = cc.TLS


JSONX = os.path.join(os.path.dirname(os.path.abspath(__file__)), "schemas", "jsonx.tl")
JSONX2 = os.path.join(os.path.dirname(os.path.abspath(__file__)), "schemas", "jsonx2.tl2")


def corpus(c):
    s = [cc.Schema("cases", [T + "/cases.tl"], tl2="*", sanity=True),
         cc.Schema("casesns", [T + "/cases.tl"], tl2="", sanity=True),
         cc.Schema("jsonx", [JSONX], tl2="*", sanity=True),
         cc.Schema("cases2", [T + "/cases.tl2"], tl2="*", sanity=True),
         cc.Schema("jsonx2", [JSONX2], tl2="*", sanity=True)]
    s[-1].origin_tl2 = s[-2].origin_tl2 = True     # TL2-origin schemas: no TL1 form, values travel as JSON (FillRandom)
    if c.thorough:
        s += [cc.Schema("jsonxns", [JSONX], tl2="", sanity=True),
              cc.Schema("gold", [T + "/goldmaster.tl", T + "/goldmaster2.tl", T + "/goldmaster3.tl"], tl2="*", sanity=True, split=True),
              cc.Schema("goldns", [T + "/goldmaster.tl", T + "/goldmaster2.tl", T + "/goldmaster3.tl"], tl2="", sanity=True)]
    return s


def generate_own_module(c, tl2gen, sc):
    """cc.generate with one scratch Go module per schema, so that schemas can be generated and built concurrently
    (the shared module of cc.generate has one go.mod/go.sum that concurrent builds rewrite)."""
    import shutil
    import subprocess
    from vlib.core import REPO, ROOT, goenv, run
    mod = os.path.join(c.workdir, "genmod_" + sc.sid)
    os.makedirs(mod, exist_ok=True)
    with open(os.path.join(mod, "go.mod"), "w") as f:
        f.write("module verif.local/h\n\ngo 1.24.0\n\nrequire github.com/VKCOM/tl v0.0.0\n\nreplace github.com/VKCOM/tl => %s\n" % REPO)
    shutil.copyfile(os.path.join(REPO, "go.sum"), os.path.join(mod, "go.sum"))
    out = os.path.join(mod, "g_" + sc.sid)
    shutil.rmtree(out, ignore_errors=True)
    cmd = [tl2gen, "--language=go", "--outdir=" + out, "--pkgPath=verif.local/h/g_%s/tl" % sc.sid,
           "--basicPkgPath=github.com/VKCOM/tl/pkg/basictl", "--generateRandomCode",
           "--checkLengthSanity=%s" % ("true" if sc.sanity else "false")]
    if sc.tl2:
        cmd.append("--tl2WhiteList=" + sc.tl2)
    if sc.bytes_wl:
        cmd.append("--generateByteVersions=" + sc.bytes_wl)
    if sc.split:
        cmd.append("--split-internal")
    p = subprocess.run(cmd + sc.files, stdout=subprocess.PIPE, stderr=subprocess.STDOUT, env=goenv())
    sc.gen_rc, sc.gen_out = p.returncode, p.stdout.decode(errors="replace")
    if p.returncode != 0:
        return False, sc.gen_out[-1500:]
    main_dir = os.path.join(mod, "cmd_" + sc.sid)
    shutil.rmtree(main_dir, ignore_errors=True)
    os.makedirs(main_dir)
    hdir = os.path.join(ROOT, "go", "hgen")
    for fn in sorted(os.listdir(hdir)):
        if fn.endswith(".go.tmpl"):
            tmpl = open(os.path.join(hdir, fn)).read().replace("@PKG@", "verif.local/h/g_" + sc.sid)
            if not os.path.isdir(os.path.join(out, "factory_bytes")):
                tmpl = tmpl.replace('\t_ "verif.local/h/g_%s/factory_bytes"\n' % sc.sid, "")
            open(os.path.join(main_dir, fn[:-5]), "w").write(tmpl)
    binp = os.path.join(c.workdir, "bin", "gen_" + sc.sid)
    env = goenv()
    env["GOFLAGS"] = "-mod=mod"
    rc, o = run(["go", "build", "-o", binp, "./cmd_" + sc.sid], cwd=mod, env=env)
    if rc != 0:
        return False, "go build of generated code failed:\n" + o[-3000:]
    sc.impl = [binp]
    return True, ""


def prepare(c, hcodec, tl2gen, sc):
    d, err = cc.export_desc(c, hcodec, sc)
    if d is None:
        c.proof_failures.append({"stage": "descriptor export", "schema": sc.sid, "detail": err})
        return False
    ok, msg = generate_own_module(c, tl2gen, sc)
    if not ok:
        c.proof_failures.append({"stage": "generate", "schema": sc.sid, "detail": msg})
        return False
    return True


def setup(c):
    """Build everything the tie needs (model driver, in-repo harness, tl2gen, generated code per schema) concurrently.
    Returns (model argv, [prepared schemas])."""
    from concurrent.futures import ThreadPoolExecutor
    import time
    t0 = time.time()
    with ThreadPoolExecutor(8) as ex:
        fm = ex.submit(c.model_exe)
        fh = ex.submit(c.harness, "hcodec")
        ft = ex.submit(cc.build_tl2gen, c)
        hcodec, tl2gen = fh.result(), ft.result()
        scs = corpus(c)
        oks = list(ex.map(lambda sc: prepare(c, hcodec, tl2gen, sc), scs))
        model = fm.result()
    c.extra["setup_s"] = round(time.time() - t0, 1)
    return model, [sc for sc, ok in zip(scs, oks) if ok]


# floats: classes of bit patterns. The random stream keeps to the guard of the remaining float finding L3 (NaN only with the payload
# Go's "NaN" parses to); -0.0 may appear anywhere since the repair of L2 (a float is empty iff its bit pattern is zero). NaN payloads are
# exercised by the fixed witness lines.
F32 = [0, 0x80000000, 0x80000000, 0x3F800000, 0xBF800000, 0x7FC00000, 0x7F800000, 0xFF800000, 0x40490FDB, 0x3F000000, 0x41200000, 0x3DCCCCCD,
       1, 0x007FFFFF, 0x00800000, 0x7F7FFFFF, 0x4B800000, 0x4B7FFFFF, 0x3EAAAAAB, 0x501502F9, 0x5E000000, 0xC2F6E979]
F64 = [0, 1 << 63, 1 << 63, 0x3FF0000000000000, 0xBFF0000000000000, 0x7FF8000000000001, 0x7FF0000000000000, 0xFFF0000000000000,
       0x400921FB54442D18, 0x3FE0000000000000, 0x3FB999999999999A, 1, 0x000FFFFFFFFFFFFF, 0x0010000000000000,
       0x7FEFFFFFFFFFFFFF, 0x4340000000000000, 0x433FFFFFFFFFFFFF, 0x3FD5555555555555, 0x44B52D02C7E14AF6, 0xC05EDD2F1A9FBE77]


def f32_ok(n):
    return not ((n >> 23) & 0xFF == 0xFF and n & 0x7FFFFF != 0 and n != 0x7FC00000)


def f64_ok(n):
    return not ((n >> 52) & 0x7FF == 0x7FF and n & ((1 << 52) - 1) != 0 and n != 0x7FF8000000000001)


UTF8_SAMPLES = [b"", b"a", b"abc", b"hello world", "é".encode(), "日本".encode(), "\U0001F600".encode(), b"\"q\\", b"\n\t\r", b"\x00\x1f",
                b"<&>", "  ".encode(), b"\x7f", "�".encode(), b"a/b", "\u0080߿ࠀ￿".encode()]
BAD_UTF8 = [b"\xff", b"\xc0\x80", b"\xed\xa0\x80", b"a\x80", b"\xf4\x90\x80\x80", b"\xe2\x82", b"\xc3", b"ok\xfe\xff", b"\xf0\x80\x80\x80"]


SPECIALS = [bytes([x]) for x in range(0x20)] + [b"\x7f", b'"', b"\\", b"/", b"<", b">", b"&", b"'", b" ", "\u2028".encode(), "\u2029".encode(),
            "\u00e9".encode(), "\u0080".encode(), "\u07ff".encode(), "\u0800".encode(), "\ud7ff".encode(), "\ue000".encode(), "\ufffd".encode(),
            "\uffff".encode(), "\U00010000".encode(), "\U0010ffff".encode(), b"\\u0041", b"\\n", b"\\\\"]
PLAIN_KEYS = [b"", b"a", b"key", b"hello world", "é".encode(), "日本".encode(), "\U0001F600".encode(), b"<&>", b"\x7f", b"a/b", b"1", b"-5", b"true",
              "\u0080\u07ff\u0800\uffff".encode()]


def key_plain(k):
    """guard of finding F1 on one dictionary key: valid UTF-8 (F2 — keys that JSON escapes — was repaired in /repo 540af2db,
    so quotes, backslashes, controls, U+2028/9 … are ordinary keys now)"""
    try:
        k.decode("utf-8")
    except UnicodeDecodeError:
        return False
    return True


class GenJ(cc.Gen1):
    """Gen1 with JSON-relevant primitive distributions (float classes, UTF-8 / non-UTF-8 strings)."""

    def __init__(self, sc, rng, maxdepth=4, big=False, guard=True):
        super().__init__(sc, rng, maxdepth, big)
        self.guard = guard
        # guard of the known finding F1: keys of string-keyed dictionaries are valid UTF-8 (anything JSON escapes included)
        self.dict_elems = {i["elem"]["ty"] for i in self.I if i["kind"] == "dict"}
        self._key = False

    def struct_body(self, s, params, depth):
        if self.guard and s["idx"] in self.dict_elems:
            self._key = True
        try:
            return super().struct_body(s, params, depth)
        finally:
            self._key = False

    def string(self):
        r = self.rng
        k = r.below(10)
        if self._key:
            self._key = False
            kk = r.below(4)
            if kk == 0:
                s = r.choice(PLAIN_KEYS)
            elif kk == 1:
                # every character JSON escapes or treats specially, alone or mixed with letters (valid UTF-8 only: F1)
                s = b"".join(r.choice(SPECIALS) if r.chance(2, 3) else bytes([r.range(97, 122)]) for _ in range(r.choice([1, 1, 2, 3, 5])))
            else:
                s = bytes(r.range(97, 122) for _ in range(r.choice(cc.STR_LENS)))
            hdr = bytes([len(s)])
            bb = hdr + s
            return bb + bytes(-len(bb) % 4)
        if k < 2:
            s = r.choice(UTF8_SAMPLES)
        elif k < 3:
            s = r.choice(BAD_UTF8)
        elif k < 4:
            s = r.bytes(r.choice(cc.STR_LENS))
        elif k < 6:
            # every character JSON treats specially, alone or mixed with plain text: all C0 controls, DEL, quote, backslash,
            # solidus, <, >, &, U+2028/2029, 2/3/4-byte UTF-8, and (1 in 8) a stray byte that makes the string invalid UTF-8
            s = b"".join(r.choice(SPECIALS) if r.chance(2, 3) else bytes([r.range(97, 122)]) for _ in range(r.choice([1, 1, 2, 3, 5, 8])))
            if r.chance(1, 8):
                s += bytes([r.range(0x80, 0xFF)])
        else:
            s = bytes(r.range(97, 122) for _ in range(r.choice(cc.STR_LENS)))
        if self.big and r.chance(1, 40):
            s = s + bytes(r.range(97, 122) for _ in range(r.choice([253, 254, 300])))
        n = len(s)
        hdr = bytes([n]) if n <= 253 else b"\xfe" + n.to_bytes(3, "little")
        b = hdr + s
        return b + bytes(-len(b) % 4)

    def prim(self, i):
        r = self.rng
        p = i["prim"]
        if p == "float32":
            while True:
                k = r.below(6)
                if k < 3:
                    n = r.choice(F32)
                elif k == 3:
                    n = r.below(2 ** 32)
                else:
                    n = struct.unpack("<I", struct.pack("<f", float(r.range(-100000, 100000)) / r.choice([1, 2, 4, 8, 10, 100, 1000])))[0]
                if not self.guard or f32_ok(n):
                    return self.u32(n)
        if p == "float64":
            while True:
                k = r.below(6)
                if k < 3:
                    n = r.choice(F64)
                elif k == 3:
                    n = r.below(2 ** 64)
                else:
                    n = struct.unpack("<Q", struct.pack("<d", float(r.range(-100000, 100000)) / r.choice([1, 2, 4, 8, 10, 100, 1000])))[0]
                if not self.guard or f64_ok(n):
                    return n.to_bytes(8, "little")
        if p in ("uint32", "int32"):
            return self.u32(r.choice([0, 1, 2, 0xFFFFFFFF, 0x80000000, 0x7FFFFFFF, r.below(2 ** 32), r.below(100)]))
        if p in ("uint64", "int64"):
            return r.choice([0, 1, 2 ** 64 - 1, 2 ** 63, 2 ** 63 - 1, 2 ** 53 + 1, r.below(2 ** 64), r.below(1000)]).to_bytes(8, "little")
        return super().prim(i)


def parse_out(a):
    """'ok j=… valid=1 rt=ok' → dict"""
    f = a.split(" ")
    d = {"status": f[0]}
    for p in f[1:]:
        if "=" in p:
            k, v = p.split("=", 1)
            d[k] = v
    return d


def oracle_c05(c, line, a):
    """The property itself on one implementation answer of codec.xj."""
    if a == "panic":
        c.oracle_fail(line, "generated code panics while writing/reading JSON of a value decoded from TL1", line)
        return
    if not a.startswith("ok "):
        if a == "werr":
            c.oracle_fail(line, "value decoded from TL1 bytes is refused by the JSON writer", line)
        return
    d = parse_out(a)
    if d.get("valid") != "1" or d.get("j", "").startswith("!"):
        c.oracle_fail(line, "JSON written by generated code is not syntactically valid JSON", line)
    elif d.get("rt") != "ok":
        what = {"rej": "JSON written by generated code is rejected by its own reader",
                "json": "JSON round trip changes the JSON encoding",
                "tl1": "JSON round trip changes the TL1 encoding",
                "tl2": "JSON round trip changes the TL2 encoding"}.get(d.get("rt"), "JSON round trip fails: " + str(d.get("rt")))
        c.oracle_fail(line, what, line)


def debug_dump(c):
    """VERIF_DEBUG=1: write every tie / oracle failure of the run to .work/<pid>/debug.json (development aid)."""
    if os.environ.get("VERIF_DEBUG"):
        import json
        json.dump({"ties": c.tie_failures, "oracle": c.oracle_failures, "proofs": c.proof_failures},
                  open(os.path.join(c.workdir, "debug.json"), "w"), indent=1, default=str)


# ------------------------------------------------------------------ tree dump ⇄ Python trees ⇄ JSON text
# tree: ("z",) ("t",) ("f",) ("n", text) ("s", bytes) ("a", [tree…]) ("o", [(keybytes, tree)…])

def parse_dump(s):
    pos = 0

    def val():
        nonlocal pos
        ch = s[pos]
        if ch in "ztf":
            pos += 1
            return (ch,)
        if ch == "n":
            e = pos + 1
            while e < len(s) and s[e] not in ",]}":
                e += 1
            t = s[pos + 1:e]
            pos = e
            return ("n", t)
        if ch == "s":
            e = pos + 1
            while e < len(s) and s[e] not in ",]}":
                e += 1
            b = bytes.fromhex(s[pos + 1:e])
            pos = e
            return ("s", b)
        if ch == "[":
            pos += 1
            es = []
            if s[pos] == "]":
                pos += 1
                return ("a", es)
            while True:
                es.append(val())
                if s[pos] == ",":
                    pos += 1
                    continue
                assert s[pos] == "]", s
                pos += 1
                return ("a", es)
        if ch == "{":
            pos += 1
            ms = []
            if s[pos] == "}":
                pos += 1
                return ("o", ms)
            while True:
                e = s.index(":", pos)
                k = bytes.fromhex(s[pos:e])
                pos = e + 1
                ms.append((k, val()))
                if s[pos] == ",":
                    pos += 1
                    continue
                assert s[pos] == "}", s
                pos += 1
                return ("o", ms)
        raise ValueError("bad dump at %d: %s" % (pos, s[:80]))

    t = val()
    if pos != len(s):
        raise ValueError("trailing dump text")
    return t


def text_str(b):
    out = bytearray(b'"')
    for x in b:
        if x == 0x22:
            out += b'\\"'
        elif x == 0x5C:
            out += b"\\\\"
        elif x < 0x20:
            out += b"\\u%04x" % x
        else:
            out.append(x)
    out += b'"'
    return bytes(out)


def to_text(t, rng=None):
    """JSON text of a tree; with rng, insignificant whitespace is sprinkled in."""
    ws = (lambda: rng.choice([b"", b"", b"", b" ", b"\n", b"\t "])) if rng else (lambda: b"")
    k = t[0]
    if k == "z":
        return b"null"
    if k == "t":
        return b"true"
    if k == "f":
        return b"false"
    if k == "n":
        return t[1].encode()
    if k == "s":
        return text_str(t[1])
    if k == "a":
        return b"[" + ws() + (b"," + ws()).join(to_text(e, rng) + ws() for e in t[1]) + b"]"
    if k == "o":
        return b"{" + ws() + (b"," + ws()).join(text_str(kk) + ws() + b":" + ws() + to_text(v, rng) + ws() for kk, v in t[1]) + b"}"
    raise ValueError(k)


# ------------------------------------------------------------------ type-directed rewrites of canonical JSON (C06)
# A rewrite is (rule, expect, tree). expect: "same" = documented alternative form: must be accepted and decode to the
# same value as the canonical text; "rej" = invalid form: must be rejected; "any" = explored for the tie only;
# ("pair", n) = the next n rewrites are spellings of one another: all must be accepted with identical results.

def b(s):
    return s.encode()


class Rewriter:
    def __init__(self, sc, rng):
        self.I = sc.desc["instances"]
        self.rng = rng
        self.skip_fields = set()   # (struct instance idx, field name): "bit set, struct field absent" makes WriteJSON panic (finding F3)

    def natarg(self, a, fvals, params):
        if a["k"] == "num":
            return a["v"]
        if a["k"] == "param":
            return params[a["v"]] if a["v"] < len(params) else 0
        return fvals.get(a["v"], 0)

    def is_true_type(self, ty):
        i = self.I[ty]
        return i["kind"] == "struct" and not i.get("fields")

    def omitted(self, s, f):
        return f["name"].startswith("_") or (f["name"] == "" and s["originTL2"])

    def empty_json(self, ty, na=None):
        """the JSON the writer omits for this type (None: the type is always written); for a dynamic tuple only size 0 is empty"""
        i = self.I[ty]
        k = i["kind"]
        if k == "array" and i.get("dynamicSize") and na and na[0] != 0:
            return None
        if k == "struct" and (i.get("isTypedef") or i.get("isUnwrap")) and na is not None:
            f0 = i["fields"][0]
            return self.empty_json(f0["ty"], [self.natarg(a, {}, na) for a in f0["natArgs"]])
        if k == "prim":
            p = i["prim"]
            if p == "string":
                return ("s", b"")
            if p == "bool":
                return ("f",)
            if p == "bit":
                return None
            return ("n", "0")
        if k == "struct":
            if i.get("isTypedef"):
                return self.empty_json(i["fields"][0]["ty"])
            return None
        if k == "union":
            return ("o", []) if i.get("isMaybe") else None
        if k == "array":
            return ("a", []) if (not i.get("isTuple") or i.get("dynamicSize")) else None
        if k == "dict":
            return ("o", [])
        return None

    def variant_json_name(self, u, n):
        vi = self.I[u["variants"][n]]
        return u["variantNames"][n] if "__" in vi["tlname"] else vi["tlname"]

    # -------------------------------------------------------------- walk
    def walk(self, ty, params, j, depth=0):
        i = self.I[ty]
        k = i["kind"]
        out = []
        if k == "prim":
            return self.walk_prim(i, j)
        if k == "struct":
            if i.get("isTypedef") or i.get("isUnwrap"):
                f = i["fields"][0]
                na = [self.natarg(a, {}, params) for a in f["natArgs"]]
                return self.walk(f["ty"], na, j, depth)
            return self.walk_struct(i, params, j, depth)
        if k == "union":
            if i.get("isMaybe"):
                return self.walk_maybe(i, params, j, depth)
            return self.walk_union(i, params, j, depth)
        if k == "array":
            return self.walk_array(i, params, j, depth)
        if k == "dict":
            return self.walk_dict(i, params, j, depth)
        return out

    def walk_prim(self, i, j):
        p = i["prim"]
        out = []
        if p in ("uint32", "int32", "uint64", "int64", "byte"):
            if j[0] != "n":
                return out
            t = j[1]
            bits = {"uint32": 32, "int32": 32, "uint64": 64, "int64": 64, "byte": 8}[p]
            signed = p in ("int32", "int64")
            out.append(("number_as_string", "same", ("s", b(t))))
            out.append(("number_leading_plus_string", "same" if signed and not t.startswith("-") else "rej", ("s", b("+" + t))))
            lim = 2 ** (bits - 1) if signed else 2 ** bits
            out.append(("number_out_of_range", "rej", ("n", str(lim))))
            out.append(("number_out_of_range_string", "rej", ("s", b(str(lim)))))
            if signed:
                out.append(("number_min", "any", ("n", str(-lim))))
                out.append(("number_below_min", "rej", ("n", str(-lim - 1))))
            else:
                out.append(("number_negative", "rej", ("n", "-1")))
                out.append(("number_negative_zero", "rej", ("n", "-0")))
            out.append(("number_fraction", "rej", ("n", t + ".0")))
            out.append(("number_exponent", "rej", ("n", t + "e0")))
            out.append(("number_as_bool", "rej", ("t",)))
            out.append(("number_as_null", "rej", ("z",)))
            out.append(("number_as_array", "rej", ("a", [j])))
            out.append(("number_string_spaces", "rej", ("s", b(" " + t))))
            out.append(("number_string_empty", "rej", ("s", b"")))
            out.append(("number_leading_zero_string", "same", ("s", b(("-00" + t[1:]) if t.startswith("-") else "00" + t))))
        elif p in ("float32", "float64"):
            if j[0] == "n":
                t = j[1]
                out.append(("number_as_string", "same", ("s", b(t))))
                out.append(("float_exponent_form", "same", ("n", t + "e0")))
                out.append(("float_exponent_form2", "same", ("n", t + "E+00")))
                if "." not in t:
                    out.append(("float_fraction_form", "same", ("n", t + ".0")))
                out.append(("float_string_plus", "same" if not t.startswith("-") else "rej", ("s", b("+" + t))))
                out.append(("float_overflow", "rej", ("n", "1e999")))
                out.append(("float_underflow", "any", ("n", "1e-999")))
                out.append(("float_as_bool", "rej", ("f",)))
                out.append(("float_string_garbage", "rej", ("s", b(t + "x"))))
            elif j[0] == "s":
                t = j[1]
                alts = {b"NaN": [b"nan", b"NAN"], b"+Inf": [b"Inf", b"inf", b"+Infinity", b"+inf"], b"-Inf": [b"-inf", b"-INFINITY"]}.get(t, [])
                for a in alts:
                    out.append(("float_special_spelling", "same", ("s", a)))
                out.append(("float_special_bad", "rej", ("s", t + b"x")))
                out.append(("float_special_signed_nan", "rej", ("s", b"+nan")))
        elif p == "string":
            if j[0] == "s":
                import base64
                out.append(("string_as_base64", "same", ("o", [(b"base64", ("s", base64.b64encode(j[1])))])))
                out.append(("string_as_number", "rej", ("n", "1")))
                out.append(("string_empty_object", "rej", ("o", [])))
                out.append(("string_base64_invalid", "rej", ("o", [(b"base64", ("s", b"!!!!"))])))
                out.append(("string_base64_nopad", "rej", ("o", [(b"base64", ("s", b"QQ"))])))
                out.append(("string_base64_unknown_key", "rej", ("o", [(b"base64", ("s", b"QQ==")), (b"x", ("n", "1"))])))
                out.append(("string_base64_dup", "rej", ("o", [(b"base64", ("s", b"QQ==")), (b"base64", ("s", b"QQ=="))])))
                out.append(("string_base64_not_string", "rej", ("o", [(b"base64", ("n", "1"))])))
            elif j[0] == "o":
                import base64
                try:
                    raw = base64.b64decode(dict(j[1])[b"base64"][1])
                    raw.decode("utf-8")
                    out.append(("base64_as_string", "same", ("s", raw)))
                except Exception:
                    pass
        elif p == "bool":
            out.append(("bool_as_number", "rej", ("n", "1")))
            out.append(("bool_as_string", "rej", ("s", b"true")))
            out.append(("bool_as_null", "rej", ("z",)))
        return out

    def lift(self, rs, rebuild):
        return [(r, ("eq", rebuild(e[1])) if isinstance(e, tuple) else e, rebuild(t)) for r, e, t in rs]

    def walk_struct(self, s, params, j, depth):
        out = []
        if j[0] != "o":
            return out
        ms = j[1]
        fields = s.get("fields") or []
        has_tl2 = s["hasTL2"]
        pos = {k: n for n, (k, _) in enumerate(ms)}
        fvals = {}
        for idx, f in enumerate(fields):
            t = self.I[f["ty"]]
            if t["kind"] == "prim" and t["prim"] == "uint32":
                m = pos.get(b(f["name"]))
                fvals[idx] = int(ms[m][1][1]) if m is not None and ms[m][1][0] == "n" else 0

        def with_member(n, v):
            return ("o", ms[:n] + [(ms[n][0], v)] + ms[n + 1:])

        def without(n):
            return ("o", ms[:n] + ms[n + 1:])

        def added(k, v):
            p = self.rng.below(len(ms) + 1)
            return ("o", ms[:p] + [(k, v)] + ms[p:])

        def mask_bit(f):
            m = f.get("mask")
            if not m:
                return None
            return (self.natarg(m, fvals, params) >> f["bit"]) & 1

        # generic invalid forms
        out.append(("unknown_key", "rej", added(b"no_such_field_zz", ("n", "1"))))
        if ms:
            n = self.rng.below(len(ms))
            out.append(("duplicate_key", "rej", ("o", ms + [ms[n]])))
            out.append(("duplicate_key_adjacent", "rej", ("o", ms[:n] + [ms[n]] + ms[n:])))
        if len(ms) >= 2:
            sh = list(ms)
            self.rng.shuffle(sh)
            out.append(("member_order", "same", ("o", sh)))
            out.append(("member_order_reversed", "same", ("o", ms[::-1])))
        out.append(("object_as_array", "rej", ("a", [])))
        out.append(("object_as_string", "rej", ("s", b"")))
        out.append(("object_as_null", "rej", ("z",)))
        for idx, f in enumerate(fields):
            if self.omitted(s, f):
                continue
            key = b(f["name"])
            n = pos.get(key)
            t = self.I[f["ty"]]
            na = [self.natarg(a, fvals, params) for a in f["natArgs"]]
            bit = mask_bit(f)
            local = bool(f.get("mask")) and f["mask"]["k"] == "field"
            opt2 = not f.get("mask") and f.get("tl2bit") is not None     # TL2-origin optional field / bit: presence is the hidden bit only
            if f.get("isBit"):
                if n is None:
                    out.append(("true_field_explicit_false", "same", added(key, ("f",))))
                    if local:
                        # masked_field_sets_local_bits: "x":true ≡ "x":true with the bits written out
                        t1 = added(key, ("t",))
                        out.append(("true_field_sets_bits", ("eq", self.set_bits(fields, t1, f)), t1))
                    elif opt2:
                        out.append(("tl2_bit_set", "any", added(key, ("t",))))
                    else:
                        out.append(("true_field_external_mask_zero", "any" if has_tl2 else "rej", added(key, ("t",))))
                else:
                    out.append(("true_false_with_bit_set", "any" if has_tl2 else "rej", with_member(n, ("f",))))
                    out.append(("true_field_as_number", "rej", with_member(n, ("n", "1"))))
                    if local:
                        out += self.drop_implied(s, fields, ms, pos, fvals, f["mask"]["v"])
                        out.append(("true_field_dropped_bit_explicit", "same", without(n)))
                    elif opt2:
                        out.append(("tl2_bit_dropped", "any", without(n)))
                    else:
                        out.append(("true_field_dropped_external_bit_set", "same", without(n)))
                continue
            if n is None:
                ej = self.empty_json(f["ty"], na)
                if opt2:
                    if ej is not None:
                        out.append(("tl2_optional_set", "any", added(key, ej)))
                elif not f.get("mask"):
                    if self.is_true_type(f["ty"]):
                        out.append(("unmasked_true_type_explicit", "same", added(key, ("o", []))))
                    elif ej is not None:
                        out.append(("omitted_is_empty", "same", added(key, ej)))
                elif ej is not None or (t["kind"] == "struct" and not t.get("isTypedef") and not t.get("isUnwrap")):
                    v = ej if ej is not None else ("o", [])
                    if local:
                        t1 = added(key, v)
                        out.append(("masked_field_sets_local_bits", ("eq", self.set_bits(fields, t1, f)), t1))
                    else:
                        out.append(("external_mask_zero", "any" if has_tl2 else "rej", added(key, v)))
                continue
            v = ms[n][1]
            # child rewrites
            if depth < 6:
                out += self.lift(self.walk(f["ty"], na, v, depth + 1), lambda nv, n=n: with_member(n, nv))
            if f.get("mask"):
                ej = self.empty_json(f["ty"], na)
                if ej is not None and v == ej:
                    out.append(("masked_empty_dropped_bit_explicit", "same", without(n)))
                if ej is None and v == ("o", []) and t["kind"] == "struct" and not t.get("isTypedef") and not t.get("isUnwrap") \
                        and (s["idx"], f["name"]) not in self.skip_fields:
                    out.append(("masked_empty_struct_dropped_bit_explicit", "same", without(n)))
                if local:
                    out += self.drop_implied(s, fields, ms, pos, fvals, f["mask"]["v"])
        return out

    def set_bits(self, fields, tree, f):
        """tree with the local mask bits that field f implies written out explicitly (recursively through ancestor masks)"""
        ms = list(tree[1])
        cur = f
        while cur.get("mask") and cur["mask"]["k"] == "field":
            a = fields[cur["mask"]["v"]]
            key = b(a["name"])
            n = next((i for i, (k, _) in enumerate(ms) if k == key), None)
            if n is None:
                ms.append((key, ("n", str(1 << cur["bit"]))))
            elif ms[n][1][0] == "n":
                ms[n] = (key, ("n", str(int(ms[n][1][1]) | (1 << cur["bit"]))))
            cur = a
        return ("o", ms)

    def drop_implied(self, s, fields, ms, pos, fvals, a):
        """clear from local mask field `a` the bits implied by the members that are present"""
        implied = 0
        for f in fields:
            m = f.get("mask")
            if not m or m["k"] != "field" or m["v"] != a:
                continue
            n = pos.get(b(f["name"]))
            if n is None:
                continue
            if f.get("isBit") and ms[n][1] != ("t",):
                continue
            implied |= 1 << f["bit"]
        val = fvals.get(a, 0)
        nv = val & ~implied
        if nv == val:
            return []
        an = pos.get(b(fields[a]["name"]))
        if an is None:
            return []
        res = [("mask_bits_implied", "same", ("o", ms[:an] + [(ms[an][0], ("n", str(nv)))] + ms[an + 1:]))]
        if nv == 0:
            res.append(("mask_field_dropped", "same", ("o", ms[:an] + ms[an + 1:])))
        return res

    def walk_union(self, u, params, j, depth):
        out = []
        names = [self.variant_json_name(u, n) for n in range(len(u["variants"]))]
        origin_tl2 = self.I[u["variants"][0]]["originTL2"] if u["variants"] else False
        if j[0] == "s":
            tname, val, has_val = j[1], None, False
        elif j[0] == "o":
            d = dict(j[1])
            if b"type" not in d or d[b"type"][0] != "s":
                return out
            tname, val, has_val = d[b"type"][1], d.get(b"value"), b"value" in d
        else:
            return out
        try:
            n = [b(x) for x in names].index(tname)
        except ValueError:
            return out
        vi = self.I[u["variants"][n]]

        def form(name, obj=True, value=val, hasv=has_val, extra=None):
            if not obj:
                return ("s", name)
            ms = [(b"type", ("s", name))] + ([(b"value", value)] if hasv else []) + (extra or [])
            return ("o", ms)

        is_true = self.is_true_type(u["variants"][n])
        if j[0] == "s":
            out.append(("enum_as_object", "same", form(tname, True)))
        else:
            if not has_val:
                out.append(("union_as_string", "same", form(tname, False)))
            else:
                out.append(("union_as_string_drops_value", "any", form(tname, False)))
                out.append(("union_value_first", "same", ("o", [(b"value", val), (b"type", ("s", tname))])))
        if is_true:
            out.append(("union_true_variant_ignored_value", "same", form(tname, True, ("n", "1"), True)))
        # alternative names
        tagname = "#%08x" % vi["tag"]
        tl = vi["tlname"]
        if not origin_tl2:
            out.append(("union_legacy_name_legacy_mode", "same", form(b(tl + tagname), j[0] != "s")))
            out.append(("union_legacy_tag_legacy_mode", "same", form(b(tagname), j[0] != "s")))
            out.append(("union_legacy_name_new_mode", "rej", form(b(tl + tagname), j[0] != "s")))
            out.append(("union_legacy_tag_new_mode", "rej", form(b(tagname), j[0] != "s")))
        if u["hasTL2"] and u["variantNames"][n] != names[n]:
            out.append(("union_tl2_variant_name", "same", form(b(u["variantNames"][n]), j[0] != "s")))
        out.append(("union_unknown_type", "rej", form(b"no.suchVariant", j[0] != "s")))
        out.append(("union_type_missing", "rej", ("o", [(b"value", val)] if has_val else [])))
        out.append(("union_unknown_key", "rej", form(tname, True, extra=[(b"extra", ("n", "1"))])))
        out.append(("union_dup_type", "rej", form(tname, True, extra=[(b"type", ("s", tname))])))
        if has_val:
            out.append(("union_dup_value", "rej", form(tname, True, extra=[(b"value", val)])))
        out.append(("union_type_not_string", "rej", ("o", [(b"type", ("n", "1"))])))
        out.append(("union_as_array", "rej", ("a", [])))
        out.append(("union_as_number", "rej", ("n", "0")))
        if has_val and not is_true and depth < 6:
            na = [self.natarg(a, {}, params) for a in (u.get("elementNatArgs") or [])]
            out += self.lift(self.walk(u["variants"][n], na, val, depth + 1),
                             lambda nv: ("o", [(b"type", ("s", tname)), (b"value", nv)]))
        if not has_val and not is_true:
            ej = self.empty_json(u["variants"][n])
            if ej is not None:
                out.append(("union_value_explicit_empty", "same", ("o", [(b"type", ("s", tname)), (b"value", ej)])))
        return out

    def walk_maybe(self, u, params, j, depth):
        out = []
        if j[0] != "o":
            return out
        d = dict(j[1])
        vs = self.I[u["variants"][1]]
        f = vs["fields"][0]
        vparams = [self.natarg(a, {}, params) for a in (u.get("elementNatArgs") or [])]
        na = [self.natarg(a, {}, vparams) for a in f["natArgs"]]
        ej = self.empty_json(f["ty"])
        T, F = ("t",), ("f",)
        if not j[1]:
            # nothing
            out.append(("maybe_ok_false", "same", ("o", [(b"ok", F)])))
            if ej is not None:
                out.append(("maybe_okfalse_value", "rej", ("o", [(b"ok", F), (b"value", ej)])))
                out.append(("maybe_okfalse_value_reordered", "rej", ("o", [(b"value", ej), (b"ok", F)])))
        else:
            v = d.get(b"value")
            if v is not None:
                out.append(("maybe_without_ok", "same", ("o", [(b"value", v)])))
                out.append(("maybe_value_first", "same", ("o", [(b"value", v), (b"ok", T)])))
                out.append(("maybe_okfalse_value", "rej", ("o", [(b"ok", F), (b"value", v)])))
                out.append(("maybe_dup_value", "rej", ("o", [(b"ok", T), (b"value", v), (b"value", v)])))
                if depth < 6:
                    out += self.lift(self.walk(f["ty"], na, v, depth + 1), lambda nv: ("o", [(b"ok", T), (b"value", nv)]))
            else:
                if ej is not None:
                    out.append(("maybe_value_explicit_empty", "same", ("o", [(b"ok", T), (b"value", ej)])))
                    out.append(("maybe_value_only_empty", "same", ("o", [(b"value", ej)])))
            out.append(("maybe_dup_ok", "rej", ("o", list(j[1]) + [(b"ok", T)])))
        out.append(("maybe_unknown_key", "rej", ("o", list(j[1]) + [(b"extra", ("n", "1"))])))
        out.append(("maybe_ok_not_bool", "rej", ("o", [(b"ok", ("n", "1"))])))
        out.append(("maybe_as_array", "rej", ("a", [])))
        out.append(("maybe_as_null", "rej", ("z",)))
        return out

    def walk_array(self, a, params, j, depth):
        out = []
        if j[0] != "a":
            return out
        es = j[1]
        e = a["elem"]
        na = [self.natarg(x, {}, params) for x in e["natArgs"]]
        fixed = a.get("isTuple")
        ej = self.empty_json(e["ty"])
        extra = es[-1] if es else ej
        if es:
            out.append(("array_len_short", "rej" if fixed else "any", ("a", es[:-1])))
        if extra is not None:
            out.append(("array_len_long", "rej" if fixed else "any", ("a", es + [extra])))
        out.append(("array_as_object", "rej", ("o", [])))
        out.append(("array_as_string", "rej", ("s", b"")))
        if es and depth < 6:
            for n in sorted({0, len(es) - 1, self.rng.below(len(es))}):
                out += self.lift(self.walk(e["ty"], na, es[n], depth + 1), lambda nv, n=n: ("a", es[:n] + [nv] + es[n + 1:]))
        return out

    def walk_dict(self, a, params, j, depth):
        out = []
        if j[0] != "o":
            return out
        ms = j[1]
        ena = [self.natarg(x, {}, params) for x in a["elem"]["natArgs"]]
        es = self.I[a["elem"]["ty"]]
        kf, vf = es["fields"][0], es["fields"][1]
        vna = [self.natarg(x, {}, ena) for x in vf["natArgs"]]
        kt = self.I[kf["ty"]]
        out.append(("dict_as_pairs", "any", ("a", [("o", [(b"key", ("s", k) if kt.get("prim") == "string" else ("n", k.decode("latin1"))), (b"value", v)]) for k, v in ms])))
        out.append(("dict_as_string", "rej", ("s", b"")))
        if ms:
            n = self.rng.below(len(ms))
            out.append(("dict_duplicate_key_same_value", "same", ("o", ms + [ms[n]])))
            if len(ms) >= 2:
                out.append(("dict_order_reversed", "same", ("o", ms[::-1])))
            if kt["kind"] == "prim" and kt["prim"] != "string":
                out.append(("dict_key_not_a_number", "rej", ("o", ms + [(b"x1", ms[n][1])])))
            if depth < 6:
                out += self.lift(self.walk(vf["ty"], vna, ms[n][1], depth + 1), lambda nv, n=n: ("o", ms[:n] + [(ms[n][0], nv)] + ms[n + 1:]))
        return out


def rj_line(sc, inst, legacy, tree, rng=None):
    return "codec.rj %s %d %s %d %s" % (sc.sid, inst["idx"], inst["tlname"], legacy, to_text(tree, rng).hex() or "-")


def build_c06_cases(c, sc, rw, res, rng, cap):
    """From phase-1 answers (JSON dumps written by the implementation) build the rewrite cases.
    A case: {"canon": line, "checks": [(rule, expect, line[, otherline])], "lines": set}."""
    I = sc.desc["instances"]
    cases = []
    for l, a, _ in res:
        if not a.startswith("ok "):
            continue
        d = parse_out(a)
        if d.get("j", "!").startswith("!") or d.get("rt") != "ok":
            # the canonical form is the reference of every rewrite: it must itself read back to the value it was written from
            c.oracle_fail(l, "canonical JSON written by the implementation does not read back to the value it was written from "
                             "(valid=%s rt=%s)" % (d.get("valid"), d.get("rt")), l)
            continue
        f = l.split(" ")
        inst = I[int(f[2])]
        try:
            tree = parse_dump(d["j"])
        except Exception:
            c.proof_failures.append({"stage": "dump parse", "detail": d["j"][:200]})
            continue
        canon = rj_line(sc, inst, 0, tree)
        rs = rw.walk(inst["idx"], [], tree)
        if len(rs) > cap:
            # keep the rules seen least often so far in this run
            rng.shuffle(rs)
            rs.sort(key=lambda r: c.dist.get("rule:" + r[0], 0))
            rs = rs[:cap]
        checks = []
        lines = {canon}
        ws = rj_line(sc, inst, 0, tree, rng)
        if ws != canon:
            checks.append(("insignificant_whitespace", "same", ws, None))
            lines.add(ws)
        for rule, expect, t in rs:
            legacy = 1 if rule.endswith("_legacy_mode") else 0
            ln = rj_line(sc, inst, legacy, t)
            other = None
            if isinstance(expect, tuple):
                other = rj_line(sc, inst, legacy, expect[1])
                lines.add(other)
                expect = "eq"
            checks.append((rule, expect, ln, other))
            lines.add(ln)
            c.count("rule:" + rule)
        cases.append({"xj": l, "tl2": bool(sc.tl2), "canon": canon, "checks": checks, "lines": lines})
    return cases


def replay_lines(c):
    """lines / structured inputs named by a replay file (run first, see ./check --replay)"""
    out = []
    if c.replay:
        for f in c.replay.get("failures", []):
            out.append(f.get("input") or f.get("key"))
        for t in c.replay.get("broken_ties", []):
            out.append(t.get("line"))
    return [x for x in out if x]


def oracle_c06(c, cases, ans):
    for cs in cases:
        base = ans.get(cs["canon"], "?")
        if not base.startswith("ok "):
            c.oracle_fail(cs["canon"], "canonical JSON written by the implementation is not accepted by its reader (%s)" % base[:60], cs["canon"])
            continue
        for rule, expect, ln, other in cs["checks"]:
            a = ans.get(ln, "?")
            inp = {"line": ln, "rule": rule, "expect": expect, "canon": cs["canon"], "other": other, "tl2": cs["tl2"]}
            if a == "panic":
                c.oracle_fail(ln, "generated code panics on JSON form '%s'" % rule, inp)
            elif expect == "same":
                if a != base:
                    c.oracle_fail(ln, "documented alternative form '%s' does not decode to the canonical value (got %s, canonical %s)" % (rule, a[:80], base[:80]), inp)
            elif expect == "rej":
                if a != "err rej":
                    c.oracle_fail(ln, "invalid form '%s' is accepted (%s)" % (rule, a[:80]), inp)
            elif expect == "eq":
                o = ans.get(other, "?")
                # TL2-enabled types: an explicit mask bit also sets the hidden TL2 presence of every field sharing the bit
                # (qt_struct.qtpl "BLOCK: set TL2 masks from TL1 masks"), so only the TL1 value is compared there
                if cs["tl2"]:
                    a, o = a.split(" j=")[0], o.split(" j=")[0]
                if not a.startswith("ok ") or a != o:
                    c.oracle_fail(ln, "form '%s' and its explicit-mask spelling decode differently (%s vs %s)" % (rule, a[:80], o[:80]), inp)


# ------------------------------------------------------------------ fixed lines: hand-built TL1 values, probes, witnesses
def enc(sc, ty, v, bare=True, params=()):
    """TL1 bytes of a Python value for descriptor type `ty`: int (bit pattern) for numbers, bytes for strings, bool,
    dict name→value for structs (absent masked fields omitted; `#` fields must be given consistently), list for arrays
    and dictionaries (of {"key","value"} dicts), (variant index, value) for unions, None / value for Maybe."""
    I = sc.desc["instances"]
    i = I[ty]
    k = i["kind"]
    u32 = lambda n: (n & 0xFFFFFFFF).to_bytes(4, "little")
    if k == "prim":
        p = i["prim"]
        if p in ("uint32", "int32", "float32"):
            return u32(v)
        if p in ("uint64", "int64", "float64"):
            return (v & (2 ** 64 - 1)).to_bytes(8, "little")
        if p == "string":
            n = len(v)
            hdr = bytes([n]) if n <= 253 else b"\xfe" + n.to_bytes(3, "little")
            bb = hdr + v
            return bb + bytes(-len(bb) % 4)
        if p == "bool":
            return u32(i["trueTag"] if v else i["falseTag"])
        if p == "byte":
            return bytes([v])
        return b""
    if k == "struct":
        out = b"" if bare else u32(i["tag"])
        fs = i.get("fields") or []
        if (i.get("isTypedef") or i.get("isUnwrap")) and not isinstance(v, dict):
            v = {fs[0]["name"]: v}
        vals = {}
        for idx, f in enumerate(fs):
            def na(a):
                return a["v"] if a["k"] == "num" else (params[a["v"]] if a["k"] == "param" else vals.get(a["v"], 0))
            if f.get("mask") and not (na(f["mask"]) >> f["bit"]) & 1:
                continue
            x = v.get(f["name"]) if isinstance(v, dict) else None
            t = I[f["ty"]]
            if t["kind"] == "prim" and t["prim"] == "uint32":
                vals[idx] = x or 0
            if x is None:
                x = {} if t["kind"] == "struct" else ([] if t["kind"] in ("array", "dict") else (b"" if t.get("prim") == "string" else (None if t.get("isMaybe") else 0)))
            out += enc(sc, f["ty"], x, f["bare"], [na(a) for a in f["natArgs"]])
        return out
    if k == "union":
        if i.get("isMaybe"):
            if v is None:
                return u32(I[i["variants"][0]]["tag"])
            return u32(I[i["variants"][1]]["tag"]) + enc(sc, i["variants"][1], v, True, params)
        n, x = v
        return u32(I[i["variants"][n]]["tag"]) + enc(sc, i["variants"][n], x, True, params)
    if k in ("array", "dict"):
        e = i["elem"]
        out = b"" if (k == "array" and i.get("isTuple")) else u32(len(v))
        for x in v:
            out += enc(sc, e["ty"], x, e["bare"], [a["v"] if a["k"] == "num" else (params[a["v"]] if a["v"] < len(params) else 0) for a in e["natArgs"]])
        return out
    raise ValueError(k)


def inst_by_name(sc, tlname):
    for i in sc.desc["instances"]:
        if i["tlname"] == tlname and i["kind"] in ("struct", "union") and i["natParams"] == 0:
            return i
    return None


NEG0_32, NEG0_64 = 0x80000000, 1 << 63
NAN32_P, NAN64_P = 0x7FC00001, 0x7FF8000000000002   # NaNs whose payload differs from the one "NaN" parses to


def fixed_values(sc):
    """[(tlname, python value, expectation, note)] — expectation "ok": must round-trip; "F…": witness of a known finding."""
    out = []
    if inst_by_name(sc, "cases.testDictString"):
        out += [("cases.testDictString", {"dict": [{"key": b"\xff", "value": 1}]}, "F1", "dictionary key that is not valid UTF-8"),
                ("cases.testDictString", {"dict": [{"key": b"a\nb", "value": 1}]}, "ok", "dictionary key that JSON escapes (F2, repaired in 540af2db)"),
                ("cases.testDictString", {"dict": [{"key": b"q\"", "value": 1}]}, "ok", "dictionary key that JSON escapes (F2, repaired in 540af2db)"),
                ("cases.testDictString", {"dict": [{"key": " ".encode(), "value": 1}]}, "ok", "dictionary key that JSON escapes (F2, repaired in 540af2db)"),
                ("cases.testDictAny", {"dict": [{"key": NEG0_64, "value": 1}]}, "ok", "-0.0 in an unmasked float64 field (L2, repaired)"),
                ("cases.testDictAny", {"dict": [{"key": NAN64_P, "value": 1}]}, "L3", "NaN with a payload"),
                ("cases.testDictAny", {"dict": [{"key": 0x7FF8000000000001, "value": 1}, {"key": 0xFFF0000000000000, "value": 2}]}, "ok", "NaN/-Inf")]
    if inst_by_name(sc, "jx.prims"):
        P = lambda **kw: dict({"a": 0, "b": 0, "c": 0, "d": 0, "e": b"", "f": False, "g": 0}, **kw)
        out += [("jx.prims", P(c=NEG0_32), "ok", "-0.0 in an unmasked float32 field (L2, repaired)"),
                ("jx.prims", P(d=NEG0_64), "ok", "-0.0 in an unmasked float64 field (L2, repaired)"),
                ("jx.prims", P(c=NAN32_P), "L3", "float32 NaN with a payload"),
                ("jx.prims", P(d=NAN64_P), "L3", "float64 NaN with a payload"),
                ("jx.prims", P(c=0xFFC00000), "L3", "float32 NaN with the sign bit"),
                ("jx.prims", P(c=0x7FC00000, d=0x7FF8000000000001, e=b"\xff\xfe"), "ok", "canonical NaNs, non-UTF-8 string"),
                ("jx.masked", {"m": 0b1100, "c": NEG0_32, "d": NEG0_64}, "ok", "-0.0 in masked fields is written explicitly"),
                ("jx.masked", {"m": 0b100001100, "c": 1, "d": 1, "v": [NEG0_32, 0, NEG0_32]}, "ok", "-0.0 as vector element"),
                ("jx.masked", {"m": 1 << 9, "mb": NEG0_64}, "ok", "-0.0 inside Maybe (L2, repaired)"),
                ("jx.vectors", {"a": [NEG0_32], "b": [NEG0_64, 0], "c": [b"\xff", b""], "d": [True, False], "e": [NEG0_32, 0, 1], "f": [b"", b"\x80"], "g": [[], [0]]}, "ok", "-0.0 / bad UTF-8 as elements"),
                ("jx.unionBox", {"u": (0, NEG0_32), "us": [], "mu": None}, "ok", "-0.0 in a typedef union variant (L2, repaired)"),
                ("jx.unionBox", {"u": (3, {"x": NEG0_32, "y": b""}), "us": [], "mu": None}, "ok", "-0.0 in a named union variant field (L2, repaired)"),
                ("jx.dicts", {"a": [{"key": b"k", "value": NEG0_32}], "b": [], "c": [], "d": [], "e": [], "f": [], "g": []}, "ok", "-0.0 as dictionary value"),
                ("jx.dicts", {"a": [], "b": [{"key": b"\xc3", "value": b"x"}], "c": [], "d": [], "e": [], "f": [], "g": []}, "F1", "dictionary key that is not valid UTF-8"),
                ("jx.dicts", {"a": [], "b": [{"key": b"\\", "value": b"x"}], "c": [], "d": [], "e": [], "f": [], "g": []}, "ok", "dictionary key that JSON escapes (F2, repaired in 540af2db)"),
                ("jx.dicts", {"a": [], "b": [{"key": b"ok", "value": b"\xff\\\"\n"}], "c": [], "d": [], "e": [], "f": [], "g": []}, "ok", "dictionary value with escapes / bad UTF-8")]
    if inst_by_name(sc, "jx.dictVec"):
        # map dictionaries with several entries whose values own memory (a reader must not alias one entry's value with another's)
        out += [("jx.dictVec", {"d": [{"key": b"a", "value": [1, 2, 3]}, {"key": b"b", "value": [4, 5]}, {"key": b"c", "value": []}]}, "ok", "dictionary of vectors, 3 entries"),
                ("jx.dictVecS", {"d": [{"key": 1, "value": [b"a", b"b", b"c"]}, {"key": 2, "value": [b"x", b"y"]}]}, "ok", "int-keyed dictionary of string vectors"),
                ("jx.dictDict", {"d": [{"key": b"a", "value": [{"key": b"p", "value": 1}, {"key": b"q", "value": 2}]},
                                       {"key": b"b", "value": [{"key": b"r", "value": 3}]}]}, "ok", "dictionary of dictionaries"),
                ("jx.dictStruct", {"d": [{"key": 1, "value": {"v": [1, 2, 3], "s": b"x"}}, {"key": 2, "value": {"v": [4], "s": b"y"}}],
                                   "e": [{"key": b"a", "value": [1, 2]}, {"key": b"b", "value": [3]}, {"key": b"c", "value": None}]}, "ok",
                 "dictionary of structs holding vectors, dictionary of Maybe vectors")]
    return out


def string_sweep_values(sc):
    """every single-byte string (0x00–0xff: all escapes of JSONWriteString, DEL, the 128 invalid-UTF-8 bytes) and every byte that needs
    escaping embedded in text, in VALUE positions: the bare `string` item, a vector element, a dictionary value, a union value"""
    out = []
    esc = list(range(0x20)) + [0x7f, 0x22, 0x5c, 0x2f, 0x3c, 0x3e, 0x26]
    multi = ["\u2028", "\u2029", "\u00e9", "\u0800", "\uffff", "\U00010000", "\U0010ffff"]
    if inst_by_name(sc, "string"):
        out += [("string", bytes([x]), "ok", "single byte 0x%02x" % x) for x in range(256)]
        out += [("string", b"a" + bytes([x]) + b"b" + bytes([x]), "ok", "byte 0x%02x embedded" % x) for x in esc]
        out += [("string", ("x" + m + "y").encode(), "ok", "multi-byte") for m in multi]
        out += [("string", bytes(esc), "ok", "all escapes in one string")]
    if inst_by_name(sc, "jx.vectors"):
        out += [("jx.vectors", {"a": [], "b": [], "c": [bytes([x]), b"p" + bytes([x])], "d": [], "e": [0, 0, 0], "f": [bytes([x]), b""], "g": []},
                 "ok", "byte 0x%02x as vector / tuple element" % x) for x in esc]
        out += [("jx.dicts", {"a": [], "b": [{"key": b"k", "value": bytes([x]) + b"v"}], "c": [{"key": 5, "value": bytes([x])}], "d": [], "e": [], "f": [], "g": []},
                 "ok", "byte 0x%02x as dictionary value" % x) for x in esc]
        out += [("jx.unionBox", {"u": (2, bytes([x])), "us": [(3, {"x": 1, "y": bytes([x, x])})], "mu": None}, "ok", "byte 0x%02x as union value" % x) for x in esc]
    if inst_by_name(sc, "cases.testDictString"):
        out += [("cases.testDictString", {"dict": [{"key": bytes([x]), "value": 1}, {"key": b"k" + bytes([x]) + b"z", "value": 2}]}, "ok",
                 "byte 0x%02x in dictionary keys" % x) for x in esc]
        out += [("cases.testDictString", {"dict": [{"key": ("a" + m).encode(), "value": 3}]}, "ok", "multi-byte dictionary key") for m in multi]
    if inst_by_name(sc, "cases.testUnionContainer"):
        out += [("cases.testUnionContainer", {"value": (1, {"value": b"u" + bytes([x])})}, "ok", "byte 0x%02x in a union variant field" % x) for x in esc]
    return out


def known_answer_ok(cls, a, model_out):
    """A known finding only covers the exact way its witness fails: anything else on that line is a new failure."""
    d = parse_out(a) if a.startswith("ok ") else {}
    if cls == "F1":
        return a == "ok j=!invalid valid=0 rt=rej"
    if cls == "L3":   # the model follows the code here: identical answers, TL1 changes
        return a == model_out and d.get("valid") == "1" and d.get("rt") == "tl1"
    if cls == "F3":
        return a == "panic"
    return True


def fixed_lines(sc):
    res = []
    for name, v, exp, note in fixed_values(sc) + string_sweep_values(sc):
        i = inst_by_name(sc, name)
        if i is None:
            continue
        bts = enc(sc, i["idx"], v, bare=False)
        res.append(("codec.xj %s %d %s 1 %s" % (sc.sid, i["idx"], name, bts.hex()), exp, note))
    return res


def probe_lines(sc, items):
    """`{}` read by every factory item: a type whose reader/writer pair panics on the empty object (finding F3) is reported
    once here and left out of the random stream, where every value would hit the same defect."""
    return ["codec.rj %s %d %s 0 7b7d" % (sc.sid, inst["idx"], inst["tlname"]) for inst, it in items if inst["kind"] == "struct"]


def mask_probe_lines(sc, rw, items):
    """`{"<mask>": bit}` with the masked struct-typed field left out, per factory struct and such field: documented as
    "bit set, field absent = empty value". Where the field is a recursive pointer the reader leaves it nil and WriteJSON
    panics (finding F3); those (struct, field) pairs are reported once and the rewrite is not applied to them elsewhere."""
    I = sc.desc["instances"]
    res = {}
    for inst, it in items:
        if inst["kind"] != "struct" or inst.get("isTypedef") or inst.get("isUnwrap"):
            continue
        fields = inst.get("fields") or []
        for f in fields:
            m = f.get("mask")
            t = I[f["ty"]]
            if not m or m["k"] != "field" or f.get("isBit") or f["natArgs"]:
                continue
            if t["kind"] != "struct" or t.get("isTypedef") or t.get("isUnwrap") or not t.get("fields"):
                continue
            tree = rw.set_bits(fields, ("o", []), f)
            res[rj_line(sc, inst, 0, tree)] = (inst["idx"], f["name"])
    return res


# ------------------------------------------------------------------ TL2-origin schemas: values travel as JSON written by FillRandom'd objects
def dump_of_text(text):
    """canonical tree dump of a JSON text (Python's json as an independent tokenizer; member order/duplicates and number text kept)"""
    import json

    def conv(x):
        if x is None:
            return "z"
        if x is True:
            return "t"
        if x is False:
            return "f"
        if isinstance(x, _Num):
            return "n" + x.t
        if isinstance(x, str):
            return "s" + x.encode("utf-8", "surrogatepass").hex()
        if isinstance(x, _Obj):
            return "{" + ",".join(k.encode("utf-8", "surrogatepass").hex() + ":" + conv(v) for k, v in x.ms) + "}"
        if isinstance(x, list):
            return "[" + ",".join(conv(e) for e in x) + "]"
        raise ValueError(type(x))

    v = json.loads(text.decode("utf-8", "surrogateescape"), object_pairs_hook=_Obj, parse_int=_Num, parse_float=_Num, parse_constant=_Num)
    return conv(v)


class _Num:
    def __init__(self, t):
        self.t = t


class _Obj:
    def __init__(self, ms):
        self.ms = ms


def tl2_origin_values(c, sc, items, rng, per):
    """phase A (implementation only): FillRandom → JSON text + TL2 bytes per factory item"""
    from vlib.core import run_lines
    lines = []
    for inst, it in items:
        for _ in range(per):
            lines.append("codec.jr %s %d %s %d" % (sc.sid, inst["idx"], inst["tlname"], rng.below(2 ** 48)))
    lines = sorted(set(lines))
    out = run_lines(sc.impl, lines, prefix=[sc.desc_line()])
    vals = []
    for l, a in zip(lines, out):
        f = l.split(" ")
        if a == "panic":
            # FillRandom of a TL2-origin recursive optional field dereferences the nil pointer (generated FillRandom: C18's subject,
            # not a JSON defect): no value to transport
            c.count("jr:fillrandom-panic:" + f[3])
            continue
        if not a.startswith("ok "):
            continue
        d = parse_out(a)
        text = bytes.fromhex(d["t"]) if d["t"] != "-" else b""
        if d.get("valid") != "1":
            c.oracle_fail(l, "JSON written by generated code is not syntactically valid JSON", l)
            continue
        vals.append({"inst": int(f[2]), "name": f[3], "text": text, "w2": d.get("w2"), "src": l})
    return vals


def tl2_origin_roundtrip(c, sc, model, vals):
    """phase B (tie): the text is read by both sides and re-written; phase C (implementation only): TL2 bytes after the JSON round trip.
    Returns pseudo phase-1 results [(xj-like line, 'ok j=<dump> valid=1 rt=ok')] for the C06 rewriter."""
    from vlib.core import run_lines
    pre = [sc.desc_line()]
    by_line = {}
    for v in vals:
        by_line["codec.rj %s %d %s 0 %s" % (sc.sid, v["inst"], v["name"], v["text"].hex() or "-")] = v
    res = c.tie("rj2:" + sc.sid, sorted(by_line), sc.impl, model, prefix=pre)
    pseudo = []
    for l, a, _ in res:
        v = by_line[l]
        try:
            want = dump_of_text(v["text"])
        except Exception:
            c.oracle_fail(v["src"], "JSON written by generated code cannot be parsed", v["src"])
            continue
        if a == "panic":
            c.oracle_fail(l, "generated code panics reading back / re-writing its own JSON", l)
        elif not a.startswith("ok "):
            c.oracle_fail(l, "JSON written by generated code is rejected by its own reader", l)
        elif parse_out(a).get("j") != want:
            c.oracle_fail(l, "JSON round trip changes the JSON encoding", l)
        else:
            pseudo.append(("codec.xj %s %d %s 1 -" % (sc.sid, v["inst"], v["name"]), "ok j=%s valid=1 rt=ok" % want, None))
    l2 = {"codec.j2 %s %d %s %s" % (sc.sid, v["inst"], v["name"], v["text"].hex() or "-"): v for v in vals}
    keys = sorted(l2)
    for l, a in zip(keys, run_lines(sc.impl, keys, prefix=pre)):
        v = l2[l]
        if a.startswith("ok ") and parse_out(a).get("w2") != v["w2"]:
            c.oracle_fail(l, "JSON round trip changes the TL2 encoding", l)
        c.count("tl2origin:" + a.split(" ")[0])
    return pseudo
