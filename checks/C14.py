"""C14 — Every accepted schema yields Go code that builds; generator never panics (DESIGN.md §4 C14)."""
import os
import re
import subprocess

from vlib.core import REPO
from checks.toolgen import hxt, build_clis, harness_env, replay_lines, helper, overlays, scratch_module, FILE_MARKER
from checks.toolschema import SchemaGen, mutate, PRELUDE

MODULES = ["TLVerif.Props.C14"]
THEOREMS = ["TLVerif.Props.C14." + t for t in [
    "deconflict_terminates", "deconflict_fresh", "deconflict_first_free", "deconflict_keeps_free_name",
    "deconflict_all_distinct", "names_avoid_golang_identifiers"]]

NOPT = 10
TL2_SAFE_OPTS = [0, 1, 2, 3, 4, 5, 8, 9]   # 6, 7: TL2 functions without --tl2WhiteList=* (known finding K6)

P_DICT = ("int#a8509bda ? = Int;\nstring#b5286e24 ? = String;\nvector#1cb5c415 {t:Type} # [t] = Vector t;\n"
          "dictionaryField {t:Type} key:string value:t = DictionaryField t;\n"
          "dictionary#1f4c618f {t:Type} %(Vector %(DictionaryField t)) = Dictionary t;\n")
# Known findings (known_findings.d/C14.json): fixed witnesses, replayed on every run; their triggers are kept out of the
# random stream (see checks/toolschema.py) so that anything else that fails is new.
WITNESSES = [
    ("K1", 0, "foo string:int = Foo;\n", "ok buildfail"),
    ("K1b", 2, "foo m:# calculateLayout:m.0?int = Foo;\n", "ok buildfail"),
    ("K2", 0, "//tl2\nt2.box0 = ;\n@read t2.fn0#0bd7437c x:int32 => t2.box0;\n", "ok buildfail"),
    ("K3", 0, "//tl2\nt2.read0 = ;\nzq.obj1 = f0:string f1?:t2.read0;\n", "ok buildfail"),
    ("K3b", 0, "empty = Empty;\nfoo m:# x:m.0?Empty = Foo;\n", "ok buildfail"),
    ("K4a", 0, "//tl2\nt2.a = f1:[]bit;\n", "ok buildfail"),
    ("K4b", 0, "//tl2\nt2.a = f1:[string]bit;\n", "panic"),
    ("K5", 5, P_DICT + "foo w:(dictionary (dictionary string)) = Foo;\n", "ok buildfail"),
    ("K6", 6, "//tl2\n@read t2.fn0#913747a7 x:int32 => int64;\n", "ok buildfail"),
]
WHAT = {
    "K1": "field named `string` (also reset, readJSON, writeJSON, fillRandom, tLName, tLTag, marshalJSON, unmarshalJSON, readTL1, writeTL1, "
          "writeJSONOpt, readJSONGeneral) collides with a generated method: accepted, generated Go does not compile",
    "K1b": "with TL2 code enabled a field named calculateLayout / internalReadTL2 / internalWriteTL2 collides with a generated method",
    "K2": "TL2 function whose result is a TL2 struct or array, generated without --tl2WhiteList: result type lacks TL2 methods, Go does not compile",
    "K3": "TL2 optional field of an empty struct type: generated Go does not compile (bool assigned to struct)",
    "K3b": "TL1 field under a fields mask whose type is an empty struct (`empty = Empty; foo m:# x:m.0?Empty = Foo;`, default options): "
           "generated Go does not compile (bool assigned to struct)",
    "K4a": "TL2 `bit` as array element ([]bit, [N]bit): generated Go refers to undefined BitReadTL1",
    "K4b": "TL2 `bit` as dictionary value ([K]bit): tl2gen --language=go panics (nil dereference in streamwriteJSONCode)",
    "K5": "nested dictionary with --split-internal --tl2WhiteList=* --generateByteVersions=*: unused import in generated Go",
    "K6": "TL2 function with --generateRPCCode but without --tl2WhiteList: args.WriteTL2 undefined in generated Go",
}


def gb_line(opt, text):
    return "tool.genbuild %d %s" % (opt, hxt(text))


def dec_lines(rng, n):
    pool = ["Write", "Read", "WriteTL2", "ReadTL2", "Foo", "Foo0", "Foo1", "Foo00", "Bar", "Write0", "Read0", "X", "X0", "X1", "X2", "X10",
            "A_b", "a", "A", "Foo01", "Write00", "ReadTL20"]
    out = []
    for _ in range(n):
        k = rng.range(0, 14)
        small = rng.chance(1, 2)
        names = [rng.choice(pool[:6] if small else pool) for _ in range(k)]
        out.append("tool.dec %d %s" % (rng.below(2), ",".join(names) or "-"))
    # exhaustive over a 3-letter alphabet up to length 5
    import itertools
    for L in range(1, 6):
        for combo in itertools.product(["X", "X0", "X1"], repeat=L):
            out.append("tool.dec 0 " + ",".join(combo))
    return out


def run(c):
    c.lean(MODULES, THEOREMS)
    model = c.model_exe()
    impl = c.harness("htool", overlays=overlays())
    sc = scratch_module(c)
    env = harness_env(c, dict(build_clis(c), VERIF_SCRATCH=sc))
    rng = c.rng
    c.trusted += ["go/htool harness; the Go toolchain (go build of the generated packages in a scratch module that replaces "
                  "github.com/VKCOM/tl by the tree under verification)",
                  "modelled, not verified: Go map semantics of usedNames, strconv.Itoa (= Nat.repr)"]
    c.assumptions += ["'compiles' is decided by the Go compiler on the explored schemas only; the naming mechanism is the proved part",
                      "triggers of the known findings K1-K6 are kept out of the random stream and exercised by fixed witnesses"]
    replay = replay_lines(c)
    # ---- tie: deconflicter vs model; oracle: names pairwise distinct, free names unchanged
    dl = [l for l in replay if l.startswith("tool.dec")] + dec_lines(rng, 3000 if c.thorough else 800)
    res = c.tie("deconflict", dl, impl, model, env=env)
    for l, a, _ in res:
        if not a.startswith("ok"):
            c.oracle_fail(l, "DeconflictName did not return (%s)" % a, l)
            continue
        names = [] if a == "ok -" else a.split(" ")[1].split(",")
        if len(set(names)) != len(names):
            c.oracle_fail(l, "DeconflictName returned the same name twice: " + a, l)
        if l.split(" ")[1] == "1" and set(names) & {"Write", "Read", "WriteTL2", "ReadTL2"}:
            c.oracle_fail(l, "a reserved Go identifier was handed out: " + a, l)
    # ---- exploration: generation of every case, then ONE go build of all outputs
    cases = []   # (id, opt, text, kind)
    for l in replay:
        if l.startswith("tool.genbuild"):
            f = l.split(" ")
            cases.append(("r%d" % len(cases), int(f[1]), bytes.fromhex(f[2]).decode() if f[2] != "-" else "", "replay"))
    for name, opt, text, _ in WITNESSES:
        cases.append(("w" + name.lower(), opt, text, "witness:" + name))
    tls = os.path.join(REPO, "internal", "tlcodegen", "test", "tls")
    try:
        cases_tl = open(os.path.join(tls, "cases.tl")).read()
        cases_tl2 = "//tl2\n" + open(os.path.join(tls, "cases.tl2")).read()
        cases.append(("corpcases", 2, cases_tl + FILE_MARKER + cases_tl2, "corpus"))
        if c.thorough:
            cases.append(("corpcases5", 5, cases_tl + FILE_MARKER + cases_tl2, "corpus"))
            gm = "".join(open(os.path.join(tls, n)).read() + FILE_MARKER for n in ("goldmaster.tl", "goldmaster2.tl"))
            cases.append(("corpgold", 1, gm + open(os.path.join(tls, "goldmaster3.tl")).read(), "corpus"))
            cases.append(("corpschema", 4, open(os.path.join(tls, "schema.tl")).read(), "corpus"))
    except OSError:
        pass
    nvalid = 40 if c.thorough else 6
    nmut = 80 if c.thorough else 24
    for i in range(nvalid):
        g = SchemaGen(rng.fork())
        opt = rng.choice(TL2_SAFE_OPTS) if g.tl2 else rng.below(NOPT)
        cases.append(("v%d" % i, opt, g.full_text(rng.range(1, 3)), "random"))
    for i in range(nmut):
        g = SchemaGen(rng.fork(), size=rng.range(1, 5), tl2=False)
        cases.append(("m%d" % i, rng.below(NOPT), mutate(g.text(), rng), "mutated"))
    # boundary probes: numeric limits of the schema language (field-mask bit numbers, constant sizes); each must be accepted and
    # compile, or be rejected with a message — never panic
    B = "int#a8509bda ? = Int;\nstring#b5286e24 ? = String;\ntuple#9770768a {t:Type} {n:#} [t] = Tuple t n;\n"
    for bit in (0, 30, 31, 32, 33, 63, 64, 255, 256, 4294967295, 4294967296):
        cases.append(("bb%d" % len(cases), 0, B + "bb.opts flags:# a:flags.0?int b:flags.%d?string c:int = bb.Opts;\n" % bit, "boundary"))
        cases.append(("bb%d" % len(cases), 0, B + "bb.inner {m:#} a:m.%d?int = bb.Inner m;\nbb.outer f:# x:(bb.inner f) = bb.Outer;\n" % bit, "boundary"))
    for n in (0, 1, 2, 255, 65536, 4294967295, 4294967296):
        cases.append(("bb%d" % len(cases), 0, B + "bb.tup a:(tuple int %d) = bb.Tup;\n" % n if n < 1000 else B + "bb.tup n:# a:(tuple int n) b:(tuple (tuple int %d) 0) = bb.Tup;\n" % n, "boundary"))
    # L8 (kernel ignores its cycle finder): accepted, must still build
    cases.append(("l8", 0, "loopA x:loopA = LoopA;\n", "lead-L8"))
    lines = ["tool.gen %s %d %s" % (cid, opt, hxt(text)) for cid, opt, text, _ in cases]
    out = helper(impl, lines, env, jobs=16)
    known = {gb_line(opt, text): (name, exp) for name, opt, text, exp in WITNESSES}
    accepted = {}
    verdicts = {}
    for (cid, opt, text, kind), a in zip(cases, out):
        c.evaluations += 1
        key = gb_line(opt, text)
        c.count("gen:%s:%s" % (kind.split(":")[0], a.replace(" ", "_")))
        verdicts[cid] = a
        if a == "ok":
            accepted[cid] = key
        elif a == "panic" or a in ("crash", "CRASH"):
            c.oracle_fail(key, "tl2gen --language=go panicked / crashed (%s)" % a, key)
        elif a.startswith("err"):
            if "nomsg" in a:
                c.oracle_fail(key, "schema rejected without any message", key)
            if "dirty" in a:
                c.oracle_fail(key, "schema rejected but the output directory was modified (partially written code)", key)
        else:
            c.oracle_fail(key, "unexpected harness answer " + a, key)
    e = dict(env)
    e["GOFLAGS"] = "-mod=mod"
    failed = {}
    if accepted:
        p = subprocess.run(["go", "build", "./gen/..."], cwd=sc, env=e, stdout=subprocess.PIPE, stderr=subprocess.STDOUT, text=True)
        for l in p.stdout.split("\n"):
            m = re.match(r"(?:# verif\.local/h/gen/|gen/)([a-z0-9]+)/", l)
            if m:
                failed.setdefault(m.group(1), []).append(l[:200])
        if p.returncode != 0 and not failed:
            c.proof_failures.append({"stage": "go build of generated code", "detail": p.stdout[-2000:]})
    for cid, key in accepted.items():
        c.distinct.add(key[:300])
        if cid in failed:
            c.count("build:fail")
            msgs = [x for x in failed[cid] if not x.startswith("#")]
            c.oracle_fail(key, "accepted schema, generated Go code does not compile: " + (msgs[0] if msgs else failed[cid][0]), key)
        else:
            c.count("build:ok")
    # the witnesses must still show their defect (otherwise the finding is fixed and the entry is stale: say so)
    for name, opt, text, exp in WITNESSES:
        cid = "w" + name.lower()
        got = verdicts.get(cid, "?")
        if got == "ok":
            got = "ok buildfail" if cid in failed else "ok built"
        if got != exp:
            c.notes.append("known finding %s no longer reproduces (expected %s, got %s): remove it from known_findings.d/C14.json" % (name, exp, got))
    c.extra["rule"] = ("tool.dec: all request sequences of length <= 5 over {X, X0, X1} + random sequences over 22 names with/without the pre-filled "
                       "Go identifiers (tied to the model); generation: corpus (cases.tl+cases.tl2%s), %d random schemas (namespaces, unions, enums, templates, "
                       "nat parameters, masks, tuples, dictionaries, Maybe, mutually recursive cycles, names near Go keywords/methods, optional TL2 part, "
                       "1-3 files) and %d single-edit mutations x 10 option sets (--split-internal, --tl2WhiteList, --generateByteVersions, "
                       "--generateRandomCode, --generateRPCCode, --checkLengthSanity=false and combinations); every accepted case is compiled "
                       "(one `go build ./gen/...` in a scratch module); distinct = distinct accepted (options, schema)" % (
                           ", goldmaster, schema" if c.thorough else "", nvalid, nmut))
