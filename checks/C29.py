"""C29 — the linter accepts documented safe schema evolutions (DESIGN.md §4 C29/C30)."""
from checks import lintlib as L

MODULES = ["TLVerif.Props.C29"]
THEOREMS = ["TLVerif.Props.C29." + t for t in [
    "lint_refl",
    "accepts_insertions",
    "accepts_append_constructor_to_union",
    "accepts_append_constructor_boxed",
    "accepts_new_type",
    "accepts_new_function",
    "accepts_append_masked_field"]]


def run(c):
    c.lean(MODULES, THEOREMS, sources=["TLVerif.Lint.Ast", "TLVerif.Lint.Core", "TLVerif.Lint.Spec", "TLVerif.Lint.CoreLemmas",
                                       "TLVerif.Lint.Examples", "TLVerif.Lint.Driver"])
    model = c.model_exe()
    impl = c.harness("hlint")
    c.trusted += ["go/hlint harness: token -> TL text renderer (self-checked: the real parser's AST must dump back to the same tokens)",
                  "modelled, not verified: Go map/slice semantics inside CheckBackwardCompatibility"]
    lines = []
    if c.replay:
        for f in c.replay.get("failures", []):
            if f.get("input"):
                lines.append((f["input"], "replay-fail", {}))
        for t in c.replay.get("broken_ties", []):
            lines.append((t["line"], "replay", {}))
    samples, proto = L.sample_lines(impl)
    for ln, exp, f in samples:
        lines.append((ln, "sample-" + exp, {"file": f}))
    if proto:
        lines.append(("lint.check %s %s" % (proto, proto), "self", {"file": "prototype.tl"}))
    lines += L.build_cases(c, impl, 900 if c.thorough else 110)
    res = c.tie("verdict", [l for l, _, _ in lines], impl, model)
    for (l, kind, meta), (_, a, _) in zip(lines, res):
        c.count("kind:" + kind + ":" + a)
        if kind == "replay-fail" and a != "acc":
            c.oracle_fail(l, "replayed safe edit not accepted: verdict %s" % a, l)
        if kind in ("self", "safe", "sample-acc") and a != "acc":
            what = {"self": "a schema is not accepted as compatible with itself",
                    "safe": "documented safe edit(s) %s not accepted" % ",".join(m["kind"] for m in meta.get("edits", [])),
                    "sample-acc": "repository sample %s (correct change) not accepted" % meta.get("file")}[kind]
            c.oracle_fail(l, what + " (verdict %s)" % a, l)
        if kind == "safe":
            for m in meta["edits"]:
                c.count("safe-edit:" + m["kind"])
    c.extra["rule"] = ("random base schemas (prelude + generic library + 2..6 random types incl. unions, nat/Type template arguments, "
                       "masks, repeats, 0..3 functions; # arguments in 1st and 2nd position flowing through 2 and 3 template levels; half of them with a planted 2-mask combinator) x {identity, 3 random sequences of 1..4 documented safe edits incl. several appends under different masks in one comparison, 8 single unsafe "
                       "edits, 2 mixed sequences} + the repository's samples; the C29 oracle (verdict = accept) is applied to identity, "
                       "safe sequences and correct-changes samples; every line is also a model-vs-code verdict comparison; distinct = "
                       "distinct line text")
