"""C22 — TL2 formatter round-trips and is idempotent (DESIGN.md §4 C21/C22)."""
from checks import syntaxtl2_gen as G
from vlib.core import hx

LEVEL = "translation_validation"
MODULES = ["TLVerif.Props.C22"]
THEOREMS = ["TLVerif.Props.C22." + t for t in [
    "canonical_print_core_only", "print_visible_only", "canonical_idempotent_of_roundtrip",
    "default_idempotent_of_visible_roundtrip", "wOne_parsed", "wDep_parsed", "one_variant_union_roundtrips_now",
    "roundtrip_fails_at_dep_name", "statement_fails", "witnesses_outside_guard",
    "type_roundtrip_tokens", "fields_roundtrip_tokens", "struct_roundtrip_tokens", "parse_of_printed_token_sequence",
    "roundtrip_of_lex_certificate", "canonical_idempotent_of_lex_certificate"]]
SOURCES = ["TLVerif.Syntaxtl2.Basic", "TLVerif.Syntaxtl2.Lexer", "TLVerif.Syntaxtl2.Text", "TLVerif.Syntaxtl2.Ast",
           "TLVerif.Syntaxtl2.Parser", "TLVerif.Syntaxtl2.Format", "TLVerif.Syntaxtl2.Driver",
           "TLVerif.Syntaxtl2.FormatLemmas", "TLVerif.Syntaxtl2.RoundTripLemmas", "TLVerif.Syntaxtl2.StripLemmas",
           "TLVerif.Syntaxtl2.FieldLemmas", "TLVerif.Syntaxtl2.VariantLemmas", "TLVerif.Syntaxtl2.UnionLemmas",
           "TLVerif.Syntaxtl2.StructLemmas", "TLVerif.Syntaxtl2.DeclLemmas", "TLVerif.Syntaxtl2.CombLemmas",
           "TLVerif.Syntaxtl2.FileLemmas"]

# witness of the known finding (known_findings.d/C22.json is keyed by this line); the one-variant-union lines are the
# regression inputs of the defect repaired in /repo 11a4a9c8 (`a = | B;` was printed as `a = B;`)
W_DEP = "syntaxtl2.fmt c " + hx(b"a = _x:int;\n")
W_ONE = "syntaxtl2.fmt c " + hx(b"a = | B;\n")
WITNESSES = [W_DEP, "syntaxtl2.fmt d " + hx(b"a = _x:int;\n"), W_ONE, "syntaxtl2.fmt d " + hx(b"a = | B;\n"),
             "syntaxtl2.fmt c " + hx(b"f#00000001 => | B;\n")]


def oracle(c, line, out):
    """the property's own oracle on one implementation output of syntaxtl2.fmt; returns a class for the histogram"""
    if out in ("panic", "CRASH"):
        c.oracle_fail(line, "parse/format panicked", line)
        return "panic"
    if not out.startswith("ok "):
        return "rejected"
    p = dict(x.split("=") for x in out.split(" ")[2:])
    dep, one = p["dep"] == "true", p["one"] == "true"
    rt, idem = p["rt"], p["idem"]
    if rt == "same" and idem == "yes":
        return "holds" if not dep else "holds-outside-guard"
    # property fails on this input
    if rt == "diff" and idem == "yes" and dep:
        c.oracle_fail(W_DEP, "formatted text parses to different declarations (deprecated field name `_name` printed as `_`)", line)
        return "known:dep"
    what = {"err": "formatted text does not parse", "diff": "formatted text parses to different declarations",
            "same": "formatting is not idempotent"}[rt]
    if rt != "same" and idem == "no":
        what += " and formatting is not idempotent"
    c.oracle_fail(line, what + " (options=%s)" % line.split(" ")[1], line)
    return "fails"


def run(c):
    c.facts(["Syntaxtl2"])
    c.lean(MODULES, THEOREMS, sources=SOURCES)
    model = c.model_exe()
    impl = c.harness("hsyntaxtl2", overlays=G.OVERLAYS)
    rng = c.rng
    c.trusted += ["go/hsyntaxtl2 harness + overlay accessors (read-only, //go:build verif); factgen constant extraction",
                  "modelled, not verified: strings.Builder, strings.TrimSpace/Split, fmt %08x, strconv.FormatUint "
                  "(re-implemented in the model and compared through the tie)"]
    c.assumptions += ["`same declarations` = equal AST by the selected branches without position ranges and comments "
                      "(the `cm=` field additionally reports whether comments survived; not part of the verdict)"]
    texts = []
    if c.replay:
        for f in c.replay.get("failures", []):
            if f.get("input"):
                texts.append(("replay", G.unhex(f["input"].split(" ")[-1])))
        for t in c.replay.get("broken_ties", []):
            texts.append(("replay", G.unhex(t["line"].split(" ")[-1])))
    corp = G.corpus()
    for name, t in corp:
        texts.append(("corpus", t))
    for t in G.comment_positions():
        texts.append(("comment-positions", t))
    scale = 8 if c.thorough else 1
    g = G.Gen(rng)
    gw = G.Gen(rng, wide=True)
    gn = G.Gen(rng, comments=False, rare=1)
    for _ in range(1800 * scale):
        texts.append(("generated", g.file()))
    for _ in range(800 * scale):
        texts.append(("generated-wide", gw.file(n=rng.range(1, 2))))
    for _ in range(500 * scale):
        texts.append(("generated-nocomments", gn.file()))
    for _ in range(250 * scale):
        for t in g.threshold_family(rng.choice([120, 120, 80, 80, 100, 60])):
            texts.append(("threshold", t))
    for _ in range(1000 * scale):
        texts.append(("generated-mutated", G.mutate(rng, g.file(), 1)))
    for _ in range(1000 * scale):
        texts.append(("near-valid-soup", G.near_valid_soup(rng)))
    seen = set()
    lines, kind = list(WITNESSES), {w: "witness" for w in WITNESSES}
    for k, t in texts:
        if t in seen:
            continue
        seen.add(t)
        for o in ("d", "c"):
            ln = G.fmt_line(o, t)
            if ln not in kind:
                kind[ln] = k
                lines.append(ln)
    res = c.tie("format", lines, impl, model, nontrivial=lambda l, a: a.startswith("ok "))
    second = []
    for l, a, _ in res:
        cls = oracle(c, l, a)
        c.count("gen:" + kind[l] + ":" + cls)
        if a.startswith("ok ") and "rt=err" not in a:
            # the formatted text is itself an input: format(parse(format f)) must be a fixed point for both option sets
            second.append(G.fmt_line(l.split(" ")[1], G.unhex(a.split(" ")[1])))
    second = sorted(set(second) - set(lines))
    if not c.thorough:
        second = second[:2500]
    res2 = c.tie("format-of-formatted", second, impl, model, nontrivial=lambda l, a: a.startswith("ok "))
    for l, a, _ in res2:
        cls = oracle(c, l, a)
        c.count("gen:formatted:" + cls)
        if a.startswith("ok ") and G.unhex(a.split(" ")[1]) != G.unhex(l.split(" ")[2]) and "rt=err" not in a:
            if "dep=true" not in a:
                c.oracle_fail(l, "text produced by the formatter is not a fixed point of the formatter", l)
    # T3 certificate: for every accepted text and both option sets the model evaluates (i) File.wf of the parsed file (the
    # hypothesis of the token-level theorems) and (ii) the lexing certificate `lexCert (printFile o f) f`; where both hold,
    # TLVerif.Props.C22.roundtrip_of_lex_certificate PROVES parse(format o f) ≃ f for that instance (the tie shows the model's
    # f and text are Go's).
    from vlib.core import run_lines
    cert_lines = sorted(set("syntaxtl2.cert %s %s" % (l.split(" ")[1], l.split(" ")[2]) for l, a, _ in res if a.startswith("ok ")))
    cert_out = run_lines(model, cert_lines)
    cert = {"evaluated": 0, "certified:c": 0, "certified:d": 0, "wf_but_no_lexcert:c": 0, "wf_but_no_lexcert:d": 0,
            "outside_wf:c": 0, "outside_wf:d": 0, "other": 0}
    implout = {l: a for l, a, _ in res}
    for l, o in zip(cert_lines, cert_out):
        cert["evaluated"] += 1
        opt = l.split(" ")[1]
        if o == "ok wf=true lexcert=true":
            cert["certified:" + opt] += 1
            # a certified instance must round-trip on the implementation (else model/theorem/tie are inconsistent)
            a = implout.get("syntaxtl2.fmt %s %s" % (opt, l.split(" ")[2]), "")
            if "rt=same" not in a:
                c.oracle_fail(l, "instance certified by roundtrip_of_lex_certificate does not round-trip on the implementation", l)
        elif o == "ok wf=true lexcert=false":
            cert["wf_but_no_lexcert:" + opt] += 1
        elif o == "ok wf=false":
            cert["outside_wf:" + opt] += 1
        else:
            cert["other"] += 1
    c.extra["certificates"] = cert
    c.extra["programs"] = cert["certified:c"] + cert["certified:d"]
    for k, v in cert.items():
        c.count("cert:" + k, v)
    c.extra["rule"] = ("one case = (options ∈ {default, canonical}, input text); the text is parsed by tlast.ParseTL2File, printed by "
                       "TL2File.String()/Print(canonical), parsed again (declarations compared by canonical dump) and printed again "
                       "(compared byte for byte); texts: all TL2 texts of the repository, a directed family with a // comment in every "
                       "comment position (above a declaration, above every variant incl. the only one, above/right of fields, trailing), "
                       "files from the type-directed generator with random "
                       "layout and comments (narrow, wide, comment-free), families straddling the 120/80 line-breaking thresholds, single-edit "
                       "mutations, grammar-shaped soups, then every formatted output again as input; distinct = distinct (options, text); "
                       "non-trivial = the text parses; histogram gen:<generator>:<holds|known:dep|rejected|fails>")
