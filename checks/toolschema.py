"""Random TL1/TL2 schema generator for the tool family (C14 builds, C15 determinism).
Type-directed: builds a list of declarations with known references, prints TL1 text and (optionally) a TL2 part in
separate namespaces; mostly valid; `mutate` produces the malformed stream.  All choices come from the given SplitMix64."""

PRELUDE = """int#a8509bda ? = Int;
long#22076cba ? = Long;
string#b5286e24 ? = String;
double#2210c154 ? = Double;
float#824dab22 ? = Float;
vector#1cb5c415 {t:Type} # [t] = Vector t;
tuple#9770768a {t:Type} {n:#} [t] = Tuple t n;
dictionaryField {t:Type} key:string value:t = DictionaryField t;
dictionary#1f4c618f {t:Type} %(Vector %(DictionaryField t)) = Dictionary t;
true = True;
resultFalse#27930a7b {t:Type} = Maybe t;
resultTrue#3f9c8ef8 {t:Type} t = Maybe t;
pair {X:Type} {Y:Type} x:X y:Y = Pair X Y;
boolFalse#bc799737 = Bool;
boolTrue#997275b5 = Bool;
"""

NAMESPACES = ["", "", "aa", "bb", "svc", "data_x"]
# base names; several differ only by case / underscore on purpose (the kernel must either reject them or the
# generator must keep the Go identifiers apart)
BASES = ["item", "itemList", "item_list", "box", "boxed", "node", "tree", "point", "user", "userInfo", "user_info",
         "read", "write", "string2", "type", "func", "range", "map", "value", "reset", "result", "meta", "factory",
         "internal", "tl", "client", "handler", "q", "x1", "itemlist"]
# Field names.  Known finding K1 (known_findings.d/C14.json): a field whose Go name equals a generated method name
# (string, reset, readJSON, writeJSON, fillRandom, tLName, tLTag, marshalJSON, unmarshalJSON, readTL1, writeTL1,
# writeJSONOpt, readJSONGeneral; case / underscore variants) gives code that does not compile.  Those names are kept
# out of the random stream (the fixed witnesses exercise them); near misses that DO compile stay in.
FIELD_NAMES = ["a", "b", "id", "name", "value", "flags", "fields_mask", "read", "write", "rEset", "readBoxed", "x_y", "xY",
               "type", "len", "n", "data", "next", "items", "key", "tl", "basictl", "item", "w", "err", "tlName",
               "set", "isSet", "clear", "readTL2", "writeTL2", "write_JSON", "func", "range", "go"]
PRIMS = ["int", "long", "string", "double", "float", "#", "Bool", "int", "string"]


def cap(s):
    return s[:1].upper() + s[1:]


class Decl:
    def __init__(self, ns, base, kind):
        self.ns, self.base, self.kind = ns, base, kind  # kind: struct | union | enum | tmpl | natp | func
        self.ctors = []      # [(ctor_name, fields_text)]
        self.targs = ""      # "{X:Type}" / "{n:#}"
        self.res = ""        # " X" / " n"
        self.result = None   # for functions

    @property
    def cname(self):
        return (self.ns + "." if self.ns else "") + self.base

    @property
    def tname(self):
        return (self.ns + "." if self.ns else "") + cap(self.base)


class SchemaGen:
    def __init__(self, rng, size=None, tl2=None, cycle=None):
        self.r = rng
        self.decls = []
        self.used = set()
        n = size if size is not None else rng.range(2, 10)
        for i in range(n):
            self.add_decl()
        if cycle if cycle is not None else rng.chance(1, 3):
            self.add_cycle()
        nf = rng.range(0, 3)
        for i in range(nf):
            self.add_func()
        self.tl2 = self.gen_tl2() if (tl2 if tl2 is not None else rng.chance(1, 3)) else ""

    # ------------------------------------------------------------ names
    def fresh_name(self):
        r = self.r
        for _ in range(50):
            ns = r.choice(NAMESPACES)
            base = r.choice(BASES)
            if r.chance(1, 3):
                base += str(r.below(3))
            key = (ns + "." + base).lower().replace("_", "")
            if key in self.used and r.chance(9, 10):
                continue
            self.used.add(key)
            return ns, base
        return "", "uniq%d" % len(self.used)

    # ------------------------------------------------------------ type references
    def type_ref(self, d, depth=0, natvars=(), tvars=()):
        """A field type; may refer to earlier declarations (and to itself through vector/Maybe for recursion)."""
        r = self.r
        k = r.below(14)
        concrete = [x for x in self.decls if x.kind in ("struct", "union", "enum")]
        if k < 5 or depth > 2:
            if tvars and r.chance(1, 3):
                return r.choice(tvars)
            return r.choice(PRIMS)
        if k < 8 and concrete:
            t = r.choice(concrete)
            if t.kind == "struct" and r.chance(1, 2):
                return t.cname            # bare
            return t.tname                # boxed
        if k == 8:
            return "(vector %s)" % self.type_ref(d, depth + 1, natvars, tvars)
        if k == 9:
            cnt = r.choice(natvars) if natvars and r.chance(1, 2) else str(r.below(4))
            return "(tuple %s %s)" % (self.type_ref(d, depth + 1, natvars, tvars), cnt)
        if k == 10:
            return "(Maybe %s)" % self.type_ref(d, depth + 1, natvars, tvars)
        if k == 11:
            inner = self.type_ref(d, depth + 1, natvars, tvars)
            if inner.startswith("(dictionary"):   # known finding K5: nested dictionaries with --split-internal + TL2/bytes
                inner = "int"
            return "(dictionary %s)" % inner
        if k == 12:
            tm = [x for x in self.decls if x.kind == "tmpl"]
            if tm:
                return "(%s %s)" % (r.choice(tm).cname, self.type_ref(d, depth + 1, natvars, tvars))
            return "(pair int %s)" % self.type_ref(d, depth + 1, natvars, tvars)
        if k == 13:
            npd = [x for x in self.decls if x.kind == "natp"]
            if npd:
                cnt = r.choice(natvars) if natvars and r.chance(1, 2) else str(r.below(5))
                return "(%s %s)" % (r.choice(npd).cname, cnt)
            if d.kind in ("struct", "union") and r.chance(1, 2):
                return "(vector %s)" % d.tname   # recursion through a vector
        return r.choice(PRIMS)

    def fields(self, d, natvars=(), tvars=(), maxn=6):
        r = self.r
        out = []
        names = set()
        natvars = list(natvars)
        masks = []
        for i in range(r.range(0, maxn)):
            fn = r.choice(FIELD_NAMES)
            if fn.lower().replace("_", "") in names:
                fn = fn + str(i)
            names.add(fn.lower().replace("_", ""))
            if r.chance(1, 5):
                out.append("%s:#" % fn)
                # a `#` field is used either as a size or as a mask (both at once is an error the kernel reports);
                # rarely allow both to exercise that error
                if r.chance(1, 2):
                    natvars.append(fn)
                    if r.chance(1, 12):
                        masks.append(fn)
                else:
                    masks.append(fn)
                continue
            t = self.type_ref(d, 0, tuple(natvars), tvars)
            if masks and r.chance(1, 3):
                m = r.choice(masks)
                bit = r.choice([0, 1, 2, 5, 31, r.below(32)])
                if r.chance(1, 4):
                    t = "true"
                out.append("%s:%s.%d?%s" % (fn, m, bit, t))
            elif natvars and r.chance(1, 6):
                out.append("%s:%s*[%s]" % (fn, r.choice(natvars), t))
            else:
                out.append("%s:%s" % (fn, t))
        return " ".join(out)

    # ------------------------------------------------------------ declarations
    def add_decl(self):
        r = self.r
        ns, base = self.fresh_name()
        k = r.below(10)
        if k < 5:
            d = Decl(ns, base, "struct")
            # known finding K3b: a masked field of an EMPTY struct type does not compile; random structs are non-empty
            d.ctors = [(d.cname, self.fields(d) or "pad:int")]
        elif k < 7:
            d = Decl(ns, base, "union")
            for j in range(r.range(2, 4)):
                d.ctors.append(("%s%s" % (d.cname, ["A", "B", "C", "D"][j]), self.fields(d, maxn=3)))
        elif k == 7:
            d = Decl(ns, base, "enum")
            for j in range(r.range(2, 4)):
                d.ctors.append(("%s%s" % (d.cname, ["Red", "Green", "Blue", "Alpha"][j]), ""))
        elif k == 8:
            d = Decl(ns, base, "tmpl")
            d.targs, d.res = "{X:Type} ", " X"
            d.ctors = [(d.cname, self.fields(d, tvars=("X",), maxn=3) + " val:X")]
        else:
            d = Decl(ns, base, "natp")
            d.targs, d.res = "{n:#} ", " n"
            d.ctors = [(d.cname, self.fields(d, natvars=("n",), maxn=3) + " arr:n*[int]")]
        self.decls.append(d)

    def add_cycle(self):
        """mutually recursive types across namespaces (cycle merging of --split-internal, recursion through vector/Maybe/mask)"""
        r = self.r
        n = r.range(2, 4)
        ds = []
        for i in range(n):
            ns = r.choice(["", "aa", "bb"])
            key = (ns + ".cyc%d" % i)
            if key in self.used:
                return
            self.used.add(key)
            ds.append(Decl(ns, "cyc%d" % i, "struct"))
        star = r.chance(1, 2)   # star: one type imports all others and is imported by them (cycle merging order matters)
        for i, d in enumerate(ds):
            nxt = ds[(i + 1) % n]
            link = r.choice(["(vector %s)" % nxt.tname, "(Maybe %s)" % nxt.tname, "(vector %s)" % nxt.cname])
            extra = "back:(vector %s)" % ds[r.below(n)].tname if r.chance(1, 2) else "v:int"
            if star:
                if i == 0:
                    extra += " " + " ".join("s%d:(Maybe %s)" % (j, ds[j].cname) for j in range(1, n))
                else:
                    extra += " hub:(Maybe %s)" % ds[0].cname
            d.ctors = [(d.cname, "m:# nxt:%s opt:m.0?%s %s" % (link, nxt.tname, extra))]
            self.decls.append(d)

    def add_func(self):
        r = self.r
        ns, base = self.fresh_name()
        d = Decl(ns, "get" + cap(base), "func")
        concrete = [x for x in self.decls if x.kind in ("struct", "union", "enum")]
        res = r.choice(concrete).tname if concrete and r.chance(2, 3) else r.choice(["Int", "String", "Bool", "Vector<int>", "Maybe<string>", "True"])
        d.result = res
        d.ctors = [(d.cname, self.fields(d, maxn=4))]
        self.decls.append(d)

    # ------------------------------------------------------------ text
    def text(self, files=1):
        """TL1 text; with files > 1 the declarations are split by the file marker (prelude stays in the first part)."""
        from checks.toolgen import FILE_MARKER
        parts = [[] for _ in range(files)]
        parts[0].append(PRELUDE)
        for i, d in enumerate(self.decls):
            tgt = parts[i % files]
            if d.kind == "func":
                c, f = d.ctors[0]
                tgt.append("@%s %s %s => %s;\n" % (self.r.choice(["read", "write", "any", "readwrite"]), c, f, d.result))
            else:
                for c, f in d.ctors:
                    tgt.append("%s %s%s = %s%s;\n" % (c, d.targs, f, d.tname, d.res))
        return FILE_MARKER.join("".join(p) for p in parts)

    def gen_tl2(self):
        r = self.r
        out = ["//tl2\n"]
        names = []
        prim2 = ["int32", "int64", "uint32", "uint64", "string", "bool", "float64", "float32", "byte", "bit"]
        for i in range(r.range(1, 5)):
            ns = r.choice(["t2", "t2", "zq"])
            nm = "%s.%s%d" % (ns, r.choice(["obj", "rec", "item", "read", "box"]), i)

            def ty(depth=0, opt=False):
                # known findings K2-K4 (known_findings.d/C14.json) are kept out of the random stream: `bit` only as a
                # direct field type, optional fields never of a (possibly empty) struct type, functions return primitives
                k = r.below(10)
                if k < 5 or depth > 1:
                    return r.choice(prim2[:-1] if depth > 0 or opt else prim2)
                if k == 5 and opt:
                    return r.choice(prim2[:-1])
                if k == 5 and names:
                    return r.choice(names)
                if k == 6:
                    return "[]" + ty(depth + 1)
                if k == 7:
                    return "[%d]%s" % (r.below(4), ty(depth + 1))
                if k == 8:
                    return "[%s]%s" % (r.choice(["string", "int32", "int64"]), ty(depth + 1))
                return r.choice(prim2[:-1])
            if r.chance(1, 4):
                vs = " | ".join("v%d %s" % (j, " ".join("f%d:%s" % (q, ty()) for q in range(r.range(0, 2)))) for j in range(r.range(2, 4)))
                nm = "%s.%s%d" % (ns, r.choice(["Uni", "Choice"]), i)
                out.append("%s = | %s;\n" % (nm, vs))
            else:
                fs = []
                for q in range(r.range(0, 9 if r.chance(1, 5) else 4)):
                    opt = "?" if r.chance(1, 3) else ""
                    t = ty(0, opt == "?")
                    fs.append("f%d%s:%s" % (q, opt, t))
                magic = "#%08x" % r.range(1, 2**32 - 1) if r.chance(1, 3) else ""
                out.append("%s%s = %s;\n" % (nm, magic, " ".join(fs)))
            names.append(nm)
        for i in range(r.range(0, 2)):
            out.append("@read t2.fn%d#%08x x:int32 y:%s => %s;\n" % (i, r.range(1, 2**32 - 1), r.choice(prim2[:6]),
                                                                   r.choice(["int32", "int64", "string", "bool"])))
        return "".join(out)

    def full_text(self, files=1):
        from checks.toolgen import FILE_MARKER
        t = self.text(files)
        if self.tl2:
            t += FILE_MARKER + self.tl2
        return t


def mutate(text, rng):
    """Single-edit mutation of a schema text (malformed stream)."""
    from checks.toolgen import FILE_MARKER
    k = rng.below(9)
    lines = text.split("\n")
    body = [i for i, l in enumerate(lines) if l.strip() and not l.startswith("//")]
    if not body:
        return text
    i = rng.choice(body)
    l = lines[i]
    if k == 0:      # delete a character
        p = rng.below(len(l))
        lines[i] = l[:p] + l[p + 1:]
    elif k == 1:    # duplicate a declaration (name / tag collision)
        lines.insert(i, l)
    elif k == 2:    # unknown type reference
        lines[i] = l.replace(":int", ":noSuchType", 1) if ":int" in l else l.replace("=", "= NoSuch", 1)
    elif k == 3:    # drop the terminator
        lines[i] = l.replace(";", "", 1)
    elif k == 4:    # swap case of the first identifier
        lines[i] = l[:1].swapcase() + l[1:]
    elif k == 5:    # token soup
        toks = l.split(" ")
        rng.shuffle(toks)
        lines[i] = " ".join(toks)
    elif k == 6:    # wrong mask bit / arity
        lines[i] = l.replace(".0?", ".32?", 1).replace("(vector ", "(vector int ", 1)
    elif k == 7:    # insert a stray token
        p = rng.below(len(l) + 1)
        lines[i] = l[:p] + rng.choice(["#", "?", "{", ")", "=", "%", "!", "<", "0x", "*[", "---functions---"]) + l[p:]
    else:           # self-referential loop (lead L8) or explicit zero tag
        lines.insert(i, rng.choice(["loopA x:loopA = LoopA;", "zeroTag#00000000 = ZeroTag;", "selfRef a:SelfRef = SelfRef;"]))
    return "\n".join(lines)


# ---------------------------------------------------------------- import cycles for --split-internal (C15)
CYCLE_PRE = ("int#a8509bda ? = Int;\nstring#b5286e24 ? = String;\nvector#1cb5c415 {t:Type} # [t] = Vector t;\n"
             "resultFalse#27930a7b {t:Type} = Maybe t;\nresultTrue#3f9c8ef8 {t:Type} t = Maybe t;\n")


def cycle_schema(shape, n, link="maybe", spread=True, extra=0):
    """n mutually recursive struct types, each in its own namespace (so each starts in its own internal package) unless
    spread is False.  shape: star (t0 <-> every other), ring (t0 -> t1 -> … -> t0), full (everyone -> everyone),
    ringchord (ring + t0 -> t2).  link: maybe | vector | mask | mixed."""
    names = [("n%d.t%d" % (i, i) if spread else "t%d" % i) for i in range(n)]
    tn = [x.split(".")[0] + "." + x.split(".")[1].capitalize() if "." in x else x.capitalize() for x in names]
    edges = {i: [] for i in range(n)}
    if shape == "star":
        for i in range(1, n):
            edges[0].append(i)
            edges[i].append(0)
    elif shape == "ring":
        for i in range(n):
            edges[i].append((i + 1) % n)
    elif shape == "ringchord":
        for i in range(n):
            edges[i].append((i + 1) % n)
        edges[0].append(2 % n)
    else:
        for i in range(n):
            edges[i] = [j for j in range(n) if j != i]
    out = [CYCLE_PRE]
    for i in range(n):
        fs = ["x:int"]
        for k, j in enumerate(edges[i]):
            kind = link if link != "mixed" else ["maybe", "vector", "mask"][(i + k) % 3]
            if kind == "maybe":
                fs.append("f%d:(Maybe %s)" % (j, names[j]))
            elif kind == "vector":
                fs.append("f%d:(vector %s)" % (j, tn[j]))
            else:
                fs.append("m%d:# f%d:m%d.0?%s" % (j, j, j, tn[j]))
        out.append("%s %s = %s;\n" % (names[i], " ".join(fs), tn[i]))
    for e in range(extra):   # users of the cycle outside it (factory / vector wrappers importing the cycle package)
        out.append("user%d v:(vector %s) w:(Maybe %s) = User%d;\n" % (e, tn[e % n], names[(e + 1) % n], e))
    return "".join(out)


def cycle_corpus():
    res = []
    for shape in ("star", "ring", "ringchord", "full"):
        for n in (3, 4):
            for link in ("maybe", "vector", "mixed"):
                res.append(("%s%d-%s" % (shape, n, link), cycle_schema(shape, n, link, True, extra=1)))
    res.append(("star3-flat", cycle_schema("star", 3, "maybe", False, 0)))
    res.append(("star5-mask", cycle_schema("star", 5, "mask", True, 2)))
    return res
