"""C24 — Accepted schemas have unique non-zero constructor tags (DESIGN.md §4 C24)."""
from checks.toolgen import hxt, build_clis, harness_env, replay_lines, helper, overlays, FILE_MARKER

MODULES = ["TLVerif.Props.C24"]
THEOREMS = ["TLVerif.Props.C24." + t for t in [
    "legacy_check_iff", "kernel_check_iff", "kernel_eq_legacy_on_tl1", "schema_verdict_iff",
    "accepted_tags_distinct_nonzero", "violating_rejected", "legacy_accepted_tags_distinct_nonzero",
    "legacy_violating_rejected", "legacy_error_sound", "kernel_calls_check", "legacy_calls_check",
    "generators_compile_first", "legacy_full_fails_at", "legacy_schema_partial_nonzero", "legacy_schema_partial"]]

PRIMS1 = ["int", "long", "string", "double", "float", "#"]
PRIMS2 = ["int32", "int64", "string", "uint32", "float64", "bool"]


class Schema:
    """A small schema whose only possible defect is in its tags."""

    def __init__(self, rng):
        self.rng = rng
        r = rng
        self.tl1 = []   # dict(name, tname, fields, func, tag: None|int, file)
        self.tl2 = []   # dict(name, fields, func, magic: None|int)
        n1 = r.range(0, 6)
        nf = r.range(0 if n1 else 1, 2)
        n2 = r.range(0, 4) if r.chance(1, 2) else 0
        n2f = r.range(0, 2) if n2 or r.chance(1, 4) else 0
        nss = ["", "", "aa", "bb"]
        nfiles = r.range(1, 3)
        uni = None
        used = set()

        def pick(prefix, pool):
            # short names come from a tiny pool so that the SAME short name in DIFFERENT namespaces (incl. one with and
            # one without a namespace) is common; the full name stays unique
            for _ in range(8):
                ns = r.choice(nss)
                pre = (ns + ".") if ns else ""
                short = "%s%d" % (prefix, r.below(pool))
                if pre + short not in used:
                    used.add(pre + short)
                    return pre, short
            short = "%s%d" % (prefix, 10 + len(used))
            used.add(short)
            return "", short
        for i in range(n1):
            pre, short = pick("t", 3)
            if uni and r.chance(1, 4):
                tname = uni  # another constructor of a union
            else:
                tname = pre + short.capitalize()
                if r.chance(1, 3):
                    uni = tname
            self.tl1.append({"name": pre + short, "tname": tname, "fields": self.fields1(), "func": False, "tag": None,
                             "file": r.below(nfiles)})
        if nf and not self.tl1:
            self.tl1.append({"name": "r0", "tname": "R0", "fields": "", "func": False, "tag": None, "file": 0})
        for i in range(nf):
            pre, short = pick("f", 2)
            # TL1 function results must be boxed: use one of the schema's own types
            self.tl1.append({"name": pre + short, "tname": r.choice([d["tname"] for d in self.tl1 if not d["func"]]), "fields": self.fields1(),
                             "func": True, "tag": None, "file": r.below(nfiles)})
        self.tl1.sort(key=lambda d: d["file"])
        for i in range(n2):
            ns = r.choice(["", "", "yy", "zz"])
            pre = (ns + ".") if ns else ""
            self.tl2.append({"name": pre + "u%d" % i, "fields": self.fields2(), "func": False, "magic": None})
        for i in range(n2f):
            ns = r.choice(["", "yy"])
            pre = (ns + ".") if ns else ""
            self.tl2.append({"name": pre + "g%d" % i, "fields": self.fields2(), "func": True, "magic": self.fresh()})

    def fresh(self):
        return self.rng.range(1, 2**32 - 1)

    def fields1(self):
        r = self.rng
        return " ".join("x%d:%s" % (j, r.choice(PRIMS1)) for j in range(r.range(0, 3)))

    def fields2(self):
        r = self.rng
        return " ".join("x%d:%s" % (j, r.choice(PRIMS2)) for j in range(r.range(0, 3)))

    def text1(self, implicit_all=False):
        parts = []
        cur = None
        for d in self.tl1:
            if cur is not None and d["file"] != cur:
                parts.append(FILE_MARKER)
            cur = d["file"]
            tag = "" if implicit_all or d["tag"] is None else "#%08x" % d["tag"]
            if d["func"]:
                parts.append("@read %s%s %s => %s;\n" % (d["name"], tag, d["fields"], d["tname"]))
            else:
                parts.append("%s%s %s = %s;\n" % (d["name"], tag, d["fields"], d["tname"]))
        return "".join(parts)

    def text2(self):
        parts = []
        for d in self.tl2:
            tag = "" if d["magic"] is None else "#%08x" % d["magic"]
            if d["func"]:
                parts.append("@read %s%s %s => int32;\n" % (d["name"], tag, d["fields"]))
            else:
                parts.append("%s%s = %s;\n" % (d["name"], tag, d["fields"]))
        return "".join(parts)


def short_of(d):
    return d["name"].split(".")[-1]


def pick_pair(s, rng):
    """two different TL1 combinators; two thirds of the time a pair with the same short name in different namespaces"""
    n = len(s.tl1)
    same = [(a, b) for a in range(n) for b in range(n) if a != b and short_of(s.tl1[a]) == short_of(s.tl1[b])]
    if same and rng.chance(2, 3):
        return rng.choice(same) + ("samename",)
    a, b = rng.below(n), rng.below(n)
    return a, b, "anyname"


def plant(s, crcs, rng):
    """Assign tags: mostly fresh/implicit, then 0..2 planted violations. Returns list of planted kinds."""
    pool = [rng.range(1, 2**32 - 1) for _ in range(2)] + [1, 0xffffffff]
    for d in s.tl1:
        k = rng.below(10)
        if k < 5:
            d["tag"] = None
        else:
            d["tag"] = s.fresh()
    for d in s.tl2:
        if not d["func"]:
            d["magic"] = s.fresh() if rng.chance(1, 2) else None
    kinds = []
    rename = []
    nplant = rng.choice([0, 0, 1, 1, 1, 2])
    for _ in range(nplant):
        k = rng.below(9)
        if k == 0 and s.tl1:
            rng.choice(s.tl1)["tag"] = 0
            kinds.append("tl1-zero")
        elif k == 1 and s.tl2:
            rng.choice(s.tl2)["magic"] = 0
            kinds.append("tl2-zero")
        elif k == 2 and [d for d in s.tl2 if d["func"]]:
            rng.choice([d for d in s.tl2 if d["func"]])["magic"] = None
            kinds.append("tl2-func-nomagic")
        elif k == 3 and len(s.tl1) >= 2:
            a, b, how = pick_pair(s, rng)
            if a != b:
                t = rng.choice(pool)
                s.tl1[a]["tag"] = t
                s.tl1[b]["tag"] = t
                if how == "anyname" and not s.tl1[a]["func"] and not s.tl1[b]["func"] and rng.chance(1, 4):
                    rename.append((a, b))   # control: the very same full name twice, applied after all plants
                kinds.append("tl1-explicit-dup-" + how)
        elif k == 4 and len(s.tl1) >= 2:
            a, b, how = pick_pair(s, rng)
            if a != b:
                s.tl1[a]["tag"] = None
                s.tl1[b]["tag"] = crcs[a]   # explicit tag equal to another combinator's computed CRC32
                kinds.append("tl1-implicit-dup-" + how)
        elif k == 5 and s.tl1 and s.tl2:
            a = rng.below(len(s.tl1))
            t = s.tl1[a]["tag"] if s.tl1[a]["tag"] else crcs[a]
            rng.choice(s.tl2)["magic"] = t
            kinds.append("tl1-tl2-dup" if s.tl1[a]["tag"] else "tl1crc-tl2-dup")
        elif k == 6 and len(s.tl2) >= 2:
            a, b = rng.below(len(s.tl2)), rng.below(len(s.tl2))
            if a != b:
                t = rng.choice(pool)
                s.tl2[a]["magic"] = t
                s.tl2[b]["magic"] = t
                kinds.append("tl2-dup")
        elif k == 7 and len(s.tl2) >= 2:
            # two TL2 types without magic: allowed (no explicit magic = no tag)
            for d in s.tl2:
                if not d["func"]:
                    d["magic"] = None
            kinds.append("tl2-all-implicit")
        elif k == 8 and s.tl1:
            d = rng.choice(s.tl1)
            d["tag"] = rng.choice([1, 0xffffffff, 0x80000000, 0x7fffffff])
            kinds.append("boundary")
    for a, b in rename:
        # only while both still carry the same explicit tag (the claimed tags of implicit combinators depend on their names)
        if s.tl1[a]["tag"] is not None and s.tl1[a]["tag"] == s.tl1[b]["tag"]:
            s.tl1[b]["name"], s.tl1[b]["tname"] = s.tl1[a]["name"], s.tl1[a]["tname"]
            kinds.append("fullname-control")
    return kinds


def case_line(op, s, crcs):
    tags = []
    for i, d in enumerate(s.tl1):
        tags.append("%08x" % (d["tag"] if d["tag"] is not None else crcs[i]))
    decls = []
    for d in s.tl2:
        decls.append(("f" if d["func"] else "t") + ("n" if d["magic"] is None else "%08x" % d["magic"]))
    return "%s %s %s %s %s" % (op, ",".join(tags) or "-", ",".join(decls) or "-", hxt(s.text1()), hxt(s.text2()))


# Known defect class (known_findings.d/C24.json): the legacy generator never looks at TL2 magics, so it accepts a TL2 magic
# that repeats a TL1 tag or another TL2 magic.  All instances are reported under these fixed witness lines.
WITNESS_L2 = "tool.tags 00000001 t00000001 %s %s" % (hxt("a#00000001 = A;\n"), hxt("b#00000001 = ;\n"))
WITNESS_L2_CLI = WITNESS_L2.replace("tool.tags", "tool.tagscli")


def parse_list(s):
    return [] if s == "-" else [int(x, 16) for x in s.split(",")]


def canon(out):
    # the legacy verdict on inputs with TL2 files is not modelled (the legacy generator does not look at TL2 magics)
    return " ".join(w for w in out.split(" ") if not w.startswith("l2:"))


def oracle(c, line, out):
    """The property itself, evaluated on the implementation's output: accepted => distinct non-zero; violating => rejected."""
    f = line.split(" ")
    o = dict(w.split(":", 1) for w in out.split(" ") if ":" in w)
    if out in ("panic", "CRASH", "bad-op") or "k" not in o:
        c.oracle_fail(line, "generator crashed or panicked on a tag-collision schema (%s)" % out, line)
        return
    for key in ("k", "l", "l2"):
        if o.get(key) in ("panic", "crash"):
            c.oracle_fail(line, "generator %s panicked on a tag-collision schema" % key, line)
            return
    if o["a"] == "perr":
        return
    tl1 = parse_list(o["a"])
    decls = [] if f[2] == "-" else f[2].split(",")
    explicit = [int(d[1:], 16) for d in decls if d[1:] != "n"]
    func_nomagic = any(d == "fn" for d in decls)
    if o["m"] != "perr":
        seen2 = [m for m in parse_list(o["m"]) if m != 0]
        if sorted(seen2) != sorted(m for m in explicit if m != 0):
            c.oracle_fail(line, "TL2 parser reports magics %s for declarations %s" % (o["m"], f[2]), line)
    alltags = tl1 + explicit
    bad = (0 in alltags) or len(set(alltags)) != len(alltags) or func_nomagic
    bad1 = (0 in tl1) or len(set(tl1)) != len(tl1)
    if o["k"] == "ok" and bad:
        c.oracle_fail(line, "tl2gen accepted a schema whose tags are not pairwise distinct and non-zero: tl1=%s tl2=%s" % (o["a"], f[2]), line)
    if "l" in o and o["l"] == "ok" and bad1:
        c.oracle_fail(line, "tlgen (legacy) accepted a schema whose TL1 tags are not pairwise distinct and non-zero: %s" % o["a"], line)
    if o.get("l2") == "ok" and bad:
        if bad1 or func_nomagic or 0 in explicit:
            c.oracle_fail(line, "tlgen (legacy) accepted TL1+TL2 input whose tags are not pairwise distinct and non-zero", line)
        else:
            # TL1 part is fine, the repeated tag involves an explicit TL2 magic: the known legacy defect class
            c.oracle_fail(WITNESS_L2_CLI if f[0] == "tool.tagscli" else WITNESS_L2,
                          "tlgen (legacy) accepts an explicit TL2 magic equal to a TL1 tag or to another TL2 magic", line)
    c.count("oracle:" + ("violating" if bad else "clean") + ":k=" + o["k"])


def run(c):
    c.facts(["Tool"])
    c.lean(MODULES, THEOREMS)
    model = c.model_exe()
    impl = c.harness("htool", overlays=overlays())
    env = harness_env(c, build_clis(c))
    rng = c.rng
    c.trusted += ["go/htool harness (in-process kernel/legacy lint mirrors cmd/tl2gen, cmd/tlgen runMain; CLI runs use the real binaries)",
                  "factgen callorder extraction",
                  "modelled, not verified: Go map semantics (key set), tlast parsers, CRC32 of the canonical form (C23)"]
    c.assumptions += ["implicit tag value 0 cannot be manufactured without inverting CRC32; tag 0 is exercised through explicit #00000000",
                      "the legacy generator rejects every input containing a .tl2 file at this commit; its verdict there is only "
                      "checked by the oracle (accepted => distinct), not tied"]
    n = 6000 if c.thorough else 1500
    ncli = 400 if c.thorough else 60
    schemas = [Schema(rng.fork()) for _ in range(n)]
    # phase A (helper, not tied): CRC32 the generators compute for every TL1 combinator when no tag is written
    crc_out = helper(impl, ["tool.crc " + hxt(s.text1(implicit_all=True)) for s in schemas], env)
    lines = replay_lines(c)
    kinds = {}
    for i, (s, o) in enumerate(zip(schemas, crc_out)):
        if not o.startswith("ok"):
            c.oracle_fail("tool.crc " + hxt(s.text1(True)), "generated TL1 text does not parse: " + o)
            continue
        crcs = [] if o == "ok -" else [int(x, 16) for x in o.split(" ")[1].split(",")]
        if len(crcs) != len(s.tl1):
            c.oracle_fail("tool.crc " + hxt(s.text1(True)), "combinator count mismatch")
            continue
        ks = plant(s, crcs, rng)
        for k in ks or ["none"]:
            c.count("planted:" + k)
        op = "tool.tagscli" if i < ncli else "tool.tags"
        lines.append(case_line(op, s, crcs))
    # fixed corner cases
    for t1, t2, a, b in [
        ("00000000", "-", "a#00000000 = A;\n", ""),
        ("00000001,00000001", "-", "a#00000001 = A;\nb#00000001 = B;\n", ""),
        ("00000001", "t00000001", "a#00000001 = A;\n", "b#00000001 = x:int32;\n"),
        ("12345678,12345678", "-", "ns1.foo#12345678 = ns1.Foo;\nns2.foo#12345678 = ns2.Foo;\n", ""),
        ("12345678,12345678", "-", "foo#12345678 = Foo;\nns2.foo#12345678 = ns2.Foo;\n", ""),
        ("12345678,12345678", "-", "ns1.foo#12345678 = ns1.Foo;\n@read ns2.foo#12345678 => ns1.Foo;\n", ""),
        ("00000001", "tn,tn", "a#00000001 = A;\n", "b = x:int32;\nc = x:int32;\n"),
        ("-", "t00000000", "", "b#00000000 = x:int32;\n"), ("-", "fn", "", "@read b x:int32 => int32;\n"),
        ("-", "f00000007,t00000007", "", "@read b#00000007 x:int32 => int32;\nc#00000007 = x:int32;\n"),
    ]:
        for op in ("tool.tags", "tool.tagscli"):
            lines.append("%s %s %s %s %s" % (op, t1, t2, hxt(a), hxt(b)))
    lines += [WITNESS_L2, WITNESS_L2_CLI]
    res = c.tie("tags", lines, impl, model, canon=canon, env=env)
    for l, a, _ in res:
        oracle(c, l, a)
    c.extra["rule"] = ("random small schemas (0-6 TL1 constructors incl. unions/namespaces/1-3 files, 0-2 TL1 functions, 0-4 TL2 types, 0-2 TL2 "
                       "functions) valid except for 0-2 planted tag defects: explicit zero, explicit duplicate, explicit tag equal to another "
                       "combinator's computed CRC32, TL1/TL2 and TL2/TL2 magic collisions, TL2 zero magic, TL2 function without magic; "
                       "first %d through the real tl2gen/tlgen binaries, the rest in-process; distinct = distinct line text" % ncli)
