"""C10 — []byte type variants behave like string variants (DESIGN.md §4 C10); TL1 part."""
from checks import codec_common as cc

LEVEL = "proof"
MODULES = ["TLVerif.Props.C10"]
THEOREMS = ["TLVerif.Props.C10." + t for t in [
    "readTL1M_map_eq", "dictNormalize_of_ascending", "dictStore_strict", "strict_le",
    "bytes_variant_agrees_on_canonical", "bytes_variant_rewrites_equal",
    "bytes_variant_canonical", "string_variant_canonical_on_canonical_input", "key_order_asymm", "canonical_guard_is_strict_ascent", "bytes_variant_canonical_example",
    "strict_accepts_example", "canonical_example", "variants_differ_on_duplicate_key", "variants_differ_on_unsorted_keys"]]


def tie_mode(c, name, lines, impl, model, pre, mode):
    """impl answers `codec.x1 …`, the model answers the same request through `readTL1M <mode>` (`codec.x1m <mode> …`)."""
    from vlib.core import run_lines
    a = run_lines(impl, lines, prefix=pre, mem_limit=c.impl_mem_limit, timeout=c.impl_timeout)
    b = run_lines(model, ["codec.x1m " + mode + l[len("codec.x1"):] for l in lines], prefix=pre)
    mode = mode.split("=")[0]
    for l, x, y in zip(lines, a, b):
        c.evaluations += 1
        if x != y:
            c.tie_failures.append({"tie": name, "line": l, "impl": x, "model": y})
        k = "codec.x1m-" + mode + ":" + (" ".join(x.split(" ", 2)[:2]) if x.startswith("err ") else x.split(" ", 1)[0])
        c.dist[k] = c.dist.get(k, 0) + 1
    return list(zip(lines, a, b))


# repaired in /repo by 49add7f1 (no longer a listed finding: reported as a violation if it returns): generated <Dict>BytesInternalReadTL2 reads each element into a local copy (`elem := (*vec)[i]`), so the slice-backed
# dictionary of the []byte variant comes back with empty elements after ReadTL2. Identified by call site.
BYTES_DICT_TL2_KEY = "bytes-dict-ReadTL2-reads-into-copy:qt_dict.qtpl BytesInternalReadTL2"


def run(c):
    known_lines = set()
    if MODULES:
        c.lean(MODULES, THEOREMS, sources=["TLVerif.Codec.TL1", "TLVerif.Codec.BytesVariant", "TLVerif.Codec.BytesVariantCanon", "TLVerif.Codec.KeyOrder"])
    # only schemas generated with --generateByteVersions
    model, hcodec, schemas = cc.prepare(c, [s for s in cc.corpus(c) if s.bytes_wl])
    rng = c.rng
    for sc in schemas:
        pre = [sc.desc_line()]
        lines = cc.x1_lines(sc, rng, 30 if c.thorough else 8, big=c.thorough, mutants=1)
        res_s = c.tie("string-variant:" + sc.sid, lines, sc.impl, model, prefix=pre)
        # the []byte variant on ALL explored inputs (canonical or not) against the slice-dictionary model `readTL1M .slice`
        res_sl = tie_mode(c, "slice-model:" + sc.sid, lines, sc.impl + ["-bytes"], model, pre, "slice=" + sc.bytes_wl)
        # `bytes_variant_canonical` stated on the implementation: a white-listed root's []byte variant re-encodes every accepted
        # input byte for byte (dictionaries included); its decidable hypotheses (closed, no `bit`) are the T3 certificate below
        wl = [w for w in sc.bytes_wl.split(",") if w]
        # T3: the decidable hypotheses of `bytes_variant_canonical` (reference-closed reach set, no `bit` primitive in it),
        # evaluated by the model on the descriptor the current kernel exported; the oracle below is applied where they hold
        certs = cc.certificates(c, model, sc)
        guard = {idx: (r["closed"] and r["nobit"]) for idx, r in certs.items()}
        c.count("bytes_variant_canonical guard (closed, no bit) holds for factory items", sum(1 for v in guard.values() if v))
        c.count("bytes_variant_canonical guard fails for factory items", sum(1 for v in guard.values() if not v))
        for l, a, _ in res_sl:
            f = l.split(" ")
            if not a.startswith("ok ") or not any((f[3].startswith(w) if w.endswith(".") else f[3] == w) for w in wl):
                continue
            n = int(a.split(" ")[1])
            o = cc.outputs(a)
            w = o.get("w1b" if f[4] == "1" else "w1")
            c.count("[]byte variant: accepted inputs checked for byte-exact re-encoding")
            if w in (None, "n/a") or not guard.get(int(f[2]), False):
                continue
            if ("" if w == "-" else w) != ("" if f[5] == "-" else f[5])[:2 * n]:
                c.oracle_fail(l, "[]byte variant accepted %d bytes but re-encodes them differently: %s" % (n, str(w)[:80]), l)
        ndiff = sum(1 for (_, a, _), (_, b, _) in zip(res_s, res_sl) if a != b)
        c.count("non-canonical inputs on which the variants legitimately differ (duplicate/unsorted keys)", ndiff)
        # canonical inputs (dictionaries sorted, no duplicates) = what the string variant wrote
        canon = set()
        for l, a, _ in res_s:
            if a.startswith("ok "):
                f = l.split(" ")
                o = cc.outputs(a)
                for k, boxed in (("w1", 0), ("w1b", 1)):
                    w = o.get(k)
                    if w and w not in ("n/a", "werr"):
                        canon.add("codec.x1 %s %s %s %d %s" % (f[1], f[2], f[3], boxed, w))
        # malformed inputs whose accept/reject must agree too (no dictionary content to reorder in rejected inputs)
        bad = [l for l, a, _ in res_s if a.startswith("err")]
        cl = sorted(canon) + bad
        res_str = c.tie("canon-string:" + sc.sid, cl, sc.impl, model, prefix=pre)
        # hypothesis of `bytes_variant_agrees_on_canonical` is met by what the property calls canonical: the strict
        # reader accepts every encoding written by the string variant (and rejects the rejected ones)
        from vlib.core import run_lines as _rl
        st = _rl(model, ["codec.x1m strict" + l[len("codec.x1"):] for l in cl], prefix=pre)
        for l, (_, a, _), y in zip(cl, res_str, st):
            c.evaluations += 1
            if (a != y) if (a.startswith("ok ") or y.startswith("ok ")) else False:
                c.oracle_fail(l, "strict (canonical-input) reader of the model and the string variant differ on an encoding the string variant wrote: string %s, strict %s" % (a[:100], y[:100]), l)
        c.count("canonical inputs accepted by the strict reader", sum(1 for y in st if y.startswith("ok ")))
        res_byt = c.tie("canon-bytes:" + sc.sid, cl, sc.impl + ["-bytes"], model, prefix=pre)
        for (l, a, _), (_, b, _) in zip(res_str, res_byt):
            if a != b:
                c.oracle_fail(l, "[]byte variant and string variant differ on the same input: string %s, bytes %s" % (a[:100], b[:100]), l)
        # mixed TL1/TL2/JSON/Reset histories into one object, on canonical inputs, string variant vs []byte variant
        if sc.tl2:
            from vlib.core import run_lines, hx
            g = cc.Gen1(sc, rng.fork())
            raw = []
            for inst, it in sc.items:
                for k in range(8 if c.thorough else 4):
                    g.zero_bias = (0, 50, 90, 0)[k % 4]
                    raw.append((inst, hx(g.value(inst["idx"], False, [], 0))))
            can = run_lines(sc.impl, ["codec.x1 %s %d %s 1 %s" % (sc.sid, i["idx"], i["tlname"], h) for i, h in raw], prefix=pre)
            prep = [(i, cc.outputs(a).get("w1b")) for (i, h), a in zip(raw, can) if a.startswith("ok ") and cc.outputs(a).get("w1b") not in (None, "n/a", "werr")]
            tl2s = run_lines(sc.impl, ["codec.x2 %s %d %s 1 %s" % (sc.sid, i["idx"], i["tlname"], h) for i, h in prep], prefix=pre)
            jts = run_lines(sc.impl, ["codec.jtext %s %d %s 1 %s" % (sc.sid, i["idx"], i["tlname"], h) for i, h in prep], prefix=pre)
            pool = {}
            for (inst, h), a2, aj in zip(prep, tl2s, jts):
                enc = [("1", h)]
                if a2.startswith("ok "):
                    w2 = dict(p.split("=", 1) for p in a2.split(" ")[1:] if "=" in p).get("w2")
                    if w2 and w2 not in ("n/a", "panic", "werr"):
                        enc.append(("2", w2))
                if aj.startswith("ok ") and len(aj.split(" ")) > 1 and aj.split(" ")[1] != "-":
                    enc.append(("j", aj.split(" ")[1]))
                pool.setdefault(inst["idx"], (inst, []))[1].extend(enc)
            mixed = []
            for idx, (inst, encs) in pool.items():
                for _ in range(6 if c.thorough else 3):
                    steps = []
                    for _ in range(rng.range(2, 5)):
                        k, h = rng.choice(encs)
                        if rng.chance(1, 8):
                            steps.append("r:-")
                        steps.append(k + ":" + h)
                    mixed.append("codec.seqx %s %d %s %s" % (sc.sid, inst["idx"], inst["tlname"], " ".join(steps)))
            ms = c.tie("mixed-string:" + sc.sid, mixed, sc.impl, model, prefix=pre)
            mb = c.tie("mixed-bytes:" + sc.sid, mixed, sc.impl + ["-bytes"], model, prefix=pre)
            for (l, a, _), (_, b, _) in zip(ms, mb):
                if a == b:
                    continue
                pa, pb = a.split(" | "), b.split(" | ")
                steps = l.split(" ")[4:]
                first = next((i for i in range(min(len(pa), len(pb))) if pa[i] != pb[i]), 0)
                if "dict" in cc.reach_kinds(sc, int(l.split(" ")[2])) and steps[first].startswith("2:"):
                    # known finding (recorded by the TL2 builder under C03): the []byte dictionary ReadTL2 reads every element into a copy
                    c.oracle_failures.append({"key": BYTES_DICT_TL2_KEY, "what": "bytes-dict-tl2", "input": l})
                    known_lines.add(l)
                else:
                    c.oracle_fail(l, "[]byte variant and string variant differ after the same history (step %d %s): string %s, bytes %s" % (first, steps[first][:40], pa[first][:80], pb[first][:80]), l)
            for t in c.tie_failures:
                if t["line"] in known_lines and t["tie"].startswith("mixed-bytes"):
                    t["explained"] = True
    c.extra["rule"] = ("inputs: encodings written by the string variant (dictionaries sorted, unique keys) and rejected malformed inputs; both "
                       "CreateObject() and CreateObjectBytes() decode and re-encode them; model is representation-agnostic")
