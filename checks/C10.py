"""C10 — []byte type variants behave like string variants (DESIGN.md §4 C10); TL1 part."""
from checks import codec_common as cc

LEVEL = "translation_validation"
MODULES = []
THEOREMS = []


def run(c):
    if MODULES:
        c.lean(MODULES, THEOREMS)
    # only schemas generated with --generateByteVersions
    model, hcodec, schemas = cc.prepare(c, [s for s in cc.corpus(c) if s.bytes_wl])
    rng = c.rng
    for sc in schemas:
        pre = [sc.desc_line()]
        lines = cc.x1_lines(sc, rng, 30 if c.thorough else 8, big=c.thorough, mutants=1)
        res_s = c.tie("string-variant:" + sc.sid, lines, sc.impl, model, prefix=pre)
        # canonical inputs (dictionaries sorted, no duplicates) = what the string variant wrote
        canon = set()
        for l, a, _ in res_s:
            if a.startswith("ok "):
                f = l.split(" ")
                o = cc.outputs(a)
                for k, boxed in (("w1", 0), ("w1b", 1)):
                    w = o.get(k)
                    if w and w not in ("n/a", "werr"):
                        canon.add("codec.x1 %s %s %s %d %s" % (f[1], f[2], f[3], boxed, w))
        # malformed inputs whose accept/reject must agree too (no dictionary content to reorder in rejected inputs)
        bad = [l for l, a, _ in res_s if a.startswith("err")]
        cl = sorted(canon) + bad
        res_str = c.tie("canon-string:" + sc.sid, cl, sc.impl, model, prefix=pre)
        res_byt = c.tie("canon-bytes:" + sc.sid, cl, sc.impl + ["-bytes"], model, prefix=pre)
        for (l, a, _), (_, b, _) in zip(res_str, res_byt):
            if a != b:
                c.oracle_fail(l, "[]byte variant and string variant differ on the same input: string %s, bytes %s" % (a[:100], b[:100]), l)
    c.extra["rule"] = ("inputs: encodings written by the string variant (dictionaries sorted, unique keys) and rejected malformed inputs; both "
                       "CreateObject() and CreateObjectBytes() decode and re-encode them; model is representation-agnostic")
