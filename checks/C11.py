"""C11 — wire formats of generated code match an independent reference codec (DESIGN.md §4 C11); TL1 part.

Independent of the generator's type resolution: random schemas come from checks/schemagen.py, which knows the
resolution of everything it emits and computes its own descriptor; the Lean codec (written from the documents)
is driven by THAT descriptor; generated Go code (tl2gen from the working tree) is compared with it on valid
encodings (bytes written back, consumed length) and on a malformed stream (the accepted set).  In addition the
generator's descriptor is compared with the kernel's export modulo instance numbering."""
import json
import os

from checks import codec_common as cc
from checks import codec_schemagen as cs
from checks import schemagen as sg
from vlib.core import SplitMix64, run_lines

LEVEL = "translation_validation"
MODULES = ["TLVerif.Props.C11"]
THEOREMS = ["TLVerif.Props.C11." + t for t in [
    "nat_little_endian", "long_little_endian", "nat_write", "long_write", "read_nat_little_endian", "string_layout", "bool_is_tag",
    "bool_read_only_its_tags", "boxed_is_tag_then_bare", "boxed_read_is_tag_then_bare", "field_present_iff_mask_bit", "mask_value_sources",
    "field_absent_writes_nothing", "struct_is_fields_in_order", "struct_write_unfold", "read_field_skipped_iff_bit_clear",
    "elements_concatenate", "vector_is_count_then_elements", "vector_read_is_count_then_elements", "tuple_is_elements_only",
    "tuple_write_needs_exact_count", "tuple_read_is_elements_only", "dict_is_count_then_pairs", "union_is_variant_tag_then_fields",
    "union_read_selects_by_tag", "union_read_rejects_unknown_tag", "int_example", "point_example", "masked_point_example", "string_example",
    "maybe_layout"]]
L4_KEY = "L4:CheckLengthSanity-min-element-size-4:qt_brackets.qtpl/qt_dict.qtpl"
SOURCES = ["TLVerif.Codec.TL1", "TLVerif.Codec.Val", "TLVerif.Codec.Desc"]


def schema_plan(c):
    """[(sid, seed, size, sanity)] — seeds are drawn from c.rng so that VERIF_SEED moves the whole plan"""
    n = 30 if c.thorough else 4
    n = int(os.environ.get("C11_SCHEMAS", n))
    plan = []
    for k in range(n):
        size = [3, 6, 10, 5, 14, 8][k % 6]
        # sanity off for every third schema; TL2 code (--tl2WhiteList=*) for all but those (generated TL1 code differs with and without it)
        plan.append(("r%d" % k, c.rng.next(), size, k % 3 != 2, k % 3 != 2))
    return plan


def text_stats(text):
    ls = [l for l in text.split("\n") if l and not l.startswith("---")]
    return {"total": len(ls), "explicit_tags": sum(1 for l in ls if "#" in l.split(" ")[0] or (l.startswith("@") and "#" in l.split(" ")[1]))}


def selftest(c):
    """schemagen's own canonical form + CRC32 reproduces the historic tags everybody knows (they were computed by the
    original TL compiler, not by this repository's tlast package)"""
    P = sg.prelude()
    known = {"int": 0xa8509bda, "long": 0x22076cba, "string": 0xb5286e24, "float": 0x824dab22, "double": 0x2210c154, "vector": 0x1cb5c415,
             "tuple": 0x9770768a, "dictionary": 0x1f4c618f, "true": 0x3fedd339, "boolFalse": 0xbc799737, "boolTrue": 0x997275b5, "resultFalse": 0x27930a7b}
    got = {cb.cname(): cb.implicit_tag() for t in P.values() for cb in t.combs}
    td = sg.TypeDef("", "Point")
    got["point"] = sg.Comb(td, "", "point", None, [sg.FieldD("x", sg.TPrim("int")), sg.FieldD("y", sg.TPrim("int"))]).implicit_tag()
    known["point"] = 0xe3fe70f4          # docs/tldoc.ru.md: `point x:int y:int = Point` ≡ `point#e3fe70f4 …`
    bad = {n: "%08x" % got.get(n, 0) for n, t in known.items() if got.get(n) != t}
    c.extra["schemagen_selftest"] = {"historic_tags_checked": len(known), "mismatches": bad}
    if bad:
        c.proof_failures.append({"stage": "schemagen selftest", "detail": "canonical form / CRC32 of schemagen does not reproduce historic tags: %r" % bad})


def run(c):
    selftest(c)
    if not os.environ.get("C11_NOLEAN"):
        c.lean(MODULES, THEOREMS, sources=SOURCES)
    model = c.model_exe()
    hcodec = c.harness("hcodec")
    tl2gen = cc.build_tl2gen(c)
    plan = schema_plan(c)
    if c.replay:
        # re-run the schemas of the replay first (they are regenerated from their own seed)
        seen = set()
        for f in c.replay.get("failures", []):
            i = f.get("input")
            if isinstance(i, dict) and "schema_seed" in i and (i["schema_seed"], i["size"], i["sanity"], i.get("tl2", False)) not in seen:
                seen.add((i["schema_seed"], i["size"], i["sanity"], i.get("tl2", False)))
                plan.insert(0, ("p%d" % len(seen), i["schema_seed"], i["size"], i["sanity"], i.get("tl2", False)))
        plan = plan[:len(seen) + 1]
    per = 12 if c.thorough else 4
    big = c.thorough
    if c.replay:
        per, big = (12, True) if c.replay.get("tier") == "thorough" else (4, False)    # regenerate exactly the cases of the recorded run
    stats = {"generated": 0, "kernel_rejected": 0, "go_build_failed": 0, "tied": 0, "desc_pairs_compared": 0, "desc_wire_diffs": 0,
             "desc_soft_diffs": 0, "factory_items": 0, "unlinked_items": 0}
    feats = {}
    rejected = []
    for sid, seed, size, sanity, tl2 in plan:
        sc, mine, g = cs.make_schema(c, sid, seed, size, sanity, tl2=tl2)
        stats["generated"] += 1
        for k, v in g.feat.items():
            feats[k] = feats.get(k, 0) + v
        ident = {"schema_seed": seed, "size": size, "sanity": sanity, "tl2": tl2}
        kd, err = cc.export_desc(c, hcodec, sc)
        if kd is None:
            # information, not a verdict: every schema we emit is meant to be valid TL
            stats["kernel_rejected"] += 1
            rejected.append({"sid": sid, "seed": seed, "size": size, "stage": "kernel", "detail": err[-400:]})
            continue
        wire, soft, pairs = sg.compare_desc(mine, kd)
        stats["desc_pairs_compared"] += pairs
        stats["desc_wire_diffs"] += len(wire)
        stats["desc_soft_diffs"] += len(soft)
        sc.desc = mine                        # the reference is driven by the generator's descriptor, not the kernel's
        ok, msg = cc.generate(c, tl2gen, sc)
        if not ok:
            stats["go_build_failed"] += 1
            rejected.append({"sid": sid, "seed": seed, "size": size, "stage": "tl2gen/go build", "detail": msg[-600:]})
            continue
        sc.items = cc.link_items(sc)
        c.extra.setdefault("schemas", []).append({"sid": sid, "schema_seed": seed, "size": size, "sanity": sanity, "tl2": tl2, "instances": len(mine["instances"]),
                                                  "kernel_instances": len(kd["instances"]), "factory_items": len(sc.items), "desc_pairs": pairs,
                                                  "combinators": text_stats(sc.text)})
        stats["factory_items"] += len(sc.items)
        stats["unlinked_items"] += len(sc.unlinked)
        for name in sc.unlinked:
            c.oracle_fail("codec.items %s %s" % (sid, name), "generated factory knows a TL name the schema generator's descriptor lacks", dict(ident, name=name))
        # T3 on the generator's own descriptor: the hypotheses of the TL1 theorems (C01/C02/C08) must hold for what we emit
        for idx, r in cc.certificates(c, model, sc).items():
            if not (r["wf"] and r["productive"] and r["closed"] and r["rt"]):
                c.proof_failures.append({"stage": "certificate", "schema": sid, "seed": seed, "instance": idx,
                                         "detail": "schemagen emitted a descriptor that is not wf/productive/round-trip-ok: %r" % r})
        valid = []
        lines = cs.x1_lines(sc, SplitMix64(seed ^ 0x5DEECE66D), per, mutants=2, big=big, valid_idx=valid)   # a schema's cases depend on its own seed only (replayable)
        # + the registry listing: names and constructor tags (explicit and implicit CRC32) as the generated meta package reports them
        # against the registry of the generator's descriptor
        lines.append("codec.items " + sid)
        res = cs.tie_pinpoint(c, "ref-tl1:" + sid, lines, sc.impl, model, [sc.desc_line()])
        stats["tied"] += 1
        nbad = 0
        for l, a, b in res:
            if a != b:
                nbad += 1
                # the reference *is* the property: a disagreement is a failing input of C11
                c.oracle_fail(l, "generated code and the independent reference disagree: generated %s, reference %s" % (a[:160], b[:160]),
                              dict(ident, line=l, generated=a, reference=b))
        if sanity:
            # the reference above models --checkLengthSanity (a documented option of tl2gen, not of the format). Against the format
            # proper (no such guard) the valid encodings must all be accepted; where the guard refuses one, that is lead L4
            # (CheckLengthSanity assumes ≥ 4 bytes per element; elements of wire size 0), a known finding of C01/C08.
            sid2 = sid + "doc"
            pre2 = sc.desc_line().replace("codec.desc %s 1 " % sid, "codec.desc %s 0 " % sid2, 1)
            vl = [lines[i] for i in valid]
            doc = run_lines(model, [l.replace("codec.x1 %s " % sid, "codec.x1 %s " % sid2, 1) for l in vl], prefix=[pre2])
            for i, l, dref in zip(valid, vl, doc):
                a = res[i][1]
                c.count("doc-format:" + ("same" if a == dref else "differs"))
                if a != dref and a == res[i][2]:
                    if a == "err eof" and dref.startswith("ok "):
                        c.oracle_failures.append({"key": L4_KEY, "what": "L4", "input": dict(ident, line=l)})
                        c.count("known:L4")
                    else:
                        c.oracle_fail(l, "generated code (== reference with the sanity guard) differs from the documented format on a valid encoding: "
                                      "generated %s, format %s" % (a[:160], dref[:160]), dict(ident, line=l, generated=a, reference=dref))
        if tl2:
            # ---- TL2 half: the same reference (Codec/TL2.lean, written from the TL2 primer) driven by the generator's descriptor
            pre = [sc.desc_line()]
            lrng = SplitMix64(seed ^ 0x2545F4914F6CDD1D)
            l2 = cs.x2_lines(sc, lrng, per + 1, big=big)
            res2 = cs.tie_pinpoint(c, "ref-tl1-to-tl2:" + sid, l2, sc.impl, model, pre)
            back = {}
            for l, a, b in res2:
                if a != b:
                    nbad += 1
                    c.oracle_fail(l, "TL2 bytes written by generated code differ from the independent reference: generated %s, reference %s" % (a[:160], b[:160]),
                                  dict(ident, line=l, generated=a, reference=b))
                if a.startswith("ok "):
                    w2 = dict(p.split("=", 1) for p in a.split(" ")[1:] if "=" in p).get("w2", "")
                    f = l.split(" ")
                    if w2 and w2 not in ("panic", "werr") and not w2.startswith("!"):
                        back["codec.r2 %s %s %s %s" % (f[1], f[2], f[3], w2)] = l
            # what the writer produced (sparse values: bodies that end before the next presence-mask block) must be read back the
            # same way by generated code and reference; plus type-directed TL2 encodings in non-minimal forms and a malformed stream
            l3 = sorted(set(back) | set(cs.r2_gen_lines(sc, lrng, 3 if big else 2, big=big)))
            res3 = cs.tie_pinpoint(c, "ref-tl2:" + sid, l3, sc.impl, model, pre)
            stats["tl2_tied"] = stats.get("tl2_tied", 0) + 1
            for l, a, b in res3:
                if a != b:
                    nbad += 1
                    src = back.get(l)
                    c.oracle_fail(l, "generated TL2 reader and the independent reference disagree: generated %s, reference %s%s" % (
                        a[:160], b[:160], (" (bytes written by generated code for `%s`)" % src[:200]) if src else ""),
                        dict(ident, line=l, generated=a, reference=b))
                elif l in back and a.startswith("ok "):
                    w2 = l.split(" ")[4]
                    n = 0 if w2 == "-" else len(w2) // 2
                    c.count("tl2-roundtrip:" + ("exact" if a.startswith("ok %d w2=%s " % (n, w2)) else "differs"))
        for w in wire:
            key = "codec.descdiff %s %s" % (sid, w)
            if nbad:
                c.oracle_fail(key, "kernel resolved the schema differently from the documented rules (and values show it on the wire): " + w, dict(ident, diff=w))
            else:
                c.tie_failures.append({"tie": "descriptor:" + sid, "line": key, "impl": "kernel export", "model": "schemagen descriptor: " + w})
        for w in soft:
            c.tie_failures.append({"tie": "descriptor-soft:" + sid, "line": "codec.descdiff %s %s" % (sid, w), "impl": "kernel export", "model": "schemagen descriptor: " + w})
    c.extra["schemagen"] = stats
    c.extra["schemagen_features"] = dict(sorted(feats.items()))
    c.extra["schemas_skipped"] = rejected[:20]
    c.extra["programs"] = stats["tied"]
    if stats["generated"] and stats["tied"] * 2 < stats["generated"]:
        c.proof_failures.append({"stage": "schemagen", "detail": "more than half of the random schemas were rejected by tl2gen / did not build: %r" % rejected[:3]})
    c.extra["rule"] = ("random schemas from checks/schemagen.py (own AST, own descriptor, explicit and implicit CRC32 tags); per factory item × bare/boxed: "
                       "valid TL1 encodings generated from the generator's descriptor (+random rest) and 2 malformed variants each; the Lean reference codec is "
                       "driven by the generator's descriptor, the generated Go code by tl2gen's own resolution; every disagreement is an oracle failure; "
                       "descriptor compared with the kernel export modulo numbering. TL2-enabled schemas (all but every third) additionally: codec.x2 (read TL1, write TL2) on dense "
                       "and sparse values (most fields empty; in constructors with ≥ 8 fields everything from a random cut 1..7 on is empty/absent, so bodies end "
                       "before the next presence-mask block), then codec.r2 on every TL2 encoding the implementation wrote, on type-directed TL2 encodings "
                       "(minimal / admissibly non-minimal, dense / cut) and 2 malformed variants each; distinct = distinct case line")
    c.trusted += ["checks/schemagen.py (schema generator with its own resolution, canonical form and CRC32)", "generic driver go/hgen over generated meta/factory",
                  "hcodec descriptor export is used only for the descriptor comparison, not by the reference"]
    c.assumptions += ["TL2: tie only (reference = Codec/TL2.lean driven by the generator's descriptor); the TL2 shape lemmas are not written yet (Props/C11.lean note)",
                      "schemas rejected by tl2gen or failing go build are logged in evidence (schemas_skipped) and skipped"]
