"""Shared generator / encoder for the linter family (C28, C29, C30).

Schema AST (plain Python data, mirrors lean/TLVerif/Lint/Ast.lean and internal/tlast):
  ref   = (name, bare, [arg...])          arg = int (arithmetic constant) | ref
  field = {"n": name, "m": None | (maskName, bit), "r": None | (scale, ref), "t": ref}
          scale = ("i",) | ("a", n) | ("v", name); for repeated fields "t" is the empty ref
  comb  = {"k": "t"|"f"|"b", "n": constructor, "tag": "x%08x"|"i%08x", "ty": type name ("" for functions),
           "ta": [(name, "n"|"t")...], "f": [field...], "res": ref (empty for types)}
Token encoding (comma separated, no spaces; "~" is the empty name):
  schema := N comb*N
  comb   := kind name tag tyName NT (targName targKind)*NT NF field*NF ref
  field  := name ("-" | "m" maskName bit) ("-" ref | ("ri" | "ra" num | "rv" name) ref ref)
  ref    := name bare(0|1) NA arg*NA          arg := "=" num | ref
The Go harness renders the tokens to TL text, parses it with the real parser and checks that the real AST dumps back
to the same tokens; the Lean driver parses the tokens into its AST.
"""
import copy

EMPTY = ("", False, [])


def R(name, *args, bare=False):
    return (name, bare, list(args))


def F(name, ty, mask=None, rep=None):
    return {"n": name, "m": mask, "r": rep, "t": ty if rep is None else EMPTY}


def C(kind, name, tag, ty, targs, fields, res=EMPTY):
    return {"k": kind, "n": name, "tag": tag, "ty": ty, "ta": list(targs), "f": list(fields), "res": res}


def nm(s):
    return s if s else "~"


def enc_ref(out, r):
    out += [nm(r[0]), "1" if r[1] else "0", str(len(r[2]))]
    for a in r[2]:
        if isinstance(a, int):
            out.append("=%d" % a)
        else:
            enc_ref(out, a)


def enc(schema):
    out = [str(len(schema))]
    for c in schema:
        out += [c["k"], c["n"], c["tag"], nm(c["ty"]), str(len(c["ta"]))]
        for a in c["ta"]:
            out += [a[0], a[1]]
        out.append(str(len(c["f"])))
        for f in c["f"]:
            out.append(nm(f["n"]))
            if f["m"]:
                out += ["m", f["m"][0], str(f["m"][1])]
            else:
                out.append("-")
            if f["r"]:
                sc, el = f["r"]
                if sc[0] == "i":
                    out.append("ri")
                elif sc[0] == "a":
                    out += ["ra", str(sc[1])]
                else:
                    out += ["rv", sc[1]]
                enc_ref(out, el)
            else:
                out.append("-")
            enc_ref(out, f["t"])
        enc_ref(out, c["res"])
    return ",".join(out)


def dec(tokens):
    """inverse of enc (used to bring parser dumps of repository files into the Python AST)"""
    t = tokens.split(",")
    pos = [0]

    def nx():
        pos[0] += 1
        return t[pos[0] - 1]

    def un(s):
        return "" if s == "~" else s

    def ref():
        n = un(nx())
        b = nx() == "1"
        k = int(nx())
        args = []
        for _ in range(k):
            if t[pos[0]].startswith("="):
                args.append(int(nx()[1:]))
            else:
                args.append(ref())
        return (n, b, args)

    res = []
    for _ in range(int(nx())):
        k, n, tag, ty = nx(), nx(), nx(), un(nx())
        ta = []
        for _ in range(int(nx())):
            a = nx()
            ta.append((a, nx()))
        fs = []
        for _ in range(int(nx())):
            fn = un(nx())
            m = None
            if nx() == "m":
                mn = nx()
                m = (mn, int(nx()))
            r = nx()
            rep = None
            if r == "ri":
                rep = (("i",), ref())
            elif r == "ra":
                v = int(nx())
                rep = (("a", v), ref())
            elif r == "rv":
                v = nx()
                rep = (("v", v), ref())
            fs.append({"n": fn, "m": m, "r": rep, "t": ref()})
        res.append({"k": k, "n": n, "tag": tag, "ty": ty, "ta": ta, "f": fs, "res": ref()})
    assert pos[0] == len(t)
    return res


def txt_ref(r, top=False):
    name, bare, args = r
    p = "%" if bare else ""
    if not args:
        return p + name
    a = [str(x) if isinstance(x, int) else txt_ref(x) for x in args]
    if top:
        return (p + name + "<" + ",".join(a) + ">") if bare else name + " " + " ".join(a)
    return p + "(" + name + " " + " ".join(a) + ")"


def txt(schema):
    """human-readable TL text (evidence/replays only; the harness has its own renderer)"""
    out = []
    for c in schema:
        s = ("@any " if c["k"] == "f" else "") + c["n"] + ("#" + c["tag"][1:] if c["tag"][0] == "x" else "")
        for a in c["ta"]:
            s += " {%s:%s}" % (a[0], "#" if a[1] == "n" else "Type")
        for f in c["f"]:
            s += " " + (f["n"] + ":" if f["n"] else "") + ("%s.%d?" % f["m"] if f["m"] else "")
            if f["r"]:
                sc, el = f["r"]
                s += ("" if sc[0] == "i" else str(sc[1]) + "*") + "[" + txt_ref(el) + "]"
            else:
                s += txt_ref(f["t"])
        if c["k"] == "b":
            s += " ? = " + c["ty"]
        elif c["k"] == "t":
            s += " = " + " ".join([c["ty"]] + [a[0] for a in c["ta"]])
        else:
            s += " = " + txt_ref(c["res"], True)
        out.append(s + ";")
    return " ".join(out)


# ------------------------------------------------------------------ type tree helpers

def nodes(r, path=()):
    """all (path, node) of a reference tree; arithmetic arguments are reported as ints"""
    yield path, r
    if not isinstance(r, int):
        for i, a in enumerate(r[2]):
            yield from nodes(a, path + (i,))


def replace(r, path, new):
    if not path:
        return new
    args = list(r[2])
    args[path[0]] = replace(args[path[0]], path[1:], new)
    return (r[0], r[1], args)


def remove_arg(r, path):
    if len(path) == 1:
        args = list(r[2])
        del args[path[0]]
        return (r[0], r[1], args)
    args = list(r[2])
    args[path[0]] = remove_arg(args[path[0]], path[1:])
    return (r[0], r[1], args)


def on_first_spine(path, root):
    """is `path` reached by following, at every level, the first non-arithmetic argument (what checkBoxUsage follows)?"""
    r = root
    for i in path:
        first = None
        for j, a in enumerate(r[2]):
            if not isinstance(a, int):
                first = j
                break
        if first != i:
            return False
        r = r[2][i]
    return True


def slots(schema):
    """every reference slot: (comb index, ("f", field index, "t"|"r") | ("res",))"""
    for ci, c in enumerate(schema):
        if c["k"] == "b":
            continue
        for fi, f in enumerate(c["f"]):
            if f["r"]:
                yield ci, ("f", fi, "r")
            else:
                yield ci, ("f", fi, "t")
        if c["k"] == "f":
            yield ci, ("res",)


def get_slot(schema, ci, sl):
    c = schema[ci]
    if sl[0] == "res":
        return c["res"]
    f = c["f"][sl[1]]
    return f["r"][1] if sl[2] == "r" else f["t"]


def set_slot(schema, ci, sl, r):
    c = schema[ci]
    if sl[0] == "res":
        c["res"] = r
    else:
        f = c["f"][sl[1]]
        if sl[2] == "r":
            f["r"] = (f["r"][0], r)
        else:
            f["t"] = r


# ------------------------------------------------------------------ random base schemas

PRIMS = ["int", "long", "string"]
PRELUDE = [C("b", "int", "xa8509bda", "Int", [], []), C("b", "long", "x22076cba", "Long", [], []),
           C("b", "string", "xb5286e24", "String", [], [])]


class Gen:
    def __init__(self, rng, implicit_tags=False, wire=False):
        self.rng = rng
        self.tagn = 0
        self.implicit = implicit_tags
        self.wire = wire  # restrict to what the dynamic interpreter / the wire model understand

    def tag(self):
        self.tagn += 1
        if self.implicit and self.rng.chance(1, 3):
            return "i00000000"
        return "x%08x" % (0x10000000 + self.rng.below(0x6FFFFFFF - self.tagn) + self.tagn)

    def library(self):
        rng = self.rng
        lib = []
        lib.append(C("t", "vector", self.tag(), "Vector", [("t", "t")], [F("", R("#")), F("", None, rep=(("i",), R("t")))]))
        lib.append(C("t", "tuple", self.tag(), "Tuple", [("t", "t"), ("n", "n")], [F("", None, rep=(("i",), R("t")))]))
        lib.append(C("t", "pair", self.tag(), "Pair", [("X", "t"), ("Y", "t")], [F("a", R("X")), F("b", R("Y"))]))
        lib.append(C("t", "nothing", self.tag(), "Maybe", [("t", "t")], []))
        lib.append(C("t", "just", self.tag(), "Maybe", [("t", "t")], [F("value", R("t"))]))
        b1, b2 = rng.below(6), 6 + rng.below(6)
        lib.append(C("t", "optA", self.tag(), "OptA", [("n", "n"), ("t", "t")],
                     [F("a", R("t"), mask=("n", b1)), F("b", R("int"), mask=("n", b2))]))
        b3 = 12 + rng.below(6)
        lib.append(C("t", "wrapA", self.tag(), "WrapA", [("m", "n"), ("t", "t")],
                     [F("x", R("optA", R("m"), R("t"))), F("y", R("long"), mask=("m", b3))]))
        # the same with the # argument in SECOND position, and a third level (positions 0 -> 1 -> 1)
        b4, b5 = 18 + rng.below(3), 21 + rng.below(3)
        lib.append(C("t", "optB", self.tag(), "OptB", [("t", "t"), ("n", "n")],
                     [F("a", R("t"), mask=("n", b4)), F("b", R("long"), mask=("n", b5))]))
        b6 = 24 + rng.below(3)
        lib.append(C("t", "wrapB", self.tag(), "WrapB", [("t", "t"), ("m", "n")],
                     [F("y", R("int"), mask=("m", b6)), F("x", R("optB", R("t"), R("m")))]))
        b7 = 27 + rng.below(3)
        lib.append(C("t", "wrapC", self.tag(), "WrapC", [("m", "n"), ("t", "t")],
                     [F("x", R("wrapB", R("t"), R("m"))), F("z", R("int"), mask=("m", b7))]))
        if not self.wire and rng.chance(1, 2):
            lib.append(C("t", "chainA", self.tag(), "ChainA", [("k", "n")],
                         [F("head", R("int"), mask=("k", 20)), F("tail", R("chainA", R("k")), mask=("k", 21)),
                          F("other", R("chainB", R("k")), mask=("k", 22))]))
            lib.append(C("t", "chainB", self.tag(), "ChainB", [("k", "n")],
                         [F("back", R("chainA", R("k")), mask=("k", 23)), F("leaf", R("int"), mask=("k", 24))]))
        return lib

    def type_expr(self, ctx, depth):
        """ctx: {"types": [(tyName, [constructor names], targs)], "nats": [names], "tvars": [names], "lib": set}"""
        rng = self.rng
        k = rng.below(100)
        if depth <= 0 or k < 30:
            if ctx["tvars"] and rng.chance(1, 3):
                return R(rng.choice(ctx["tvars"]))
            return R(rng.choice(PRIMS))
        if k < 55 and ctx["types"]:
            ty, cons, targs = rng.choice(ctx["types"])
            args = []
            for a in targs:
                if a[1] == "n":
                    args.append(self.nat_arg(ctx))
                else:
                    args.append(self.type_expr(ctx, depth - 1))
            if len(cons) == 1:
                form = rng.below(3)
                if form == 0:
                    return (ty, False, args)
                if form == 1:
                    return (ty, True, args)
                return (cons[0], False, args)
            return (ty, False, args)
        g = rng.below(10)
        if g == 7:
            return rng.choice([R("OptB", self.type_expr(ctx, depth - 1), self.nat_arg(ctx)), R("optB", self.type_expr(ctx, depth - 1), self.nat_arg(ctx))])
        if g == 8:
            return rng.choice([R("WrapB", self.type_expr(ctx, depth - 1), self.nat_arg(ctx)), R("wrapB", self.type_expr(ctx, depth - 1), self.nat_arg(ctx))])
        if g == 9:
            return rng.choice([R("WrapC", self.nat_arg(ctx), self.type_expr(ctx, depth - 1)), R("wrapC", self.nat_arg(ctx), self.type_expr(ctx, depth - 1))])
        sub = lambda: self.type_expr(ctx, depth - 1)
        if g == 0:
            return rng.choice([R("Vector", sub()), R("Vector", sub(), bare=True), R("vector", sub())])
        if g == 1:
            return rng.choice([R("Pair", sub(), sub()), R("Pair", sub(), sub(), bare=True), R("pair", sub(), sub())])
        if g == 2:
            return R("Maybe", sub())
        if g == 3:
            return rng.choice([R("Tuple", sub(), self.nat_arg(ctx)), R("tuple", sub(), self.nat_arg(ctx)),
                               R("Tuple", sub(), self.nat_arg(ctx), bare=True)])
        if g == 4:
            return rng.choice([R("OptA", self.nat_arg(ctx), sub()), R("optA", self.nat_arg(ctx), sub())])
        if g == 5:
            return rng.choice([R("WrapA", self.nat_arg(ctx), sub()), R("wrapA", self.nat_arg(ctx), sub())])
        if "chainA" in ctx["lib"]:
            return R(rng.choice(["chainA", "ChainB", "chainB"]), self.nat_arg(ctx))
        return R("Pair", sub(), sub())

    def nat_arg(self, ctx):
        rng = self.rng
        if ctx["nats"] and rng.chance(2, 3):
            return R(rng.choice(ctx["nats"]))
        return rng.choice([0, 1, 2, 3, 5, 8, 255, rng.below(1 << 16)])

    def fields(self, ctx, nmin, nmax, used_names):
        rng = self.rng
        fs = []
        ctx = dict(ctx)
        ctx["nats"] = list(ctx["nats"])
        n = rng.range(nmin, nmax)
        masks = {}  # nat name -> set of bits
        for j in range(n):
            name = "f%d" % (len(used_names))
            used_names.append(name)
            k = rng.below(100)
            if k < 22:
                name = "m%d" % len(used_names)
                fs.append(F(name, R("#")))
                ctx["nats"].append(name)
                continue
            mask = None
            if ctx["nats"] and rng.chance(2, 5):
                m = rng.choice(ctx["nats"])
                mask = (m, rng.choice([0, 1, 2, 3, 4, 7, 15, 30, 31, rng.below(32)]))
            if k < 34 and ctx["nats"]:
                sc = ("v", rng.choice(ctx["nats"])) if rng.chance(2, 3) else ("a", rng.below(4))
                fs.append(F(name, None, mask=mask, rep=(sc, self.type_expr(ctx, 1))))
            elif k < 38:
                fs.append(F(name, None, mask=mask, rep=(("a", rng.below(4)), self.type_expr(ctx, 1))))
            else:
                fs.append(F(name, self.type_expr(ctx, 2), mask=mask))
        return fs

    def schema(self, ntypes=None, nfuncs=None):
        rng = self.rng
        s = [copy.deepcopy(c) for c in PRELUDE] + self.library()
        lib = set(c["n"] for c in s)
        types = []
        ntypes = rng.range(2, 6) if ntypes is None else ntypes
        for i in range(ntypes):
            ty = "T%d" % i
            targs = []
            if rng.chance(1, 4):
                targs.append(("p", "n"))
            if rng.chance(1, 6):
                targs.append(("Q", "t"))
            ctx = {"types": list(types), "nats": [a[0] for a in targs if a[1] == "n"],
                   "tvars": [a[0] for a in targs if a[1] == "t"], "lib": lib}
            ncons = 1 if rng.chance(2, 3) else rng.range(2, 3)
            cons = []
            for j in range(ncons):
                cn = "t%d" % i if ncons == 1 else "t%d%s" % (i, "abc"[j])
                cons.append(cn)
                s.append(C("t", cn, self.tag(), ty, targs, self.fields(ctx, 0 if ncons > 1 else 1, 5, [])))
            types.append((ty, cons, targs))
        nfuncs = rng.range(0, 3) if nfuncs is None else nfuncs
        for i in range(nfuncs):
            ctx = {"types": list(types), "nats": [], "tvars": [], "lib": lib}
            fs = self.fields(ctx, 0, 4, [])
            ctx["nats"] = [f["n"] for f in fs if f["t"][0] == "#" and not f["m"]]
            res = self.type_expr(ctx, 2)
            if res[1] or res[0][0].islower():  # the kernel refuses bare function results
                res = R("Maybe", res)
            s.append(C("f", "fn%d" % i, self.tag(), "", [], fs, res))
        return s


# ------------------------------------------------------------------ analysis helpers for edit generators (independent of the linter)

def type_combs(s, ty):
    return [c for c in s if c["k"] == "t" and c["ty"] == ty]


def type_names(s):
    out = []
    for c in s:
        if c["k"] == "t" and c["ty"] not in out:
            out.append(c["ty"])
    return out


def name_used_as_arg(c, name):
    """is `name` passed as a type argument (or used as a repeat scale) anywhere in combinator c?"""
    for f in c["f"]:
        if f["r"]:
            if f["r"][0] == ("v", name):
                return True
            tree = f["r"][1]
        else:
            tree = f["t"]
        for p, n in nodes(tree):
            if p and not isinstance(n, int) and n[0] == name:
                return True
    for p, n in nodes(c["res"]):
        if p and not isinstance(n, int) and n[0] == name:
            return True
    return False


def implicit_scale_uses(c, fi):
    """an `[t]` repeat right after field fi uses it as its size"""
    return fi + 1 < len(c["f"]) and c["f"][fi + 1]["r"] is not None and c["f"][fi + 1]["r"][0] == ("i",)


def local_nat_fields(c):
    return [(i, f["n"]) for i, f in enumerate(c["f"]) if f["t"][0] == "#" and not f["r"] and f["n"]]


def direct_bits(c, name):
    return set(f["m"][1] for f in c["f"] if f["m"] and f["m"][0] == name)


def fresh_field_name(c):
    names = set(f["n"] for f in c["f"]) | set(a[0] for a in c["ta"])
    i = 0
    while "g%d" % i in names:
        i += 1
    return "g%d" % i


def all_names(s):
    out = set()
    for c in s:
        out.add(c["n"])
        if c["ty"]:
            out.add(c["ty"])
    return out


def bare_uses(s, ty, cons):
    """every (comb index, slot, path) at which type `ty` is used bare (`%ty`) or through its constructor name"""
    out = []
    for ci, sl in slots(s):
        root = get_slot(s, ci, sl)
        for p, n in nodes(root):
            if not isinstance(n, int) and ((n[0] == ty and n[1]) or n[0] == cons):
                out.append((ci, sl, p))
    return out


# ------------------------------------------------------------------ safe edits (C29); each returns (new schema, meta) or None

def safe_append_masked_field(s, rng, gen):
    """append a field guarded by a bit of an existing local field mask that nothing uses"""
    cands = []
    for ci, c in enumerate(s):
        if c["k"] == "b":
            continue
        for fi, name in local_nat_fields(c):
            if name_used_as_arg(c, name) or implicit_scale_uses(c, fi) or c["f"][fi]["m"]:
                continue
            free = [b for b in range(32) if b not in direct_bits(c, name)]
            if free:
                cands.append((ci, name, free))
    if not cands:
        return None
    ci, name, free = rng.choice(cands)
    s = copy.deepcopy(s)
    c = s[ci]
    if c["k"] == "f":
        # functions: the documented way needs an existing mask in use, or a nat field (then one field at a time is fine)
        pass
    ty = rng.choice([R("int"), R("long"), R("string"), R("Vector", R("int")), R("Maybe", R("long"))])
    c["f"].append(F(fresh_field_name(c), ty, mask=(name, rng.choice(free))))
    return s, {"kind": "append-masked-field", "comb": c["n"]}


def safe_append_constructor(s, rng, gen):
    """append a constructor to a type that is a union already, or that is used only boxed"""
    cands = []
    for ty in type_names(s):
        cs = type_combs(s, ty)
        if len(cs) == 1 and bare_uses(s, ty, cs[0]["n"]):
            continue
        cands.append(ty)
    if not cands:
        return None
    ty = rng.choice(cands)
    cs = type_combs(s, ty)
    s = copy.deepcopy(s)
    names = all_names(s)
    i = 0
    while "k%d" % i in names:
        i += 1
    nc = C("t", "k%d" % i, gen.tag(), ty, cs[0]["ta"], [F("v", R(rng.choice(PRIMS)))] if rng.chance(1, 2) else [])
    # position: right after the last constructor of the type, or at the end of the type section
    idx = [j for j, c in enumerate(s) if c["k"] == "t" and c["ty"] == ty]
    lastt = max(j for j, c in enumerate(s) if c["k"] != "f")
    pos = rng.choice([idx[-1] + 1, lastt + 1, idx[0]])
    s.insert(pos, nc)
    return s, {"kind": "append-constructor", "type": ty, "was-union": len(cs) > 1}


def safe_add_type(s, rng, gen):
    s = copy.deepcopy(s)
    names = all_names(s)
    i = 0
    while "n%d" % i in names:
        i += 1
    ctx = {"types": [], "nats": [], "tvars": [], "lib": set(c["n"] for c in s)}
    fs = gen.fields(ctx, 0, 4, [])
    lastt = max(j for j, c in enumerate(s) if c["k"] != "f")
    pos = rng.range(3, lastt + 1)
    s.insert(pos, C("t", "n%d" % i, gen.tag(), "N%d" % i, [], fs))
    return s, {"kind": "add-type"}


def safe_add_function(s, rng, gen):
    s = copy.deepcopy(s)
    names = all_names(s)
    i = 0
    while "nf%d" % i in names:
        i += 1
    ctx = {"types": [], "nats": ["fm"], "tvars": [], "lib": set(c["n"] for c in s)}
    fs = []
    if rng.chance(4, 5):
        fs = [F("fm", R("#"))] + gen.fields(ctx, 0, 3, ["x"])
    s.append(C("f", "nf%d" % i, gen.tag(), "", [], fs, R(rng.choice(["Int", "Long", "String"]))))
    return s, {"kind": "add-function", "args": len(fs)}


def safe_function_new_mask(s, rng, gen):
    """documented way to extend a function without any nat argument: append `fm:#` and fields masked by it"""
    cands = [ci for ci, c in enumerate(s) if c["k"] == "f" and not any(f["t"][0] == "#" for f in c["f"])
             and not any(f["m"] for f in c["f"])]
    if not cands:
        return None
    s = copy.deepcopy(s)
    c = s[rng.choice(cands)]
    m = fresh_field_name(c)
    c["f"].append(F(m, R("#")))
    bits = list(range(32))
    rng.shuffle(bits)
    for j in range(rng.range(1, 3)):
        c["f"].append(F(fresh_field_name(c), R(rng.choice(PRIMS)), mask=(m, bits[j])))
    return s, {"kind": "function-new-mask", "comb": c["n"]}


def safe_append_multi(s, rng, gen):
    """one comparison appends two or three fields to ONE combinator under DIFFERENT local field masks; where possible the
    later field uses a bit that is free in its own mask but taken in the mask of the first appended field"""
    cands = []
    for ci, c in enumerate(s):
        if c["k"] == "b":
            continue
        ok = []
        for fi, name in local_nat_fields(c):
            if name_used_as_arg(c, name) or implicit_scale_uses(c, fi) or c["f"][fi]["m"]:
                continue
            ok.append(name)
        if len(ok) >= 2:
            cands.append((ci, ok))
    if not cands:
        return None
    ci, ok = rng.choice(cands)
    s = copy.deepcopy(s)
    c = s[ci]
    rng.shuffle(ok)
    used = {n: direct_bits(c, n) for n in ok}
    first = ok[0]
    free0 = [b for b in range(32) if b not in used[first]]
    if not free0:
        return None
    b0 = rng.choice(free0)
    plan = [(first, b0)]
    taken_first = set(used[first]) | {b0}
    for other in ok[1:3]:
        pref = [b for b in sorted(taken_first) if b not in used[other]]
        free = pref if pref and rng.chance(3, 4) else [b for b in range(32) if b not in used[other]]
        if free:
            plan.append((other, rng.choice(free)))
    if len(plan) < 2:
        return None
    for name, bit in plan:
        c["f"].append(F(fresh_field_name(c), R(rng.choice(PRIMS)), mask=(name, bit)))
    return s, {"kind": "append-masked-fields-different-masks", "comb": c["n"], "n": len(plan)}


def plant_two_masks(s, rng, gen):
    """give a combinator two mask-only # fields with some bits in use (so that safe_append_multi applies)"""
    hosts = [ci for ci, c in enumerate(s) if c["k"] in "tf" and c["n"][0] in "tf" and c["n"] not in ("tuple",)]
    if not hosts:
        return s
    s = copy.deepcopy(s)
    c = s[rng.choice(hosts)]
    a, b = fresh_field_name(c), None
    c["f"].append(F(a, R("#")))
    b = fresh_field_name(c)
    c["f"].append(F(b, R("#")))
    for _ in range(rng.range(1, 3)):
        c["f"].append(F(fresh_field_name(c), R(rng.choice(PRIMS)), mask=(rng.choice([a, b]), rng.below(6))))
    return s


SAFE_EDITS = [safe_append_multi, safe_append_multi, safe_append_masked_field, safe_append_masked_field, safe_append_constructor, safe_add_type, safe_add_function,
              safe_function_new_mask]


def safe_sequence(s, rng, gen, n):
    metas = []
    for _ in range(n):
        e = rng.choice(SAFE_EDITS)
        r = e(s, rng, gen)
        if r is None:
            continue
        s, m = r
        metas.append(m)
    return s, metas


# ------------------------------------------------------------------ unsafe edits (C30)
# meta["class"]: "guard" = inside the domain on which the rejection theorem is proved (the linter must reject);
# any other value names the known defect class the case falls into (see lean/TLVerif/Props/C30.lean).

def uns_remove_constructor(s, rng, gen):
    cands = [ci for ci, c in enumerate(s) if c["k"] == "t"]
    if not cands:
        return None
    s = copy.deepcopy(s)
    ci = rng.choice(cands)
    c = s.pop(ci)
    return s, {"kind": "remove-constructor", "comb": c["n"], "class": "guard"}


def uns_remove_function(s, rng, gen):
    cands = [ci for ci, c in enumerate(s) if c["k"] == "f"]
    if not cands:
        return None
    s = copy.deepcopy(s)
    c = s.pop(rng.choice(cands))
    return s, {"kind": "remove-function", "comb": c["n"], "class": "guard"}


def uns_remove_field(s, rng, gen):
    cands = [ci for ci, c in enumerate(s) if c["k"] != "b" and c["f"]]
    if not cands:
        return None
    s = copy.deepcopy(s)
    c = s[rng.choice(cands)]
    fi = rng.below(len(c["f"]))
    del c["f"][fi]
    return s, {"kind": "remove-field", "comb": c["n"], "pos": fi, "class": "guard"}


def refs_to(s, names):
    """(comb index, slot, path) of every reference whose head is one of `names`"""
    out = []
    for ci, sl in slots(s):
        for p, n in nodes(get_slot(s, ci, sl)):
            if not isinstance(n, int) and n[0] in names:
                out.append((ci, sl, p))
    return out


def uns_remove_targ(s, rng, gen):
    """remove a template argument of a type and the corresponding argument of every reference to it"""
    cands = [ty for ty in type_names(s) if type_combs(s, ty)[0]["ta"]]
    if not cands:
        return None
    s = copy.deepcopy(s)
    ty = rng.choice(cands)
    k = rng.below(len(type_combs(s, ty)[0]["ta"]))
    names = set([ty] + [c["n"] for c in type_combs(s, ty)])
    for c in s:
        if c["k"] == "t" and c["ty"] == ty:
            c["ta"] = c["ta"][:k] + c["ta"][k + 1:]
    # references outside repeats decide whether compareTypes meets a shorter argument list (index panic)
    visible = [u for u in refs_to(s, names) if not (u[1][0] == "f" and u[1][2] == "r")]

    def fix(r):
        if isinstance(r, int):
            return r
        args = [fix(a) for a in r[2]]
        if r[0] in names and len(args) > k:
            del args[k]
        return (r[0], r[1], args)
    for ci, sl in list(slots(s)):
        set_slot(s, ci, sl, fix(get_slot(s, ci, sl)))
    return s, {"kind": "remove-template-argument", "type": ty, "pos": k,
               "class": "panic-fewer-args" if visible else "guard"}


def uns_change_type(s, rng, gen):
    """change one node of the type tree of an existing field (or function result) at a random position"""
    sl_all = list(slots(s))
    if not sl_all:
        return None
    ci, sl = rng.choice(sl_all)
    root = get_slot(s, ci, sl)
    ns = list(nodes(root))
    path, node = rng.choice(ns)
    s = copy.deepcopy(s)
    in_rep = sl[0] == "f" and sl[2] == "r"
    cls = "repeat-opaque" if in_rep else "guard"
    c = s[ci]
    locals_ = set(f["n"] for f in c["f"]) | set(a[0] for a in c["ta"])
    if isinstance(node, int):
        if rng.chance(1, 2):
            new = node + 1 + rng.below(5)
            kind = "change-constant"
        else:
            new = R(rng.choice(PRIMS))
            kind = "constant-to-type"
        set_slot(s, ci, sl, replace(root, path, new))
        return s, {"kind": kind, "comb": c["n"], "slot": sl, "path": path, "class": cls}
    k = rng.below(10)
    if k < 5 or not node[2]:
        # same arity, so that the new schema stays well-formed (a head with fewer template arguments than
        # the reference has arguments makes checkNatUsages itself panic)
        ar = len(node[2])
        pool = [cc["n"] for cc in s if cc["k"] == "t" and len(cc["ta"]) == ar] + \
               [ty for ty in type_names(s) if len(type_combs(s, ty)[0]["ta"]) == ar]
        if ar == 0:
            pool += PRIMS
        pool = [n for n in pool if n != node[0] and n not in locals_]
        if not pool:
            return None
        new = (rng.choice(pool), node[1], node[2])
        kind = "change-head"
    elif k < 7:
        j = rng.below(len(node[2]))
        a = node[2][j]
        args = list(node[2])
        if isinstance(a, int):
            args[j] = a + 1
            kind = "change-constant"
        else:
            args[j] = 7
            kind = "type-to-constant"
        new = (node[0], node[1], args)
    else:
        j = rng.below(len(node[2]))
        args = list(node[2])
        del args[j]
        new = (node[0], node[1], args)
        kind = "drop-argument"
        if cls == "guard":
            cls = "panic-fewer-args"
    set_slot(s, ci, sl, replace(root, path, new))
    return s, {"kind": kind, "comb": c["n"], "slot": sl, "path": path, "class": cls}


def uns_flip_bare(s, rng, gen):
    """%T -> T or T -> %T on a reference to a declared (upper-case) type: changes the wire (4-byte tag)"""
    tys = set(type_names(s))
    cands = []
    for ci, sl in slots(s):
        root = get_slot(s, ci, sl)
        for p, n in nodes(root):
            if not isinstance(n, int) and n[0] in tys:
                cands.append((ci, sl, p, n))
    if not cands:
        return None
    ci, sl, p, n = rng.choice(cands)
    s = copy.deepcopy(s)
    set_slot(s, ci, sl, replace(get_slot(s, ci, sl), p, (n[0], not n[1], n[2])))
    return s, {"kind": "flip-bare", "comb": s[ci]["n"], "slot": sl, "path": p, "class": "bare-ignored"}


def uns_change_repeat_scale(s, rng, gen):
    cands = [(ci, fi) for ci, c in enumerate(s) if c["k"] != "b" for fi, f in enumerate(c["f"]) if f["r"] and f["r"][0][0] != "i"]
    if not cands:
        return None
    ci, fi = rng.choice(cands)
    s = copy.deepcopy(s)
    f = s[ci]["f"][fi]
    sc = f["r"][0]
    new = ("a", sc[1] + 1) if sc[0] == "a" else ("a", 2)
    f["r"] = (new, f["r"][1])
    return s, {"kind": "change-repeat-scale", "comb": s[ci]["n"], "pos": fi, "class": "repeat-opaque"}


def uns_mask_edit(s, rng, gen):
    """change the mask reference / the bit, add a mask to an unmasked field, remove a mask"""
    cands = []
    for ci, c in enumerate(s):
        if c["k"] == "b":
            continue
        for fi, f in enumerate(c["f"]):
            cands.append((ci, fi))
    if not cands:
        return None
    rng.shuffle(cands)
    for ci, fi in cands:
        c = s[ci]
        f = c["f"][fi]
        nats = [n for j, n in local_nat_fields(c) if j < fi] + [a[0] for a in c["ta"] if a[1] == "n"]
        if f["m"]:
            k = rng.below(3)
            s2 = copy.deepcopy(s)
            f2 = s2[ci]["f"][fi]
            if k == 0:
                f2["m"] = None
                return s2, {"kind": "remove-mask", "comb": c["n"], "pos": fi, "class": "guard"}
            if k == 1:
                f2["m"] = (f["m"][0], (f["m"][1] + 1 + rng.below(30)) % 32)
                return s2, {"kind": "change-mask-bit", "comb": c["n"], "pos": fi, "class": "guard"}
            others = [n for n in nats if n != f["m"][0]]
            if others:
                f2["m"] = (rng.choice(others), f["m"][1])
                return s2, {"kind": "change-mask-reference", "comb": c["n"], "pos": fi, "class": "guard"}
        elif nats and f["t"][0] != "#":
            s2 = copy.deepcopy(s)
            s2[ci]["f"][fi]["m"] = (rng.choice(nats), rng.below(32))
            return s2, {"kind": "add-mask", "comb": c["n"], "pos": fi, "class": "guard"}
    return None


def uns_append_unmasked(s, rng, gen):
    cands = [ci for ci, c in enumerate(s) if c["k"] == "t"]
    if not cands:
        return None
    s = copy.deepcopy(s)
    c = s[rng.choice(cands)]
    c["f"].append(F(fresh_field_name(c), R(rng.choice(PRIMS))))
    return s, {"kind": "append-unmasked-field", "comb": c["n"], "class": "guard"}


def uns_reuse_bit(s, rng, gen):
    """append a field guarded by a bit of a local field mask that an existing field of the same combinator already uses"""
    cands = []
    for ci, c in enumerate(s):
        if c["k"] == "b":
            continue
        for fi, name in local_nat_fields(c):
            used = sorted(set(f["m"][1] for f in c["f"][fi + 1:] if f["m"] and f["m"][0] == name))
            if used:
                cands.append((ci, name, used))
    if not cands:
        return None
    ci, name, used = rng.choice(cands)
    s = copy.deepcopy(s)
    c = s[ci]
    c["f"].append(F(fresh_field_name(c), R(rng.choice(PRIMS)), mask=(name, rng.choice(used))))
    return s, {"kind": "reuse-mask-bit", "comb": c["n"], "class": "guard"}


def uns_to_union(s, rng, gen):
    """add a constructor to a single-constructor type that is used bare somewhere"""
    cands = []
    for ty in type_names(s):
        cs = type_combs(s, ty)
        if len(cs) == 1:
            uses = bare_uses(s, ty, cs[0]["n"])
            if uses:
                cands.append((ty, cs[0], uses))
    if not cands:
        return None
    ty, c0, uses = rng.choice(cands)
    # the linter reports the edit iff some bare use is visible to checkBoxUsage/checkAllTypeRefs:
    # not inside a repeat, and on the spine of first non-arithmetic arguments
    visible = [u for u in uses if not (u[1][0] == "f" and u[1][2] == "r") and on_first_spine(u[2], get_slot(s, u[0], u[1]))]
    s = copy.deepcopy(s)
    names = all_names(s)
    i = 0
    while "k%d" % i in names:
        i += 1
    idx = [j for j, c in enumerate(s) if c["k"] == "t" and c["ty"] == ty]
    s.insert(idx[-1] + 1, C("t", "k%d" % i, gen.tag(), ty, c0["ta"], []))
    return s, {"kind": "bare-type-to-union", "type": ty, "uses": len(uses), "visible": len(visible),
               "class": "guard" if visible else "box-usage-hidden"}


def plant_bare_use(s, rng, gen):
    """make sure the base schema has a bare use of a single-constructor type at an interesting position
    (2nd/3rd type argument, inside a repeat, function result) so that uns_to_union meets it"""
    singles = [(ty, type_combs(s, ty)[0]) for ty in type_names(s) if len(type_combs(s, ty)) == 1 and not type_combs(s, ty)[0]["ta"]
               and ty.startswith("T")]
    hosts = [ci for ci, c in enumerate(s) if c["k"] != "b" and c["n"][0] in "tf" and c["n"] not in ("tuple",)]
    if not singles or not hosts:
        return s
    ty, c0 = rng.choice(singles)
    later = [ci for ci in hosts if ci > s.index(c0)]
    if not later:
        return s
    s = copy.deepcopy(s)
    c = s[rng.choice(later)]
    use = rng.choice([R(ty, bare=True), R(c0["n"])])
    k = rng.below(5)
    name = fresh_field_name(c)
    if k == 0:
        c["f"].append(F(name, R("pair", R("int"), use)))
    elif k == 1:
        c["f"].append(F(name, R("Pair", R("Vector", R("int")), R("Maybe", use))))
    elif k == 2:
        c["f"].append(F(name, None, rep=(("a", 2), use)))
    elif k == 3:
        c["f"].append(F(name, R("Tuple", use, 3)))
    else:
        c["f"].append(F(name, R("pair", use, R("long"))))
    return s


def uns_change_tag(s, rng, gen):
    cands = [ci for ci, c in enumerate(s) if c["k"] in "tf" and c["tag"][0] == "x"]
    if not cands:
        return None
    s = copy.deepcopy(s)
    c = s[rng.choice(cands)]
    c["tag"] = "x%08x" % ((int(c["tag"][1:], 16) + 1 + rng.below(1000)) & 0x7FFFFFFF | 1)
    return s, {"kind": "change-tag", "comb": c["n"], "class": "tag-ignored"}


def uns_size_bit(s, rng, gen):
    """append a field guarded by a bit of a local # field that is used as an array size"""
    cands = []
    for ci, c in enumerate(s):
        if c["k"] == "b":
            continue
        for fi, name in local_nat_fields(c):
            if any(f["r"] and f["r"][0] == ("v", name) for f in c["f"]) and not c["f"][fi]["m"]:
                free = [b for b in range(4) if b not in direct_bits(c, name)]
                if free and not name_used_as_arg_types_only(c, name):
                    cands.append((ci, name, free))
    if not cands:
        return None
    ci, name, free = rng.choice(cands)
    s = copy.deepcopy(s)
    c = s[ci]
    c["f"].append(F(fresh_field_name(c), R(rng.choice(PRIMS)), mask=(name, rng.choice(free))))
    return s, {"kind": "mask-bit-on-size-field", "comb": c["n"], "class": "size-bit"}


def name_used_as_arg_types_only(c, name):
    for f in c["f"]:
        tree = f["r"][1] if f["r"] else f["t"]
        for p, n in nodes(tree):
            if p and not isinstance(n, int) and n[0] == name:
                return True
    return False


def uns_const_bit(s, rng, gen):
    """append to optA a field guarded by a bit that some reference sets through an arithmetic constant"""
    opt = [c for c in s if c["n"] == "optA"]
    if not opt:
        return None
    used = direct_bits(opt[0], "n")
    ks = []
    for ci, sl in slots(s):
        for p, n in nodes(get_slot(s, ci, sl)):
            if not isinstance(n, int) and n[0] in ("optA", "OptA") and n[2] and isinstance(n[2][0], int):
                ks.append(n[2][0])
    bits = sorted(set(b for k in ks for b in range(32) if (k >> b) & 1 and b not in used))
    if not bits:
        return None
    s = copy.deepcopy(s)
    c = [c for c in s if c["n"] == "optA"][0]
    c["f"].append(F(fresh_field_name(c), R("int"), mask=("n", rng.choice(bits))))
    return s, {"kind": "mask-bit-set-by-constant", "comb": "optA", "class": "constant-bit"}


def uns_reuse_bit_through_template(s, rng, gen):
    """append a field guarded by a bit of a local # field that is given meaning inside a template type the field is
    passed to: (optA m X) uses bits of m inside optA, (wrapA m X) inside wrapA and, one level deeper, optA"""
    lib = {c["n"]: c for c in s if c["n"] in ("optA", "wrapA")}
    if "optA" not in lib:
        return None
    inner = {"optA": direct_bits(lib["optA"], "n"), "OptA": direct_bits(lib["optA"], "n")}
    if "wrapA" in lib:
        inner["wrapA"] = inner["WrapA"] = direct_bits(lib["wrapA"], "m") | inner["optA"]
    cands = []
    for ci, c in enumerate(s):
        if c["k"] == "b" or c["n"] in lib:
            continue
        for fi, name in local_nat_fields(c):
            bits = set()
            for f in c["f"][fi + 1:]:
                if f["r"]:
                    continue
                for p_, n in nodes(f["t"]):
                    if not isinstance(n, int) and n[0] in inner and n[2] and not isinstance(n[2][0], int) and n[2][0][0] == name:
                        bits |= inner[n[0]]
            bits -= direct_bits(c, name)
            if bits:
                cands.append((ci, name, sorted(bits)))
    if not cands:
        return None
    ci, name, bits = rng.choice(cands)
    s = copy.deepcopy(s)
    c = s[ci]
    c["f"].append(F(fresh_field_name(c), R(rng.choice(PRIMS)), mask=(name, rng.choice(bits))))
    return s, {"kind": "reuse-mask-bit-of-template", "comb": c["n"], "class": "guard"}


# where the # argument of a library template flows: name -> (position of the # argument, next template or None)
NAT_FLOW = {"optA": (0, None), "OptA": (0, None), "optB": (1, None), "OptB": (1, None),
            "wrapA": (0, "optA"), "WrapA": (0, "optA"), "wrapB": (1, "optB"), "WrapB": (1, "optB"),
            "wrapC": (0, "wrapB"), "WrapC": (0, "wrapB")}
NAT_NAME = {"optA": "n", "optB": "n", "wrapA": "m", "wrapB": "m", "wrapC": "m"}


def uns_reuse_ancestor_bit(s, rng, gen):
    """a local # field flows through two or three template levels (outer.m -> wrapX m -> optX n); append to a DEEPER
    template a field guarded by a bit that the outer combinator or an intermediate template already uses"""
    lib = {c["n"]: c for c in s if c["n"] in NAT_NAME}
    cands = []
    for ci, c in enumerate(s):
        if c["k"] == "b" or c["n"] in lib:
            continue
        for fi, name in local_nat_fields(c):
            for f in c["f"][fi + 1:]:
                if f["r"]:
                    continue
                for p_, n in nodes(f["t"]):
                    if isinstance(n, int) or n[0] not in NAT_FLOW:
                        continue
                    pos, nxt = NAT_FLOW[n[0]]
                    if pos >= len(n[2]) or isinstance(n[2][pos], int) or n[2][pos][0] != name or nxt is None:
                        continue
                    head = n[0][0].lower() + n[0][1:]
                    above = set(direct_bits(c, name)) | direct_bits(lib[head], NAT_NAME[head]) if head in lib else set()
                    deep = nxt
                    while deep is not None and deep in lib:
                        bits = sorted(above - direct_bits(lib[deep], NAT_NAME[deep]))
                        if bits:
                            cands.append((deep, bits, c["n"], fi, pos))
                        above = above | direct_bits(lib[deep], NAT_NAME[deep])
                        deep = NAT_FLOW[deep][1]
    if not cands:
        return None
    deep, bits, outer, fi, pos = rng.choice(cands)
    s = copy.deepcopy(s)
    c = [c for c in s if c["n"] == deep][0]
    c["f"].append(F(fresh_field_name(c), R(rng.choice(["int", "long"])), mask=(NAT_NAME[deep], rng.choice(bits))))
    return s, {"kind": "reuse-ancestor-mask-bit", "comb": deep, "outer": outer, "field-index": fi, "arg-position": pos,
               "class": "guard"}


def plant_nat_flow(s, rng, gen):
    """make sure a base schema has a # field (at a random field index, with some bits in use) that flows through
    two or three template levels"""
    hosts = [ci for ci, c in enumerate(s) if c["k"] == "t" and c["n"].startswith("t") and c["n"] not in ("tuple",) and not c["ta"]]
    if not hosts:
        return s
    s = copy.deepcopy(s)
    c = s[rng.choice(hosts)]
    for _ in range(rng.below(3)):
        c["f"].append(F(fresh_field_name(c), R(rng.choice(PRIMS))))
    m = fresh_field_name(c)
    c["f"].append(F(m, R("#")))
    for _ in range(rng.range(1, 2)):
        c["f"].append(F(fresh_field_name(c), R(rng.choice(PRIMS)), mask=(m, rng.below(32))))
    k = rng.below(3)
    inner = R(rng.choice(PRIMS))
    use = [R("wrapA", R(m), inner), R("wrapB", inner, R(m)), R("wrapC", R(m), inner)][k]
    c["f"].append(F(fresh_field_name(c), use))
    return s


def uns_reuse_bit_second_mask(s, rng, gen):
    """one comparison appends two fields under different local masks: the first on a free bit of mask A, the second on a
    bit mask B already uses (and A does not)"""
    cands = []
    for ci, c in enumerate(s):
        if c["k"] == "b":
            continue
        nats = [(fi, n) for fi, n in local_nat_fields(c) if not c["f"][fi]["m"]]
        for fa, a in nats:
            if name_used_as_arg(c, a) or implicit_scale_uses(c, fa):
                continue
            for fb, b in nats:
                if a == b:
                    continue
                usedb = sorted(set(f["m"][1] for f in c["f"][fb + 1:] if f["m"] and f["m"][0] == b) - direct_bits(c, a))
                freea = [x for x in range(32) if x not in direct_bits(c, a)]
                if usedb and freea:
                    cands.append((ci, a, b, freea, usedb))
    if not cands:
        return None
    ci, a, b, freea, usedb = rng.choice(cands)
    s = copy.deepcopy(s)
    c = s[ci]
    bit_b = rng.choice(usedb)
    fa_ = [x for x in freea if x != bit_b] or freea
    c["f"].append(F(fresh_field_name(c), R(rng.choice(PRIMS)), mask=(a, rng.choice(fa_))))
    c["f"].append(F(fresh_field_name(c), R(rng.choice(PRIMS)), mask=(b, bit_b)))
    return s, {"kind": "reuse-mask-bit-second-mask", "comb": c["n"], "class": "guard"}


UNSAFE_EDITS = [uns_reuse_bit_second_mask, uns_reuse_ancestor_bit, uns_reuse_ancestor_bit, uns_reuse_bit_through_template, uns_reuse_bit_through_template, uns_change_tag, uns_size_bit, uns_const_bit, uns_remove_constructor, uns_remove_function, uns_remove_field, uns_remove_targ, uns_change_type, uns_change_type,
                uns_change_type, uns_flip_bare, uns_change_repeat_scale, uns_mask_edit, uns_mask_edit, uns_append_unmasked,
                uns_reuse_bit, uns_to_union, uns_to_union]


# ------------------------------------------------------------------ case streams shared by C28/C29/C30

SAMPLES = "internal/tlcodegen/test/tls/backward_compatibility_samples"

# hand-written witnesses of the defects found (TL text; turned into case lines through the real parser, `lint.parse`)
PRE = "int#a8509bda ? = Int; long#22076cba ? = Long; string#b5286e24 ? = String;\n"
WITNESSES = {
    # name: (old, new, which properties' statements fail on it)
    "L5-second-arg": ("pair#0000000a {X:Type} {Y:Type} a:X b:Y = Pair X Y; fooA#00000001 x:int = Foo; bar#00000003 p:(pair int %Foo) = Bar;",
                      "pair#0000000a {X:Type} {Y:Type} a:X b:Y = Pair X Y; fooA#00000001 x:int = Foo; fooB#00000002 = Foo; bar#00000003 p:(pair int Foo) = Bar;"),
    "L5-repeat": ("fooA#00000001 x:int = Foo; bar#00000003 n:# p:n*[%Foo] = Bar;",
                  "fooA#00000001 x:int = Foo; fooB#00000002 = Foo; bar#00000003 n:# p:n*[Foo] = Bar;"),
    "L7-bare-to-boxed": ("foo#00000001 x:int = Foo; bar#00000003 p:%Foo = Bar;", "foo#00000001 x:int = Foo; bar#00000003 p:Foo = Bar;"),
    "repeat-element": ("foo#00000001 n:# xs:n*[int] = Foo;", "foo#00000001 n:# xs:n*[long] = Foo;"),
    "repeat-scale": ("foo#00000001 n:# m:# xs:n*[int] = Foo;", "foo#00000001 n:# m:# xs:m*[int] = Foo;"),
    "tag-changed": ("foo#00000001 x:int = Foo; bar#00000003 p:Foo = Bar;", "foo#00000002 x:int = Foo; bar#00000003 p:Foo = Bar;"),
    "size-bit": ("foo#00000001 n:# xs:n*[int] = Foo;", "foo#00000001 n:# xs:n*[int] y:n.0?int = Foo;"),
    "constant-bit": ("t#00000005 {n:#} a:n.1?int = T n; foo#00000001 x:(T 5) = Foo;",
                     "t#00000005 {n:#} a:n.1?int b:n.0?int = T n; foo#00000001 x:(T 5) = Foo;"),
    "fewer-args-panic": ("bar#00000003 p:(pair int int) = Bar; pair#0000000a {X:Type} {Y:Type} a:X b:Y = Pair X Y;",
                         "bar#00000003 p:(pair int) = Bar; pair#0000000a {X:Type} a:X = Pair X;"),
}


def impl_only(impl, lines):
    from vlib.core import run_lines
    return run_lines(impl, lines, jobs=1)


def parse_texts(impl, texts):
    out = impl_only(impl, ["lint.parse " + (PRE + t).encode().hex() for t in texts])
    res = []
    for t, o in zip(texts, out):
        if not o.startswith("ok "):
            raise SystemExit("lint.parse failed for %r: %s" % (t, o))
        res.append(o[3:])
    return res


def witness_lines(impl):
    names = sorted(WITNESSES)
    toks = parse_texts(impl, [WITNESSES[n][0] for n in names] + [WITNESSES[n][1] for n in names])
    k = len(names)
    return {n: "lint.check %s %s" % (toks[i], toks[k + i]) for i, n in enumerate(names)}


def sample_lines(impl):
    """the repository's own samples: prototype vs every file of correct-changes / incorrect-changes"""
    import os
    from vlib.core import REPO
    files = [("proto", SAMPLES + "/prototype.tl")]
    for d, exp in (("correct-changes", "acc"), ("incorrect-changes", "rej")):
        p = os.path.join(REPO, SAMPLES, d)
        for fn in sorted(os.listdir(p)) if os.path.isdir(p) else []:
            if fn.endswith(".tl"):
                files.append((exp, SAMPLES + "/" + d + "/" + fn))
    out = impl_only(impl, ["lint.dump " + f for _, f in files])
    res = []
    proto = out[0][3:] if out and out[0].startswith("ok ") else None
    if proto is None:
        return [], None
    for (exp, f), o in zip(files[1:], out[1:]):
        if o.startswith("ok "):
            res.append(("lint.check %s %s" % (proto, o[3:]), exp, f))
    return res, proto


def build_cases(c, impl, nbase, want=("self", "safe", "unsafe", "mix")):
    """returns list of (line, kind, meta): kind in self|safe|unsafe|mix|sample-acc|sample-rej|witness"""
    rng = c.rng
    cases = []
    for i in range(nbase):
        gen = Gen(rng.fork(), implicit_tags=False)
        base = gen.schema()
        if rng.chance(1, 2):
            base = plant_bare_use(base, rng, gen)
        if rng.chance(1, 2):
            base = plant_nat_flow(base, rng, gen)
        if rng.chance(1, 2):
            base = plant_two_masks(base, rng, gen)
        eb = enc(base)
        if "self" in want:
            cases.append(("lint.check %s %s" % (eb, eb), "self", {}))
        if "safe" in want:
            for _ in range(3):
                new, metas = safe_sequence(base, rng, gen, rng.range(1, 4))
                if metas:
                    cases.append(("lint.check %s %s" % (eb, enc(new)), "safe", {"edits": metas}))
        if "unsafe" in want:
            for _ in range(8):
                r = rng.choice(UNSAFE_EDITS)(base, rng, gen)
                if r:
                    cases.append(("lint.check %s %s" % (eb, enc(r[0])), "unsafe", r[1]))
        if "mix" in want:
            for _ in range(2):
                cur = base
                metas = []
                for _ in range(rng.range(2, 4)):
                    r = rng.choice(SAFE_EDITS + UNSAFE_EDITS)(cur, rng, gen)
                    if r:
                        cur = r[0]
                        metas.append(r[1])
                cases.append(("lint.check %s %s" % (eb, enc(cur)), "mix", {"edits": metas}))
    return cases

# which witnesses violate which property's statement
C30_WITNESSES = ["L5-second-arg", "L5-repeat", "L7-bare-to-boxed", "repeat-element", "repeat-scale", "fewer-args-panic"]
C28_WITNESSES = ["L5-second-arg", "L5-repeat", "L7-bare-to-boxed", "repeat-element", "repeat-scale", "tag-changed", "size-bit", "constant-bit"]
