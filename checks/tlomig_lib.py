"""Shared helpers of the `tlomig` family (C26 TLO output, C27 migration): s-expression parsing of the harness
dumps, repository schema corpus, and a type-directed random TL1 schema generator (all randomness from c.rng)."""
import os

from vlib.core import REPO


# ---------------------------------------------------------------- s-expressions (no spaces; `~` = empty string)

def sx_parse(s):
    stack = []
    cur = None
    done = None
    tok = []

    def flush():
        if tok:
            cur.append("".join(tok))
            tok.clear()

    for ch in s:
        if ch == "(":
            if tok:
                raise ValueError("atom before (")
            stack.append(cur)
            cur = []
        elif ch == ",":
            flush()
        elif ch == ")":
            flush()
            nd = cur
            cur = stack.pop()
            if cur is None:
                done = nd
            else:
                cur.append(nd)
        else:
            if cur is None:
                raise ValueError("atom at top level")
            tok.append(ch)
    if done is None or stack:
        raise ValueError("unbalanced")
    return done


def sx_str(a):
    return "" if a == "~" else a


def unhex(s):
    return b"" if s == "-" else bytes.fromhex(s)


# ---------------------------------------------------------------- repository schemas

def repo_schemas():
    """[(name, text)] — every TL1 schema of the repository (multi-file sets joined with a section reset)."""
    t = os.path.join(REPO, "internal/tlcodegen/test/tls")

    def rd(p):
        with open(p, "rb") as f:
            return f.read().decode("utf-8", "replace")

    def join(ps):
        return "\n---types---\n".join(rd(p) for p in ps)

    out = []
    cands = [("goldmaster", [os.path.join(t, "goldmaster.tl"), os.path.join(t, "goldmaster2.tl"), os.path.join(t, "goldmaster3.tl")]),
             ("cases", [os.path.join(t, "cases.tl")]),
             ("schema", [os.path.join(t, "schema.tl")]),
             ("cpp", [os.path.join(t, "cases.tl"), os.path.join(t, "cpp.tl")]),
             ("rpc", [os.path.join(REPO, "pkg/rpc/rpc.tl")]),
             ("tls", [os.path.join(REPO, "internal/tlast/tls.tl")]),
             ("tl2client", [os.path.join(REPO, "cmd/tl2client/test.tl")])]
    for name, ps in cands:
        if all(os.path.exists(p) for p in ps):
            out.append((name, join(ps)))
    return out


# ---------------------------------------------------------------- random TL1 schemas

PRIMS = [("int", "a8509bda", "Int"), ("long", "22076cba", "Long"), ("float", "824dab22", "Float"),
         ("double", "2210c154", "Double"), ("string", "b5286e24", "String")]

WORDS = ["item", "node", "user", "msg", "point", "color", "shape", "event", "entry", "blob", "rec", "cfg", "stat", "job"]
FIELDS = ["a", "b", "c", "d", "x", "y", "id", "name", "value", "count", "data", "items", "left", "right", "next",
          "key", "flags", "mask", "size", "kind", "ts", "owner_id", "fooBar", "f1", "f2", "f3"]
NAMESPACES = ["", "", "a", "b", "svc"]


class TypeInfo:
    def __init__(self, cname, tname, targs, union, ctors):
        self.cname = cname      # constructor name of a single-constructor type ("" for unions)
        self.tname = tname      # boxed type name
        self.targs = targs      # [(name, is_nat)]
        self.union = union
        self.ctors = ctors      # constructor names


class SchemaGen:
    """Generates mostly-valid TL1 text.  `style` steers towards what a given check needs:
    'tlo' = anything the kernel may accept, 'mig' = constructs the migration supports (named fields, no !X)."""

    def __init__(self, rng, style="tlo"):
        self.r = rng
        self.style = style
        self.lines = []
        self.types = []          # TypeInfo usable in references
        self.prims = []
        self.have = set()
        self.counter = 0
        self.func_lines = []

    def uniq(self, w):
        self.counter += 1
        return "%s%d" % (w, self.counter)

    def tag(self):
        if self.r.chance(1, 3):
            return "#%08x" % self.r.range(1, 2**32 - 1)
        return ""

    def prelude(self):
        r = self.r
        for i, (c, t, b) in enumerate(PRIMS):
            if i == 0 or r.chance(3, 4):
                self.lines.append("%s#%s ? = %s;" % (c, t, b))
                self.prims.append(c)
        if r.chance(2, 3):
            self.lines.append("boolFalse#bc799737 = Bool;\nboolTrue#997275b5 = Bool;")
            self.have.add("Bool")
        if r.chance(3, 4):
            self.lines.append("vector#1cb5c415 {t:Type} # [t] = Vector t;")
            self.have.add("vector")
        if r.chance(2, 3):
            self.lines.append("tuple#9770768a {t:Type} {n:#} [t] = Tuple t n;")
            self.have.add("tuple")
        if r.chance(1, 2):
            self.lines.append("true = True;")
            self.have.add("true")
        if "vector" in self.have and "string" in self.prims and r.chance(1, 2):
            self.lines.append("dictionaryField {t:Type} key:string value:t = DictionaryField t;\n"
                              "dictionary#1f4c618f {t:Type} %(Vector %(DictionaryField t)) = Dictionary t;")
            self.have.add("dictionary")
        if r.chance(1, 2):
            self.lines.append("resultFalse#27930a7b {t:Type} = Maybe t;\nresultTrue#3f9c8ef8 {t:Type} result:t = Maybe t;")
            self.have.add("Maybe")

    # ---- type expressions
    def simple_type(self, tparams, depth=0):
        """a type expression without nat dependencies on local fields (may use tparams of kind Type)"""
        r = self.r
        opts = ["prim", "prim", "prim"]
        if self.types:
            opts += ["ref", "ref", "ref"]
        if "vector" in self.have and depth < 2:
            opts += ["vector", "vector"]
        if "tuple" in self.have and depth < 2:
            opts.append("tuple")
        if "Maybe" in self.have and depth < 2:
            opts.append("maybe")
        if "Bool" in self.have:
            opts.append("bool")
        if "dictionary" in self.have and depth < 2:
            opts.append("dict")
        tp = [n for n, nat in tparams if not nat]
        if tp:
            opts += ["tparam", "tparam"]
        k = r.choice(opts)
        if k == "prim":
            return r.choice(self.prims)
        if k == "bool":
            return "Bool"
        if k == "tparam":
            return r.choice(tp)
        if k == "vector":
            inner = self.simple_type(tparams, depth + 1)
            return r.choice(["(vector %s)", "(Vector %s)", "%%(Vector %s)", "vector<%s>"]) % inner
        if k == "tuple":
            inner = self.simple_type(tparams, depth + 1)
            n = self.nat_arg(tparams)
            return r.choice(["(tuple %s %s)", "(%%Tuple %s %s)", "tuple<%s, %s>"]) % (inner, n)
        if k == "maybe":
            return "(Maybe %s)" % self.simple_type(tparams, depth + 1)
        if k == "dict":
            return "(dictionary %s)" % self.simple_type(tparams, depth + 1)
        return self.type_ref(r.choice(self.types), tparams, depth)

    def nat_arg(self, tparams, local_nats=()):
        r = self.r
        c = [n for n, nat in tparams if nat] + list(local_nats)
        if c and r.chance(1, 2):
            return r.choice(c)
        return str(r.choice([0, 1, 2, 3, 5]))

    def type_ref(self, ti, tparams, depth=0, local_nats=()):
        r = self.r
        args = []
        for n, nat in ti.targs:
            if nat:
                args.append(self.nat_arg(tparams, local_nats))
            else:
                args.append(self.simple_type(tparams, depth + 1))
        if ti.union:
            name = ti.tname
        else:
            name = r.choice([ti.cname, ti.tname, "%" + ti.tname])
        if not args:
            return name
        if r.chance(1, 4) and not name.startswith("%"):
            return "%s<%s>" % (name, ", ".join(args))
        return "(%s %s)" % (name, " ".join(args))

    # ---- fields
    def fields(self, tparams, maxf=6, allow_anon=False):
        r = self.r
        n = r.range(0, maxf)
        out = []
        names = list(FIELDS)
        r.shuffle(names)
        nats = []           # local # fields usable as sizes / masks
        masks = []
        used_as_mask = set()
        used_as_size = set()
        for i in range(n):
            nm = names[i]
            k = r.below(10)
            pre = ""
            cand_masks = [m for m in nats + [p for p, nat in tparams if nat] if m not in used_as_size]
            if cand_masks and r.chance(1, 3):
                m = r.choice(cand_masks)
                used_as_mask.add(m)
                pre = "%s.%d?" % (m, r.choice([0, 1, 2, 3, 7, 8, 15, 31]))
            if k == 0:
                out.append("%s:%s#" % (nm, pre))
                nats.append(nm)
                continue
            if k == 1 and "true" in self.have and pre:
                out.append("%s:%s%s" % (nm, pre, r.choice(["true", "%True", "True"])))
                continue
            cand_sizes = [m for m in nats + [p for p, nat in tparams if nat] if m not in used_as_mask]
            if k == 2:
                if cand_sizes and r.chance(2, 3):
                    s = r.choice(cand_sizes)
                    used_as_size.add(s)
                else:
                    s = str(r.choice([0, 1, 2, 4]))
                if r.chance(1, 40):
                    inner = "%s:%s %s:%s" % (names[-1], r.choice(self.prims), names[-2], self.simple_type(tparams, 1))
                elif r.chance(1, 40):
                    inner = "%s:%s" % (names[-1], self.simple_type(tparams, 1))
                else:
                    inner = self.simple_type(tparams, 1)
                out.append("%s:%s%s*[%s]" % (nm, pre, s, inner))
                continue
            if k == 3 and self.types:
                ti = r.choice(self.types)
                local = [m for m in nats if m not in used_as_mask]
                ref = self.type_ref(ti, tparams, 0, local)
                for m in local:
                    if m in ref.replace("(", " ").replace(")", " ").replace(",", " ").replace("<", " ").replace(">", " ").split():
                        used_as_size.add(m)
                out.append("%s:%s%s" % (nm, pre, ref))
                continue
            out.append("%s:%s%s" % (nm, pre, self.simple_type(tparams)))
        return out

    def targs(self):
        r = self.r
        k = r.below(8)
        if k < 5:
            return []
        if k == 5:
            return [(r.choice(["t", "X"]), False)]
        if k == 6:
            return [(r.choice(["n", "k"]), True)]
        return [("X", False), ("n", True)] if r.chance(1, 2) else [("n", True), ("T", False)]

    def add_type(self):
        r = self.r
        ns = r.choice(NAMESPACES)
        w = self.uniq(r.choice(WORDS))
        pre = ns + "." if ns else ""
        targs = self.targs()
        tdecl = "".join(" {%s:%s}" % (n, "#" if nat else "Type") for n, nat in targs)
        targuse = "".join(" " + n for n, _ in targs)
        up = w[0].upper() + w[1:]
        if r.chance(1, 3) and not any(nat for _, nat in targs):
            # union
            k = r.range(2, 4)
            enum = r.chance(1, 3)
            ctors = []
            sufs = ["One", "Two", "Three", "Four"]
            for i in range(k):
                cn = "%s%s%s" % (pre, w, sufs[i])
                fs = [] if enum else self.fields(targs, 3)
                self.lines.append("%s%s%s %s = %s%s%s;" % (cn, self.tag(), tdecl, " ".join(fs), pre, up, targuse))
                ctors.append(cn)
            ti = TypeInfo("", pre + up, targs, True, ctors)
        else:
            cn = pre + w
            fs = self.fields(targs, 6)
            self.lines.append("%s%s%s %s = %s%s%s;" % (cn, self.tag(), tdecl, " ".join(fs), pre, up, targuse))
            ti = TypeInfo(cn, pre + up, targs, False, [cn])
        self.types.append(ti)

    def add_function(self):
        r = self.r
        ns = r.choice(NAMESPACES)
        w = self.uniq(r.choice(["get", "set", "list", "del", "ping"]))
        pre = ns + "." if ns else ""
        mod = r.choice(["@read ", "@write ", "@readwrite ", "@any ", "@read @kphp ", "@internal @write ", ""])
        fs = self.fields([], 4)
        res = self.result_type()
        self.func_lines.append("%s%s%s%s %s = %s;" % (mod, pre, w, self.tag(), " ".join(fs), res))

    def result_type(self):
        """TL1 function results must be boxed and written without outer round brackets"""
        r = self.r
        opts = ["prim", "prim"]
        if self.types:
            opts += ["ref", "ref", "ref"]
        for k, n in (("vector", "vector"), ("tuple", "tuple"), ("maybe", "Maybe"), ("bool", "Bool"), ("true", "true"), ("dict", "dictionary")):
            if n in self.have:
                opts.append(k)
        k = r.choice(opts)
        if k == "prim":
            c = r.choice(self.prims)
            return [b for cc, _, b in PRIMS if cc == c][0]
        if k == "bool":
            return "Bool"
        if k == "true":
            return "True"
        if k == "vector":
            return "Vector %s" % self.simple_type([], 1)
        if k == "tuple":
            return "Tuple %s %d" % (self.simple_type([], 1), r.choice([0, 1, 3]))
        if k == "maybe":
            return "Maybe %s" % self.simple_type([], 1)
        if k == "dict":
            return "Dictionary %s" % self.simple_type([], 1)
        ti = r.choice(self.types)
        args = []
        for n, nat in ti.targs:
            args.append(str(r.choice([0, 1, 2])) if nat else self.simple_type([], 1))
        return " ".join([ti.tname] + args)

    def generate(self, ntypes=None, nfuncs=None):
        r = self.r
        self.prelude()
        npre = len(self.lines)
        for _ in range(ntypes if ntypes is not None else r.range(1, 10)):
            self.add_type()
        for _ in range(nfuncs if nfuncs is not None else r.range(0, 4)):
            self.add_function()
        decls = self.lines[npre:]
        funcs = list(self.func_lines)
        mode = r.below(4)
        if mode >= 2:
            # declaration order is free in TL1: interleave constructors of different types (a union's constructors
            # are then not adjacent), keeping the relative order inside each union in half of these schemas
            if mode == 2:
                r.shuffle(decls)
            else:
                keyed = [(r.below(1000), i, d) for i, d in enumerate(decls)]
                order = sorted(k for k, _, _ in keyed)
                decls = [d for _, _, d in sorted(keyed, key=lambda t: (t[0], t[1]))]
                del order
        body = []
        if funcs and mode in (1, 3):
            # functions between constructors, switching sections back and forth
            while decls or funcs:
                if decls and (not funcs or r.chance(2, 3)):
                    body.append(decls.pop(0))
                else:
                    body.append("---functions---\n" + funcs.pop(0) + ("\n---types---" if decls else ""))
            txt = "\n".join(self.lines[:npre] + body) + "\n"
            return txt
        txt = "\n".join(self.lines[:npre] + decls) + "\n"
        if funcs:
            txt += "---functions---\n" + "\n".join(funcs) + "\n"
        return txt


def random_schema(rng, style="tlo", **kw):
    return SchemaGen(rng, style).generate(**kw)


def mutate_text(rng, txt):
    """single-edit mutation of schema text (malformed stream)"""
    if not txt:
        return txt
    k = rng.below(5)
    i = rng.below(len(txt))
    if k == 0:
        return txt[:i] + txt[i + 1:]
    if k == 1:
        return txt[:i] + rng.choice(list("#?%*[]{}();:=.<>,!_aZ0 ")) + txt[i:]
    if k == 2:
        j = rng.below(len(txt))
        a, b = min(i, j), max(i, j)
        return txt[:a] + txt[b:]
    if k == 3:
        ls = txt.split("\n")
        rng.shuffle(ls)
        return "\n".join(ls)
    ls = txt.split("\n")
    j = rng.below(len(ls))
    return "\n".join(ls[:j] + [ls[j]] + ls[j:])
