"""C27 — TL1-to-TL2 migration preserves the TL2 wire format and JSON (DESIGN.md §4 C27)."""
import hashlib

from vlib.core import hx, run_lines

from checks.tlomig_lib import sx_parse, sx_str, unhex, repo_schemas, random_schema
from checks.C26 import OVERLAYS

LEVEL = "translation_validation"

MODULES = ["TLVerif.Props.C27"]
THEOREMS = ["TLVerif.Props.C27." + t for t in [
    "consistent_same_tl2_and_json", "equiv_same_tl2_and_json"]]

PLANTED = [
    ("ns-partial", "int#a8509bda ? = Int;\nns.foo x:int = ns.Foo;\nns.bar y:int = ns.Bar;\n", "ns.foo"),
    ("masks", "int#a8509bda ? = Int;\ntrue = True;\nm.rec f:# a:f.0?int b:f.1?true c:f.0?m.rec d:f.31?int = m.Rec;\n", "*"),
    ("union", "int#a8509bda ? = Int;\nstring#b5286e24 ? = String;\nu.shapeCircle r:int = u.Shape;\nu.shapeSquare a:int b:string = u.Shape;\nu.shapeNone = u.Shape;\nu.box s:u.Shape = u.Box;\n", "u."),
    ("nine-fields", "int#a8509bda ? = Int;\nw.wide f:# a1:int a2:int a3:int a4:int a5:int a6:int a7:f.0?int a8:int a9:f.1?int a10:int = w.Wide;\n", "*"),
    ("vector-dict", "int#a8509bda ? = Int;\nstring#b5286e24 ? = String;\nvector#1cb5c415 {t:Type} # [t] = Vector t;\n"
     "dictionaryField {t:Type} key:string value:t = DictionaryField t;\ndictionary#1f4c618f {t:Type} %(Vector %(DictionaryField t)) = Dictionary t;\n"
     "v.c a:(vector int) b:(dictionary int) c:3*[int] n:# d:n*[string] = v.C;\n", "v."),
    ("function", "int#a8509bda ? = Int;\nf.res x:int = f.Res;\n---functions---\n@read f.get id:int = f.Res;\n", "f."),
    ("underscore-field", "int#a8509bda ? = Int;\nq.t _a:int b:int = q.T;\n", "*"),
]


class Desc:
    def __init__(self, sx):
        assert sx[0] == "D"
        self.root = int(sx[1])
        self.nodes = sx[2]

    def node(self, i, fuel=None):
        fuel = len(self.nodes) + 1 if fuel is None else fuel
        while fuel > 0:
            n = self.nodes[i]
            if n[0] == "s" and n[1] == "1":
                if len(n[5]) != 1:
                    return None
                i = int(n[5][0][3])
                fuel -= 1
                continue
            return n
        return None

    def has_bit(self):
        for n in self.nodes:
            if n[0] == "s" and any(f[2] == "1" for f in n[5]):
                return True
            if n[0] == "p" and n[1] == "bit":
                return True
        return False


class TooDeep(Exception):
    pass


INT_BITS = {"uint32": 32, "int32": 32, "float32": 32, "uint64": 64, "int64": 64, "float64": 64, "byte": 8}
SIGNED = {"int32", "float32", "int64", "float64"}
SAFE = [c for c in range(32, 127) if c not in (34, 92, 60, 62, 38)]


class ValGen:
    """values generated from the descriptor of the original schema (mostly valid by construction).
    Every generator returns (term, empty) where `empty` says that the TL2 encoding with optimizeEmpty is empty.
    `full` = every optional field present with a non-empty value and no bit set: the only values the interpreter can
    represent under a TL2-origin schema."""

    def __init__(self, rng, d, full):
        self.r = rng
        self.d = d
        self.full = full
        self.comparable = True   # no absent optional, no empty present optional: representable under a TL2-origin schema

    def prim(self, kind, nonzero=None):
        r = self.r
        nonzero = self.full if nonzero is None else nonzero
        if kind in INT_BITS:
            b = INT_BITS[kind]
            cands = [1, 2, 255, 256 % (2**b) or 7, 2**(b - 1) - 1, 2**(b - 1), 2**b - 1, r.below(2**b) or 5]
            if not nonzero:
                cands += [0, 0]
            n = r.choice(cands)
            return "(i,%d)" % n, n == 0
        if kind == "bool":
            b = 1 if nonzero or r.chance(1, 2) else 0
            return "(b,%d)" % b, b == 0
        if kind == "bit":
            return "(t)", True
        if kind == "string":
            n = r.choice([1, 2, 3, 7, 20, 253, 254, 255, 300] if nonzero else [0, 0, 1, 2, 3, 7, 20, 253, 254, 255, 300])
            if n > 20 and not r.chance(1, 6):
                n = r.range(1, 12)
            return "(x,%s)" % hx(bytes(r.choice(SAFE) for _ in range(n))), n == 0
        raise TooDeep()

    def key_sort(self, kind, vals):
        if kind == "string":
            return sorted(set(vals), key=lambda v: unhex(v[3:-1]))
        b = INT_BITS.get(kind, 32)

        def k(v):
            n = int(v[3:-1])
            return n - 2**b if kind in SIGNED and n >= 2**(b - 1) else n
        return sorted(set(vals), key=k)

    def fields(self, fds, depth):
        """-> ([terms], any field used)"""
        out = []
        used = False
        for f in fds:
            name, opt, isbit, ty = sx_str(f[0]), f[1] == "1", f[2] == "1", int(f[3])
            if isbit:
                # the interpreter cannot represent a set bit (TL1 view writes an empty object, TL2 view nothing),
                # and prints an unset TL2 `bit` as true
                out.append("n")
                self.comparable = False
                continue
            if opt and not self.full and (depth > 4 or self.r.chance(1, 3)):
                out.append("n")
                self.comparable = False
                continue
            if opt and depth > 7:
                if self.full:
                    raise TooDeep()
                out.append("n")
                self.comparable = False
                continue
            t, empty = self.gen(ty, depth + 1)
            if opt and empty:
                if self.full:
                    raise TooDeep()
                self.comparable = False
            out.append(t)
            if not name.startswith("_") and (opt or not empty):
                used = True
        return out, used

    def gen(self, ty, depth=0):
        if depth > 12:
            raise TooDeep()
        r = self.r
        n = self.d.node(ty)
        if n is None:
            raise TooDeep()
        k = n[0]
        if k == "p":
            return self.prim(n[1])
        if k == "s":
            fs, used = self.fields(n[5], depth)
            return "(S%s)" % "".join("," + x for x in fs), not used and not (n[3] == "1" and n[4] != "0")
        if k == "u":
            vs = n[1]
            idx = r.below(len(vs)) if depth < 5 else 0
            vn = self.d.node(int(vs[idx][1]))
            if vn is None or vn[0] != "s":
                raise TooDeep()
            fs, used = self.fields(vn[5], depth)
            return "(U,%d%s)" % (idx, "".join("," + x for x in fs)), not used and vn[4] == "0"
        if k == "a":
            is_tuple, dyn, cnt, elem, ebit = n[1] == "1", n[2] == "1", int(n[3]), int(n[4]), n[5] == "1"
            if is_tuple and not dyn:
                ln = cnt
                if ln > 40:
                    raise TooDeep()
            else:
                ln = r.choice([1, 2, 3] if self.full else [0, 0, 1, 2, 3, 9]) if depth < 5 else (1 if self.full else 0)
            if ebit:
                return "(A%s)" % "".join(",(b,%d)" % r.below(2) for _ in range(ln)), ln == 0
            return "(A%s)" % "".join("," + self.gen(elem, depth + 1)[0] for _ in range(ln)), ln == 0
        if k == "d":
            sn = self.d.node(int(n[1]))
            if sn is None or sn[0] != "s" or len(sn[5]) != 2:
                raise TooDeep()
            kn = self.d.node(int(sn[5][0][3]))
            ln = r.choice([1, 2, 3] if self.full else [0, 1, 2, 3]) if depth < 5 else (1 if self.full else 0)
            if kn is None or kn[0] != "p" or kn[1] not in list(INT_BITS) + ["string"]:
                ln = min(ln, 1)
                keys = [self.gen(int(sn[5][0][3]), depth + 1)[0] for _ in range(ln)]
            else:
                keys = self.key_sort(kn[1], [self.prim(kn[1], nonzero=False)[0] for _ in range(ln)])
            return "(M%s)" % "".join(",(S,%s,%s)" % (kk, self.gen(int(sn[5][1][3]), depth + 1)[0]) for kk in keys), len(keys) == 0
        raise TooDeep()


def whitelists(rng, txt, style):
    """whitelists worth trying for a schema: everything, every namespace, single names, pairs"""
    names = []
    nss = set()
    for ln in txt.split("\n"):
        ln = ln.strip()
        if not ln or ln.startswith("//") or ln.startswith("---") or "?" in ln.split("=")[0] and " ? " in ln:
            continue
        w = ln.split(" ")
        w = [x for x in w if not x.startswith("@")]
        if not w:
            continue
        c = w[0].split("#")[0]
        if not c or not (c[0].isalpha() or c[0] == "_"):
            continue
        names.append(c)
        if "." in c:
            nss.add(c.split(".")[0] + ".")
    out = ["*"]
    out += sorted(nss)
    if names:
        for _ in range(2 if style == "rand" else 3):
            out.append(rng.choice(names))
        out.append(rng.choice(names) + "," + rng.choice(names))
    res = []
    for w in out:
        if w not in res:
            res.append(w)
    return res


def run(c):
    c.facts(["Prim"])
    c.lean(MODULES, THEOREMS, sources=["TLVerif.Tlomig.Sexp", "TLVerif.Tlomig.Mig", "TLVerif.Tlomig.MigLemmas"])
    model = c.model_exe()
    impl = c.harness("htlomig", overlays=OVERLAYS())
    rng = c.rng
    c.trusted += ["go/htlomig harness: in-process Kernel.Migration() on a scratch copy, descriptor export from pure.Kernel after Compile, "
                  "value builder overlaid into internal/pure/onthefly",
                  "modelled, not verified: the kernel's type resolution (descriptors are taken from the kernel, per schema), Go runtime"]
    c.assumptions += [
        "translation validation: tl2Equiv is evaluated on the descriptors both kernels export for every migrated root of every schema of the run; "
        "the ∀-values part is the Lean theorem equiv_same_tl2_and_json about the model writer",
        "the model writer is tied to internal/pure/onthefly on the original schema for all generated values; onthefly has no 'absent' state for "
        "TL2-origin optional fields and no state for `bit`, so the interpreter-level comparison of both schemas uses values with every optional "
        "field present and non-empty and is skipped for types containing bit fields",
        "JSON strings are generated over characters JSONWriteString copies verbatim; dictionary keys are generated sorted and distinct"]

    replay_lines = []
    if c.replay:
        for f in c.replay.get("failures", []):
            if f.get("input"):
                replay_lines.append(f["input"])
        for t in c.replay.get("broken_ties", []):
            replay_lines.append(t["line"])

    # ---------------- schemas x whitelists
    cases = []
    for name, txt in repo_schemas():
        if name in ("cases", "goldmaster", "tl2client") or (name == "schema" and c.thorough):
            for wl in whitelists(rng, txt, "repo")[: (12 if c.thorough else 4)]:
                cases.append(("repo:" + name, txt, wl))
    for name, txt, wl in PLANTED:
        cases.append(("planted:" + name, txt, wl))
    nrand = 160 if c.thorough else 20
    for i in range(nrand):
        g = rng.fork()
        txt = random_schema(g, "mig")
        for wl in whitelists(g, txt, "rand")[: (4 if c.thorough else 2)]:
            cases.append(("rand", txt, wl))
    mig_lines = [l for l in replay_lines if l.startswith("tlomig.migrate ")]
    kinds = {}
    for kind, txt, wl in cases:
        ln = "tlomig.migrate %s %s" % (hx(txt.encode()), hx(wl.encode()))
        if ln not in kinds:
            kinds[ln] = kind
            mig_lines.append(ln)

    # ---------------- phase 1 (implementation only): run the migration, compile the result, export descriptors
    outs = run_lines(impl, mig_lines, jobs=min(16, max(1, len(mig_lines) // 4)))
    programs = 0
    equiv_lines = []
    val_lines = [l for l in replay_lines if l.startswith("tlomig.mig ")]
    equiv_src = {}
    for ln, a in zip(mig_lines, outs):
        c.evaluations += 1
        kind = kinds.get(ln, "replay").split(":")[0]
        st = a.split(" ")[0] + ("" if a.startswith("ok") or a.startswith("nocompile") else " " + a.split(" ")[-1])
        c.count("migrate:%s:%s" % (kind, st))
        p = a.split(" ")
        if p[0] == "nocompile":
            if p[1] == "1" and not kinds.get(ln, "").startswith("planted:ns-"):
                # outside the guard of the _partial statement (whitelist cuts through a namespace): the kernel rejects
                # mixed namespaces by design; the planted witness below keeps the finding visible on every run
                c.count("guard-excluded:whitelist-splits-namespace")
                continue
            c.oracle_fail(ln, "migration accepted the schema and whitelist but the migrated schema does not compile"
                          + (" (the whitelist migrates only part of a namespace)" if p[1] == "1" else ""), ln)
            continue
        if p[0] != "ok":
            continue
        roots = sx_parse(p[3])
        if not roots:
            c.count("migrate:%s:no-roots" % kind)
            continue
        programs += 1
        c.distinct.add(hashlib.sha1(ln.encode()).hexdigest()[:16])
        sh, wh = ln.split(" ")[1:3]
        from checks.tlomig_lib import sx_parse as _p  # noqa: F401
        for it in roots:
            name, d1sx, d2sx = it
            if d2sx == "missing":
                c.oracle_fail(ln, "migrated type %s does not exist in the migrated schema" % name, ln)
                continue
            d1s, d2s = sx_print(d1sx), sx_print(d2sx)
            el = "tlomig.equiv %s %s" % (d1s, d2s)
            equiv_lines.append(el)
            equiv_src[el] = (ln, name)
            d1 = Desc(d1sx)
            hasbit = d1.has_bit()
            nvals = (10 if c.thorough else 4) if kind != "repo" else (6 if c.thorough else 2)
            for j in range(nvals):
                full = (j % 2 == 1) and not hasbit
                v = None
                for attempt in (full, False):
                    try:
                        g = ValGen(rng.fork(), d1, attempt)
                        v = g.gen(d1.root)[0]
                        full = g.comparable
                        break
                    except (TooDeep, RecursionError, IndexError):
                        c.count("value:too-deep")
                if v is None:
                    continue
                if len(v) > 60000:
                    continue
                val_lines.append("tlomig.mig %s %s %s %s %s %s %d" % (sh, wh, name, d1s, d2s, v, 1 if full else 0))
    c.extra["programs"] = programs

    # ---------------- phase 2: T3 certificates (model only)
    eq_out = run_lines(model, equiv_lines)
    bad_roots = set()
    for el, o in zip(equiv_lines, eq_out):
        c.evaluations += 1
        c.count("equiv:" + o)
        if o != "ok true":
            src, name = equiv_src[el]
            bad_roots.add((src, name))
            c.tie_failures.append({"tie": "tl2Equiv-certificate", "line": el[:4000], "impl": "descriptors exported for %s by %s" % (name, src[:200]),
                                   "model": o})
    c.extra["certificates_evaluated"] = len(equiv_lines)

    # ---------------- phase 3: model writer vs interpreter on the original schema; interpreter on both schemas
    # lines of one schema go to one process (the harness caches the compiled kernels per schema/whitelist)
    val_lines.sort(key=lambda l: hashlib.sha1((" ".join(l.split(" ")[1:3])).encode()).hexdigest())
    res = c.tie("values", val_lines, impl, model, jobs=min(16, max(1, len(val_lines) // 50)),
                nontrivial=lambda l, a: a.startswith("ok "))
    for l, a, _ in res:
        p = a.split(" ")
        if p[0] != "ok":
            if a == "err shape2":
                c.oracle_fail(l, "a value of the original type is not a value of the migrated type", l)
            continue
        if p[3] not in ("same", "skip"):
            c.oracle_fail(l, "TL2/JSON under the migrated schema differ from the original schema's TL2 view (%s)" % p[3], l)
    c.extra["rule"] = ("programs = (schema, whitelist) pairs the real Migration() accepted with at least one migrated root: repository schemas x "
                       "{*, each namespace, random names}, %d planted, %d random schemas x whitelists; per migrated root one tl2Equiv certificate "
                       "on the exported descriptors and 2-10 random values (boundary ints, string lengths 0/253/254/255, absent/present optionals, "
                       "all union variants, nested arrays/dicts); distinct = distinct case line; non-trivial = value encoded" % (len(PLANTED), nrand))


def sx_print(x):
    if isinstance(x, str):
        return x
    return "(" + ",".join(sx_print(y) for y in x) + ")"
