"""C01 — TL1 binary round trip of generated Go code (DESIGN.md §4 C01)."""
import os
from checks import codec_common as cc
from vlib.core import hx

MODULES = []
THEOREMS = []


def corpus(c):
    T = cc.TLS
    s = [cc.Schema("cases", [T + "/cases.tl"], tl2="*", sanity=True, bytes_wl="cases_bytes."),
         cc.Schema("casesns", [T + "/cases.tl"], tl2="", sanity=False)]
    if c.thorough:
        s += [cc.Schema("gold", [T + "/goldmaster.tl", T + "/goldmaster2.tl", T + "/goldmaster3.tl"], tl2="*", sanity=True, split=True)]
    return s


def run(c):
    if MODULES:
        c.lean(MODULES, THEOREMS)
    model = c.model_exe()
    hcodec = c.harness("hcodec")
    tl2gen = cc.build_tl2gen(c)
    rng = c.rng
    per = 60 if c.thorough else 12
    for sc in corpus(c):
        d, err = cc.export_desc(c, hcodec, sc)
        if d is None:
            c.proof_failures.append({"stage": "descriptor export", "schema": sc.sid, "detail": err})
            continue
        ok, msg = cc.generate(c, tl2gen, sc)
        if not ok:
            c.proof_failures.append({"stage": "generate", "schema": sc.sid, "detail": msg})
            continue
        items = cc.link_items(sc)
        g = cc.Gen1(sc, rng.fork(), big=c.thorough)
        lines = []
        for inst, it in items:
            for boxed in (0, 1):
                if inst["kind"] == "union" and not boxed:
                    continue
                for _ in range(per):
                    b = g.value(inst["idx"], not boxed, [], 0)
                    rest = rng.bytes(rng.below(5)) if rng.chance(1, 3) else b""
                    lines.append("codec.x1 %s %d %s %d %s" % (sc.sid, inst["idx"], inst["tlname"], boxed, hx(b + rest)))
                    if rng.chance(1, 3):
                        # without --checkLengthSanity an inflated count is a legitimate multi-GB allocation: only truncate there
                        m = cc.mutate(rng, b) if sc.sanity else b[:rng.below(len(b) + 1)]
                        lines.append("codec.x1 %s %d %s %d %s" % (sc.sid, inst["idx"], inst["tlname"], boxed, hx(m)))
        pre = [sc.desc_line()]
        res = c.tie("tl1:" + sc.sid, lines, sc.impl, model, prefix=pre)
        # phase 2: what the implementation wrote must read back exactly and re-encode identically (the property itself)
        lines2 = {}
        for l, a, _ in res:
            if not a.startswith("ok "):
                continue
            f = l.split(" ")
            for p in a.split(" ")[2:]:
                k, w = p.split("=", 1)
                if w == "werr":
                    c.oracle_fail(l, "value decoded from TL1 bytes is refused by the TL1 writer", l)
                elif w != "n/a":
                    l2 = "codec.x1 %s %s %s %d %s" % (f[1], f[2], f[3], 1 if k == "w1b" else 0, w + ("" if w == "-" else "") )
                    lines2[l2] = (k, w)
        l2s = sorted(lines2)
        res2 = c.tie("tl1-rt:" + sc.sid, l2s, sc.impl, model, prefix=pre)
        for l, a, _ in res2:
            k, w = lines2[l]
            n = 0 if w == "-" else len(w) // 2
            exp = "ok %d" % n
            if not a.startswith(exp + " ") or (k + "=" + w) not in a.split(" "):
                c.oracle_fail(l, "TL1 round trip fails: bytes written by generated code do not read back exactly / re-encode identically (got %s)" % a[:120], l)
    c.extra["rule"] = ("phase 1: type-directed valid TL1 encodings (+random rest) and single mutations per factory item × bare/boxed; "
                       "phase 2: every encoding the implementation produced is read back and re-encoded (round-trip oracle); "
                       "distinct = distinct case line")
