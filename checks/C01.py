"""C01 — TL1 binary round trip of generated Go code (DESIGN.md §4 C01)."""
import os
from checks import codec_common as cc
from vlib.core import hx

MODULES = ["TLVerif.Props.C01"]
THEOREMS = ["TLVerif.Props.C01." + t for t in [
    "tl1_roundtrip_partial_on", "tl1_roundtrip_partial", "tl1_roundtrip_partial_exists", "tl1_read_normal_on", "tl1_decode_stable_on",
    "minSize_sound", "tl1_roundtrip_fails_with_sanity_at", "tl1_roundtrip_fails_without_normal_at",
    "tl1_write_rejects_bad_sizes", "tl1_write_rejects_bad_sizes_never_bytes"]]
SOURCES = ["TLVerif.Codec.TL1", "TLVerif.Codec.Val", "TLVerif.Codec.Desc", "TLVerif.Codec.TL1Wf", "TLVerif.Codec.TL1Lemmas",
           "TLVerif.Codec.TL1Canon", "TLVerif.Codec.TL1RoundTrip", "TLVerif.Codec.TL1Normal", "TLVerif.Codec.TL1Example"]
# known finding L4 (DESIGN §6): CheckLengthSanity(w, n, 4) assumes ≥ 4 bytes per element; arrays whose elements can
# occupy 0 bytes are written but cannot be read back. Identified by call site; the predicate below is exact.
# known finding L9: WriteTL1 evaluates later masks/sizes from a `#` field that is itself masked out (and therefore not written);
# a hand-shaped object holding a non-zero value in a masked-out `#` field does not round-trip. Identified by call site + exact predicate.
L9_KEY = "L9:masked-out-nat-field-still-used-by-writer:qt_struct.qtpl writeFields"
L4_KEY = "L4:CheckLengthSanity-min-element-size-4:qt_brackets.qtpl/qt_dict.qtpl"


def run(c):
    c.lean(MODULES, THEOREMS, sources=SOURCES)
    model, hcodec, schemas = cc.prepare(c, cc.corpus(c) + cc.random_schemas(c, 2 if not c.thorough else 8))
    rng = c.rng
    per = 60 if c.thorough else 10
    for sc in schemas:
        certs = cc.certificates(c, model, sc)
        lines = []
        if sc.sid == "zs":
            idx = {i["tlname"]: i["idx"] for i, it in sc.items}
            for name, hexs in [("tt.a", "03000000"), ("tt.b", "0200000007000000"), ("tt.c", "05000000")]:
                # fixed witnesses of L4, transported with trailing bytes so that the reader accepts and phase 2 sees the written form
                lines.append("codec.x1 zs %d %s 0 %s" % (idx[name], name, hexs + "00" * 24))
        lines += cc.x1_lines(sc, rng, per, big=c.thorough, mutants=1)
        pre = [sc.desc_line()]
        res = c.tie("tl1:" + sc.sid, lines, sc.impl, model, prefix=pre)
        # phase 2: what the implementation wrote must read back exactly and re-encode identically (the property itself)
        lines2 = {}
        for l, a, b in res:
            if not a.startswith("ok "):
                continue
            f = l.split(" ")
            # the input is a canonical encoding of some value v (the model's writer reproduces it exactly): then reading it and
            # writing the result must reproduce it on the implementation too (write v → read → write)
            if b.startswith("ok ") and f[0] == "codec.x1":
                data = bytes.fromhex(f[5]) if f[5] != "-" else b""
                key = "w1b" if f[4] == "1" else "w1"
                mb, ma = cc.outputs(b).get(key), cc.outputs(a).get(key)
                n = int(b.split(" ")[1])
                if mb == hx(data[:n]) and ma not in (mb, "n/a", None):
                    c.oracle_fail(l, "canonical TL1 encoding (%d bytes) is decoded and re-encoded differently by generated code: %s" % (n, str(ma)[:100]), l)
            for k, w in cc.outputs(a).items():
                if w == "werr":
                    c.oracle_fail(l, "value decoded from TL1 bytes is refused by the TL1 writer", l)
                elif w != "n/a":
                    lines2["codec.x1 %s %s %s %d %s" % (f[1], f[2], f[3], 1 if k == "w1b" else 0, w)] = (k, w)
        l2s = sorted(lines2)
        res2 = c.tie("tl1-rt:" + sc.sid, l2s, sc.impl, model, prefix=pre)
        for l, a, _ in res2:
            k, w = lines2[l]
            n = 0 if w == "-" else len(w) // 2
            if not a.startswith("ok %d " % n) or (k + "=" + w) not in a.split(" "):
                ce = certs.get(int(l.split(" ")[2]), {})
                if sc.sanity and a == "err eof" and not ce.get("min4", True):
                    # exactly the L4 situation: guard of tl1_roundtrip_partial_on fails (min4 = false) and the reader reports EOF
                    c.oracle_failures.append({"key": L4_KEY, "what": "L4", "input": l})
                    c.count("known:L4")
                else:
                    c.oracle_fail(l, "TL1 round trip fails: bytes written by generated code do not read back exactly / re-encode identically (got %s)" % a[:120], l)
        # phase 3: hand-shaped values — `#` fields assigned directly on a fresh object
        hs = []
        shape = {}
        for inst, it in sc.items:
            if inst["kind"] != "struct":
                continue
            fields = inst.get("fields") or []
            stored = [i for i, f in enumerate(fields) if not f.get("isBit")]
            nats = [(gi, di) for gi, di in enumerate(stored)
                    if sc.desc["instances"][fields[di]["ty"]]["kind"] == "prim" and sc.desc["instances"][fields[di]["ty"]].get("prim") == "uint32"]
            if not nats:
                continue
            for _ in range(8 if c.thorough else 3):
                vals = {}
                for gi, di in nats:
                    if rng.chance(2, 3):
                        vals[di] = rng.choice([0, 1, 2, 3, 4, 5, 7, 8, 15])
                if not vals:
                    continue
                go_of = {di: gi for gi, di in nats}
                line = "codec.hs %s %d %s %s" % (sc.sid, inst["idx"], inst["tlname"], ",".join("%d=%d" % (go_of[di], v) for di, v in sorted(vals.items())))
                # L9 shape: an assigned non-zero `#` field whose own mask bit is clear
                l9 = False
                for di, v in vals.items():
                    m = fields[di].get("mask")
                    if v != 0 and m and m["k"] == "field":
                        if (vals.get(m["v"], 0) >> fields[di]["bit"]) & 1 == 0:
                            l9 = True
                    if v != 0 and m and m["k"] == "num" and (m["v"] >> fields[di]["bit"]) & 1 == 0:
                        l9 = True
                hs.append(line)
                shape[line] = l9
        res3 = c.tie("tl1-handshaped:" + sc.sid, hs, sc.impl, model, prefix=pre)
        for l, a, _ in res3:
            if not a.startswith("ok "):
                continue
            o = dict(p.split("=", 1) for p in a.split(" ")[1:])
            w = o.get("w1b")
            if w == "werr":
                c.count("handshaped:write-refused")      # sizes disagree with the (zero-length) arrays: the documented write error
                continue
            n = 0 if w == "-" else len(w) // 2
            if o.get("rt") != "%d:%s" % (n, w):
                ce = certs.get(int(l.split(" ")[2]), {})
                if shape[l]:
                    c.oracle_failures.append({"key": L9_KEY, "what": "L9", "input": l})
                    c.count("known:L9")
                elif sc.sanity and o.get("rt") == "err-eof" and not ce.get("min4", True):
                    c.oracle_failures.append({"key": L4_KEY, "what": "L4", "input": l})
                else:
                    c.oracle_fail(l, "hand-shaped value does not round-trip through TL1: wrote %s, read back %s" % (w[:80], o.get("rt", "")[:80]), l)
    c.extra["rule"] = ("phase 1: type-directed valid TL1 encodings (+random rest) and single mutations per factory item × bare/boxed, plus fixed "
                       "zero-size-element witnesses; phase 2: every encoding the implementation produced is read back and re-encoded "
                       "(round-trip oracle); phase 3: hand-shaped values (`#` fields of a fresh object assigned by reflection), written and read back; T3 certificates (wf, productive, roundtrip guard) evaluated per factory item; distinct = distinct case line")
