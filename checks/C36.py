"""C36 — UDP transport delivers every message intact exactly once (DESIGN.md §4 C36).

What is proved (Lean): soundness of the trace monitor (`accepted_trace_sound` and friends) and, for the
modelled sliding-window bookkeeping (Udp/Window.lean), exactly-once in-order intact delivery under
loss/duplication/reordering.  What is explored: the real transport, driven through the repository's own
deterministic simulator (fuzz_transport.go) on command strings derived from VERIF_SEED; every run's
event trace must be accepted by the Lean monitor (tlmodel) and by the same oracle in python, and the
monitor's summary must agree with the simulator's own end state.
"""
import hashlib
import os
import subprocess
import time

from vlib.core import ROOT, run_lines

LEVEL = "other"
MODULES = ["TLVerif.Props.C36", "TLVerif.Props.C36Window"]
THEOREMS = ["TLVerif.Props.C36." + t for t in [
    "accepted_trace_sound", "accepted_delivery_exactly_once", "accepted_no_early_or_double_delivery",
    "accepted_acks_monotone", "accepted_memory_within_limit", "accepted_memory_released",
    "accepted_buffers_balanced", "rejects_double_delivery", "rejects_lost_message", "rejects_over_limit",
]] + ["TLVerif.Props.C36Window." + t for t in [
    "recv_characterisation", "recv_delivers_prefix", "recv_complete", "recv_prefix_monotone", "send_ack_sound",
    "send_release_exactly_once", "getChunks_contiguous",
    "sys_delivered_prefix", "sys_ack_safe", "sys_all_acked_all_delivered",
]]
SOURCES = ["TLVerif.Udp.Monitor", "TLVerif.Udp.MonitorLemmas", "TLVerif.Udp.Driver", "TLVerif.Udp.Window",
           "TLVerif.Udp.WindowLemmas", "TLVerif.Udp.SysLemmas", "TLVerif.Udp.ReleaseLemmas",
           "TLVerif.Udp.Resend", "TLVerif.Udp.ResendLemmas"]

# ---------------------------------------------------------------------------------------------
# command strings (the simulator's input language: see FuzzDyukov)


def cmd_n(src, dst, size):
    return bytes([ord("n"), (dst << 4) | src, size & 0xFF])


def cmd_w(t):
    return bytes([ord("w"), t])


def cmd_r(t, idx):
    return bytes([ord("r"), t, idx & 0xFF])


def cmd_e(t):
    return bytes([ord("e"), t])


def cmd_t(t, timer):
    return bytes([ord("t"), (timer << 4) | t])


def cmd_d(t, idx):
    return bytes([ord("d"), t, idx & 0xFF])


def cmd_l(t, idx):
    return bytes([ord("l"), t, idx & 0xFF])


PROFILES = {
    # weights of n, w, r, e, t, d, l
    "balanced": (20, 25, 20, 15, 10, 5, 5),
    "lossy": (15, 25, 15, 10, 10, 5, 20),
    "dupy": (15, 25, 20, 10, 10, 18, 2),
    "memory": (40, 25, 15, 10, 6, 2, 2),
    "timers": (12, 22, 16, 10, 30, 5, 5),
    "steady": (10, 35, 30, 20, 3, 1, 1),
}


def gen_commands(rng, n, ntr, profile, restarts, bigmsg):
    w = PROFILES[profile]
    tot = sum(w)
    out = bytearray()
    for _ in range(n):
        k = rng.below(tot)
        t = rng.below(ntr)
        if k < w[0]:
            # valid submissions need dst > src
            if rng.chance(9, 10) and ntr > 1:
                a, b = rng.below(ntr), rng.below(ntr)
                if a == b:
                    b = (a + 1) % ntr
                src, dst = min(a, b), max(a, b)
            else:
                src, dst = rng.below(16), rng.below(16)
            if bigmsg and rng.chance(1, 2):
                size = rng.choice([252, 248, 200, 255, 128, 170])
            else:
                size = rng.choice([4, 8, 24, 28, 32, 56, 60, 64, rng.below(256), rng.below(256), rng.below(64)])
            out += cmd_n(src, dst, size)
            continue
        k -= w[0]
        if k < w[1]:
            out += cmd_w(t)
            continue
        k -= w[1]
        if k < w[2]:
            out += cmd_r(t, rng.below(256) if rng.chance(1, 2) else 0)
            continue
        k -= w[2]
        if k < w[3]:
            out += cmd_e(t)
            continue
        k -= w[3]
        if k < w[4]:
            out += cmd_t(t, rng.below(4 if restarts else 3))
            continue
        k -= w[4]
        if k < w[5]:
            out += cmd_d(t, rng.below(256))
            continue
        out += cmd_l(t, rng.below(256))
    return bytes(out) + b"\0\0"


def gen_directed(rng, ntr=2):
    """Schedules aimed at the control path: many small messages one per datagram, out-of-order reads at the
    receiver, acks and resend requests produced at different moments, then read by the sender in a
    different order than they were sent (acks overtaking resend requests), duplicated or lost."""
    src, dst = 0, 1
    if ntr > 2:
        src = rng.below(ntr - 1)
        dst = rng.range(src + 1, ntr - 1)
    c = bytearray()
    k = rng.range(3, 8)
    for _ in range(k):
        c += cmd_n(src, dst, rng.choice([4, 4, 4, 4, 8, 8, 12, 28, 32, 60]))
        if rng.chance(5, 6):
            c += cmd_w(src)
    for _ in range(rng.range(2, 5)):
        for _ in range(rng.range(1, 2)):
            c += cmd_r(dst, rng.below(8))
            if rng.chance(5, 6):
                c += cmd_e(dst)
        # acknowledge, then (maybe) request the holes: w, ack timer, w, resend-request timer, w
        for x in (cmd_w(dst), cmd_t(dst, 1), cmd_w(dst), cmd_t(dst, 2), cmd_w(dst)):
            if rng.chance(4, 5):
                c += x
        if rng.chance(1, 2):
            continue                      # let control datagrams pile up at the sender
        for _ in range(rng.range(1, 4)):
            x = rng.below(10)
            if x == 0:
                c += cmd_d(src, rng.below(4))
            elif x == 1:
                c += cmd_l(src, rng.below(4))
            c += cmd_r(src, rng.below(4))
            if rng.chance(5, 6):
                c += cmd_e(src)
        if rng.chance(4, 5):
            c += cmd_w(src)
        if rng.chance(1, 6):
            c += cmd_t(src, 0)
        if rng.chance(1, 5):
            c += cmd_n(src, dst, rng.choice([4, 8, 28]))
            c += cmd_w(src)
    return bytes(c) + b"\0\0"


def enum_control_orders(k):
    """Systematic: k one-chunk messages, one datagram each; the receiver reads datagram i, acknowledges and
    requests the holes, reads datagram j, acknowledges again; the sender then reads the control datagrams
    in every order (optionally after duplicating one), with header hand-over, and writes."""
    out = []
    pre = b"".join(cmd_n(0, 1, 4) + cmd_w(0) for _ in range(k))
    for i in range(k):
        for j in range(k - 1):
            mid = (cmd_r(1, i) + cmd_e(1) + cmd_w(1) + cmd_t(1, 1) + cmd_w(1) + cmd_t(1, 2) + cmd_w(1) +
                   cmd_r(1, j) + cmd_e(1) + cmd_t(1, 1) + cmd_w(1))
            for dup in (None, 0, 1, 2):
                n0 = 3 + (dup is not None)
                for a in range(n0):
                    for b in range(n0 - 1):
                        for third in (False, True):
                            tail = (cmd_d(0, dup) if dup is not None else b"") + cmd_r(0, a) + cmd_e(0) + cmd_r(0, b) + cmd_e(0)
                            if third:
                                tail += cmd_w(0) + cmd_r(0, 0) + cmd_e(0)
                            out.append(pre + mid + tail + cmd_w(0) + b"\0\0")
    return out


def parse_commands(b):
    """Split a command string the way the interpreter does (for shrinking)."""
    cmds, i = [], 0
    while i + 2 < len(b):
        c = b[i:i + 1]
        if c in (b"n", b"r", b"d", b"l"):
            cmds.append(b[i:i + 3])
            i += 3
        elif c in (b"w", b"e", b"t"):
            cmds.append(b[i:i + 2])
            i += 2
        else:
            i += 1
    return cmds


def sim_line(flags, cmds, steps=3000):
    return "udp.sim %d %d %s" % (flags, steps, cmds.hex() if cmds else "-")


# ---------------------------------------------------------------------------------------------
# the same oracle as Udp/Monitor.lean, in python (output format identical to the Lean driver)

REJ = {}


def py_monitor(limit, flags, trace):
    delivery, acks, live_flag = flags & 1, flags & 2, flags & 4
    if trace == "-":
        toks = []
    else:
        toks = trace.split(";")
    pending = {}
    prefs = {}
    mem = {}
    live = set()
    olive = set()
    nsub = ndel = maxmem = 0
    settled = False
    for i, tok in enumerate(toks):
        if settled:
            return "rej %d after-settle" % i
        c = tok[0]
        if tok == "z":
            if delivery and any(v > 0 for v in pending.values()):
                return "rej %d pending-at-settle" % i
            if any(v != 0 for v in mem.values()):
                return "rej %d mem-at-settle" % i
            if live_flag and live:
                return "rej %d live-at-settle" % i
            settled = True
        elif c == "s":
            x = tok[1:]
            pending[x] = pending.get(x, 0) + 1
            nsub += 1
        elif c == "d":
            x = tok[1:]
            if delivery:
                if pending.get(x, 0) <= 0:
                    return "rej %d bad-delivery" % i
                pending[x] -= 1
            ndel += 1
        elif c == "p":
            cid, k, v = tok[1:].split(".")
            v = int(v)
            if acks:
                if prefs.get((cid, k), 0) > v:
                    return "rej %d ack-backwards" % i
                prefs[(cid, k)] = v
        elif c == "a":
            t, n = tok[1:].split(".")
            m = mem.get(t, 0) + int(n)
            if m > limit:
                return "rej %d over-limit" % i
            mem[t] = m
            maxmem = max(maxmem, m)
        elif c == "r":
            t, n = tok[1:].split(".")
            m = mem.get(t, 0)
            if int(n) > m:
                return "rej %d release-underflow" % i
            mem[t] = m - int(n)
        elif c == "b" or c == "o":
            bid = tok[1:]
            st = live if c == "b" else olive
            if bid in st:
                return "rej %d alloc-twice" % i
            st.add(bid)
        elif c == "f" or c == "g":
            bid = tok[1:]
            st = live if c == "f" else olive
            if bid not in st:
                return "rej %d bad-free" % i
            st.discard(bid)
        else:
            return "bad-op"
    return "acc sub=%d del=%d live=%d outlive=%d maxmem=%d mem=%d settled=%d" % (
        nsub, ndel, len(live), len(olive), maxmem, sum(mem.values()), 1 if settled else 0)




def parse_out(out):
    """harness output -> (status, dict of summary fields, trace)"""
    if " T " not in out:
        return None
    head, trace = out.split(" T ", 1)
    f = head.split(" ")
    d = {}
    for w in f[1:]:
        if "=" in w:
            k, v = w.split("=", 1)
            d[k] = v
    return f[0], d, trace


# ---------------------------------------------------------------------------------------------
# known findings: witness lines (keys of known_findings.d/C36.json) and the signatures by which further
# manifestations found by the random search are attributed to them.  A signature only counts while the
# witness itself still fails in this run.

W_ORPHAN = "udp.sim 3 300 6e20f46e101a77006e215077006c01c477017202087430741274306e10b70000"
W_GENMISMATCH = "udp.sim 3 300 6e106777007700770074307200cf6e107d77006c012e72010b743074117701743072009e72015a77007700743065017201dd65016c019f743077010000"
W_FUZZ_IMPATIENT = "udp.sim 7 300 6e106177007430720173741177017200c9770072018a6e10c0741177007201d777016c000b0000"
W_INV_SENDQ = "udp.sim 2 3000 6ef138770174016e91e06ee13c7701720f00741f650f7401770f770172010065010000"
W_OBSGEN = "udp.sim 3 3000 6e100b770072016d6e1083741177017200e96e108b6e103877006e104064011d770077006401b477006401fa770077006401d26e10207700770077006e10386401a964011f77006e103c6401e877007700770064015477006401227700770064015a6401287700770064010f64015d6e10186401516e10387700770077006401a16401f9770074306401c8770064018b6e102077007430770064015772007f6e10400000"
WITNESSES = [W_ORPHAN, W_GENMISMATCH, W_FUZZ_IMPATIENT, W_INV_SENDQ, W_OBSGEN]


# ---------------------------------------------------------------------------------------------
# window model ties (udp.rcv / udp.snd): generators and the property's oracle on the implementation output


def win_byte(i, o):
    return (i * 37 + o * 11 + 5) % 256


def win_checksum(m):
    s = 0
    for k, b in enumerate(m):
        s = (s * 31 + b * (k % 7 + 1) + 1) % 4294967296
    return s


def win_chunks(spec):
    """[(msg, prev, next)] per sequence number and the expected message tokens"""
    chunks, toks = [], []
    if spec == "-":
        return chunks, toks
    for i, ms in enumerate(spec.split(",")):
        lens = [int(x) for x in ms.split(".")]
        for j in range(len(lens)):
            chunks.append((i, j, len(lens) - 1 - j))
        total = sum(lens)
        toks.append("%d:%d" % (total, win_checksum([win_byte(i, o) for o in range(total)])))
    return chunks, toks


def gen_rcv(rng, big):
    nm = rng.range(1, 8 if big else 4)
    spec = ",".join(".".join(str(rng.range(1, 28)) for _ in range(rng.choice([1, 1, 2, 3, rng.range(1, 6)]))) for _ in range(nm))
    chunks, _ = win_chunks(spec)
    n = len(chunks)
    arr = []
    order = list(range(n))
    if rng.chance(2, 3):
        rng.shuffle(order)
    for s_ in order:
        if rng.chance(1, 8):
            continue                       # lost (maybe re-sent below)
        arr.append(s_)
        if rng.chance(1, 5):
            arr.append(rng.below(n))       # duplicate / stray
    for _ in range(rng.below(n + 2)):
        arr.append(rng.below(n + 1))       # resends, possibly beyond the stream
    out = []
    for s_ in arr:
        # sometimes pack a datagram the way the sender may: a run of chunks in which only the first may
        # continue a message and only the last may be continued
        cnt = 1
        if rng.chance(1, 4):
            while s_ + cnt < n and cnt < 4 and chunks[s_ + cnt - 1][2] == 0 and chunks[s_ + cnt][1] == 0 and \
                    (cnt == 1 or chunks[s_ + cnt - 1][1] == 0):
                cnt += 1
                if rng.chance(1, 2):
                    break
        out.append("%d+%d" % (s_, cnt))
    return "udp.rcv %s %s" % (spec, ",".join(out) or "-")


def oracle_rcv(line, out):
    f = line.split(" ")
    chunks, toks = win_chunks(f[1])
    if not out.startswith("ok "):
        return "receiver failed (%s)" % out[:30]
    o = out.split(" ")
    steps = [] if o[1] == "-" else o[1].split(",")
    arrs = [] if f[2] == "-" else f[2].split(",")
    if len(steps) != len(arrs):
        return "step count"
    arrived = set()
    lastp = 0
    for a, st in zip(arrs, steps):
        fr, cnt = [int(x) for x in a.split("+")]
        if fr + cnt <= len(chunks):
            arrived.update(range(fr, fr + cnt))
        pfx = 0
        while pfx in arrived:
            pfx += 1
        ndel = sum(1 for k in range(pfx) if chunks[k][2] == 0)
        p, rest = st[1:].split("d")
        d = rest.split("r")[0]
        if int(p) < lastp:
            return "receive prefix moved backwards"
        lastp = int(p)
        if int(p) != pfx:
            return "receive prefix %s is not the contiguous received prefix %d" % (p, pfx)
        if int(d) != ndel:
            return "%s messages handed over, %d are complete below the prefix" % (d, ndel)
    got = [] if o[2] == "-" else o[2].split(",")
    if got != toks[:len(got)]:
        return "handed-over messages are not a prefix of the submitted messages (order/content)"
    if o[3] != "mem=0" and len(got) == len(toks):
        return "memory not released after all messages were handed over"
    return None


def gen_snd(rng, big):
    ops = []
    nxt = 0
    nmsg = 0
    for _ in range(rng.range(1, 40 if big else 14)):
        r = rng.below(20)
        if r < 5 and nmsg < 200:
            if rng.chance(1, 2):
                ops.append("s%d" % rng.choice([4, 4, 4, 8, 8, 12, 20, 28]))
                nxt += 1
            else:
                k = rng.choice([1, 1, 2, 3, rng.range(1, 6)])
                ops.append("m%d" % k)
                nxt += k
            nmsg += 1
        elif r < 9:
            ops.append("c%d" % rng.below(nxt + 2))
        elif r < 11:
            ops.append("p%d" % rng.below(nxt + 3))
        elif r < 15:
            ops.append("g0")
        elif r < 16:
            ops.append("t0")
        elif nxt > 0:
            rs = []
            lo = rng.below(nxt)
            for _ in range(rng.range(1, 3)):
                hi = min(nxt - 1, lo + rng.below(6))
                rs.append("%d-%d" % (lo, hi))
                lo = hi + 1 + rng.below(3)
                if lo >= nxt:
                    break
            ops.append("r" + "/".join(rs))
    return "udp.snd " + ",".join(ops or ["g0"])


def oracle_snd(line, out):
    if out == "panic":
        return "sender panicked"
    if not out.startswith("ok "):
        return "sender failed (%s)" % out[:30]
    ops = line.split(" ")[1].split(",")
    o = out.split(" ")
    steps = o[1].split(",")
    msg_of = []          # message id per sequence number
    size_of = []
    acked = set()
    lastp = 0
    nmsg = 0
    for op, st in zip(ops, steps):
        f = st.split(":")
        p, nx, flags, nrel = int(f[0]), int(f[1]), f[2], int(f[3])
        flags = "" if flags == "-" else flags
        if op[0] == "m":
            n = int(op[1:])
            msg_of += [nmsg] * n
            size_of += [28] * (n - 1) + [4]
            nmsg += 1
        elif op[0] == "s":
            msg_of += [nmsg]
            size_of += [int(op[1:])]
            nmsg += 1
        elif op[0] == "c":
            n = int(op[1:])
            if lastp <= n < len(msg_of):
                acked.add(n)
        elif op[0] == "p":
            n = int(op[1:])
            if n > 0 and lastp <= n - 1 < len(msg_of):
                acked.update(range(lastp, n))
        exp = lastp
        while exp in acked:
            exp += 1
        if p < lastp:
            return "acknowledged prefix moved backwards"
        if p != exp:
            return "acknowledged prefix %d, acknowledgements received so far give %d" % (p, exp)
        if nx != len(msg_of) or len(flags) != nx - p:
            return "window bounds"
        for k, ch in enumerate(flags):
            if (ch == "1") != ((p + k) in acked):
                return "chunk %d: acknowledged flag %s but acknowledgement %s" % (p + k, ch, "seen" if (p + k) in acked else "never seen")
        exp_rel = len(set(m for k, m in enumerate(msg_of) if k < p) - set(m for k, m in enumerate(msg_of) if k >= p))
        if nrel != exp_rel:
            return "%d message buffers released, %d messages are fully acknowledged" % (nrel, exp_rel)
        if op[0] == "g":
            g = f[5][1:].split(".")
            first, seqs = int(g[0]), ([] if g[2] == "-" else g[2].split("+"))
            if "?" in seqs:
                return "datagram contains a chunk that is not in the window"
            seqs = [int(x) for x in seqs]
            if seqs and seqs != list(range(first, first + len(seqs))):
                return "datagram numbered %d..%d carries the chunks %s: not consecutive" % (first, first + len(seqs) - 1, seqs)
            for q in seqs:
                if not (p <= q < nx) or q in acked:
                    return "datagram carries chunk %d which is acknowledged or outside the window" % q
            if len(set(msg_of[q] for q in seqs)) != len(seqs):
                return "two chunks of one message in one datagram"
            if sum(4 + size_of[q] for q in seqs) > 32:
                return "datagram payload exceeds the maximum"
        lastp = p
    rel = [] if o[2] == "-" else o[2].split(",")
    if rel != [str(k) for k in range(len(rel))]:
        return "message buffers released out of order or more than once"
    return None


def mon_flags(sim_flags):
    # without restarts: delivery + acks + live; with restarts: acks + live (+ memory, always on)
    return 6 if sim_flags & 1 else 7


def run(c):
    t_start = time.time()
    c.lean(MODULES, THEOREMS, sources=SOURCES)
    model = c.model_exe()
    ovd = os.path.join(ROOT, "go", "hudp", "overlay")
    impl = c.harness("hudp", overlays={"pkg/rpc/udp/verif_sim.go": os.path.join(ovd, "verif_sim.go"),
                                       "pkg/rpc/udp/verif_window.go": os.path.join(ovd, "verif_window.go")})
    rng = c.rng
    c.trusted += ["go/hudp harness and the observation overlay pkg/rpc/udp/verif_sim.go (hooks: message handler, allocator, "
                  "deallocator, state sampling after every simulator step)",
                  "the repository's simulator fuzz_transport.go as the environment (network, timers) of the transport"]
    c.assumptions += ["schedule coverage is exploration: only the command strings generated in this run were executed",
                      "Transport.acquiredMemory is sampled at every handler/allocator/deallocator call and after every "
                      "simulator step; every local maximum is immediately followed by a handler call, so peaks are seen",
                      "settling uses FuzzDyukov's repair schedule, but gives up only after 8 idle rounds instead of 1"]

    # ---------------- case lines
    lines = []
    replay_win = []
    if c.replay:
        for l in [f.get("input") for f in c.replay.get("failures", [])] + [t.get("line") for t in c.replay.get("broken_ties", [])]:
            if l and l.startswith("udp.sim"):
                lines.append(l)
            elif l and (l.startswith("udp.rcv") or l.startswith("udp.snd")):
                replay_win.append(l)
    lines += WITNESSES
    # exhaustive over a small alphabet on two transports (loss/dup/timers before the repair phase)
    alpha = [cmd_n(0, 1, 8), cmd_n(0, 1, 72), cmd_w(0), cmd_w(1), cmd_r(1, 0), cmd_r(0, 0), cmd_e(1), cmd_e(0),
             cmd_t(0, 0), cmd_t(1, 1), cmd_t(1, 2), cmd_d(1, 0), cmd_l(1, 0), cmd_l(0, 0)]
    depth = 4 if c.thorough else 3
    seqs = [b""]
    frontier = [b""]
    for _ in range(depth):
        frontier = [s + a for s in frontier for a in alpha]
        seqs += frontier
    for s in seqs:
        lines.append(sim_line(2, s + b"\0\0"))
    # the handshake/transfer prefix followed by every pair of disturbances
    base = cmd_n(0, 1, 200) + cmd_n(0, 1, 64) + cmd_w(0) + cmd_w(0) + cmd_w(0)
    dist = [cmd_l(1, 0), cmd_l(1, 1), cmd_d(1, 0), cmd_d(1, 1), cmd_r(1, 0), cmd_r(1, 1), cmd_e(1), cmd_w(1), cmd_w(0),
            cmd_t(0, 0), cmd_t(1, 1), cmd_t(1, 2), cmd_r(0, 0), cmd_e(0), cmd_n(0, 1, 252)]
    for a in dist:
        for b in dist:
            for fl in (2, 0):
                lines.append(sim_line(fl, base + a + b + cmd_w(0) + cmd_r(1, 0) + a + b"\0\0"))
    # control-path schedules: systematic orders of acks / resend requests at the sender, and directed random ones
    for k in ((3, 4, 5, 6) if c.thorough else (4, 5)):
        for cmds in enum_control_orders(k):
            lines.append(sim_line(2, cmds))
    for i in range(12000 if c.thorough else 4000):
        fl = rng.choice([2, 2, 2, 0, 6, 3])
        lines.append(sim_line(fl, gen_directed(rng, rng.choice([2, 2, 3, 4]))))
    # random command strings
    nrand = 20000 if c.thorough else 2500
    profiles = sorted(PROFILES)
    for i in range(nrand):
        r = rng.below(100)
        if r < 45:
            flags = 2          # the repository's configuration: no restarts, stream-like
        elif r < 60:
            flags = 0          # no restarts, message-at-once handlers
        elif r < 70:
            flags = 6          # + the repository's own FuzzDyukov verdict
        elif r < 85:
            flags = 3
        elif r < 92:
            flags = 1
        else:
            flags = 7
        ntr = rng.choice([2, 2, 3, 4, 16])
        n = rng.choice([rng.range(1, 30), rng.range(10, 120), rng.range(50, 400), rng.range(100, 900 if c.thorough else 500)])
        prof = rng.choice(profiles)
        if rng.chance(1, 25):
            cmds = rng.bytes(rng.range(0, 300))   # arbitrary bytes, as a fuzzer would supply
        else:
            cmds = gen_commands(rng, n, ntr, prof, bool(flags & 1), rng.chance(1, 3))
        lines.append(sim_line(flags, cmds))
    lines = list(dict.fromkeys(lines))

    # ---------------- run the implementation, then the Lean monitor on the emitted traces
    t_gen = time.time()
    outs = run_lines(impl, lines)
    t_sim = time.time()
    parsed = [parse_out(o) for o in outs]
    mon_lines = []
    for l, p in zip(lines, parsed):
        if p is None:
            mon_lines.append("udp.mon 0 0 bad")
            continue
        fl = int(l.split(" ")[1])
        mon_lines.append("udp.mon %s %d %s" % (p[1].get("limit", "0"), mon_flags(fl), p[2]))
    mouts = run_lines(model, mon_lines)
    t_mon = time.time()

    # ---------------- verdicts
    fails = []           # (line, what, signature)
    witness_fail = {}
    for l, o, p, ml, mo in zip(lines, outs, parsed, mon_lines, mouts):
        c.evaluations += 1
        fl = int(l.split(" ")[1])
        restarts = bool(fl & 1)
        if p is None:
            c.tie_failures.append({"tie": "sim", "line": l, "impl": o[:300], "model": ""})
            fails.append((l, "harness produced no result (%s)" % o[:40], None))
            continue
        status, d, trace = p
        c.dist["udp.sim flags=%d:%s" % (fl, status)] = c.dist.get("udp.sim flags=%d:%s" % (fl, status), 0) + 1
        if d.get("sub", "0") not in ("0", "-"):
            c.distinct.add(hashlib.sha1(l.encode()).hexdigest()[:16])
        py = py_monitor(int(d.get("limit", "0")), mon_flags(fl), trace)
        if py != mo:
            c.tie_failures.append({"tie": "python oracle vs Lean monitor", "line": l, "impl": py, "model": mo})
        mk = mo.split(" ")
        c.dist["udp.mon:" + (mk[0] + " " + mk[2] if mk[0] == "rej" and len(mk) > 2 else mk[0] + " " + mk[-1])] = \
            c.dist.get("udp.mon:" + (mk[0] + " " + mk[2] if mk[0] == "rej" and len(mk) > 2 else mk[0] + " " + mk[-1]), 0) + 1
        # tie: the monitor's summary of the trace against the simulator's own end state
        if mk[0] == "acc" and status != "panic":
            md = dict(w.split("=") for w in mk[1:])
            for k in ("sub", "del", "live", "outlive", "maxmem", "mem"):
                if md.get(k) != d.get(k):
                    c.tie_failures.append({"tie": "trace summary vs simulator state (%s)" % k, "line": l,
                                           "impl": " ".join("%s=%s" % (k2, d.get(k2)) for k2 in ("sub", "del", "live", "outlive", "maxmem", "mem")),
                                           "model": mo})
                    break
            if (md.get("settled") == "1") != (status == "settled"):
                c.tie_failures.append({"tie": "settle marker vs simulator status", "line": l, "impl": status, "model": mo})
            if not restarts and md.get("settled") == "1" and (d.get("missing") != "0" or d.get("extra") != "0"):
                c.tie_failures.append({"tie": "accepted trace but simulator maps differ", "line": l,
                                       "impl": "missing=%s extra=%s" % (d.get("missing"), d.get("extra")), "model": mo})
        # the property's oracle on the implementation's trace
        what, sig = None, None
        if status == "panic":
            what = "panic inside the transport/simulator (invariant check or runtime panic; class %s)" % d.get("panic")
            if d.get("panic") == "notacked-nosend-insendq":
                sig = W_INV_SENDQ
        elif mk[0] == "rej":
            reason = mk[2] if len(mk) > 2 else "?"
            what = "event trace rejected at event %s: %s" % (mk[1] if len(mk) > 1 else "?", reason)
            if restarts and reason == "mem-at-settle":
                sig = W_ORPHAN
        elif mk[0] != "acc":
            what = "monitor could not read the trace: " + mo[:60]
        elif status == "stuck":
            what = "network repaired but the protocol makes no progress (%s)" % d.get("stuck")
            if restarts and d.get("orphan", "0") not in ("0",):
                sig = W_ORPHAN
            elif restarts and d.get("stuck") in ("genmismatch", "stalemem"):
                sig = W_GENMISMATCH
            elif restarts and d.get("stuck") == "obsgen":
                sig = W_OBSGEN
        elif status == "steps":
            what = "network repaired but not quiescent after the step bound"
        if what is None and d.get("outlive", "0") != "0":
            # not part of C36 (outgoing buffers are not incoming message memory): recorded, not a failure
            c.count("note:outgoing message buffers never passed to the deallocator (%s restarts)" % ("with" if restarts else "without"))
        if what is None and d.get("fuzz") == "panic":
            what = "the repository's FuzzDyukov panics on this input"
            if restarts and status == "settled":
                sig = W_FUZZ_IMPATIENT
        if what:
            fails.append((l, what, sig))
            if l in WITNESSES:
                witness_fail[l] = what
    c.count("cases:total", len(lines))
    t_orc = time.time()

    # ---------------- report: known-finding attribution, shrinking of new failures
    new = []
    for l, what, sig in fails:
        if l in WITNESSES:
            c.oracle_fail(l, what, l)
        elif sig is not None and sig in witness_fail:
            c.count("attributed-to-known-finding:" + {W_ORPHAN: "orphan-memory", W_GENMISMATCH: "stale-peer-deadlock",
                                                       W_FUZZ_IMPATIENT: "fuzz-impatience", W_INV_SENDQ: "simulator-invariant-sendq",
                                                       W_OBSGEN: "simulator-obsolete-generation-status"}[sig])
        else:
            new.append((l, what))
    new.sort(key=lambda x: len(x[0]))
    budget = time.time() + (120 if c.thorough else 25)
    for l, what in new[:3]:
        small = shrink(impl, model, l, what, budget)
        c.oracle_fail(small, what, small)
    for l, what in new[3:40]:
        c.oracle_fail(l, what, l)

    # ---------------- window model: differential tie against one real Incoming/OutgoingConnection
    wl = list(replay_win)
    import itertools
    for spec, nseq in (("2.1,1", 3), ("1,3.2", 4), ("5.5.5.5", 4)):
        for k in range(0, 6 if c.thorough else 5):
            for tup in itertools.product(range(nseq + 1), repeat=k):
                wl.append("udp.rcv %s %s" % (spec, ",".join("%d+1" % x for x in tup) or "-"))
    sops = ["m1", "m2", "c0", "c1", "c2", "c3", "p0", "p1", "p2", "p3", "p4"]
    for k in range(1, 5 if c.thorough else 4):
        for tup in itertools.product(sops, repeat=k):
            wl.append("udp.snd " + ",".join(("m3",) + tup))
    # GetChunksToSend answering resend requests over windows with acknowledged holes: five one-chunk
    # messages sent once, then every sequence of selective acks / prefix acks / resend requests / timeouts
    rops = ["c0", "c1", "c2", "c3", "c4", "p1", "p2", "r0-3", "r0-4", "r1-4", "r0-1/3-4", "g0", "t0"]
    for k in range(1, 5 if c.thorough else 4):
        for tup in itertools.product(rops, repeat=k):
            wl.append("udp.snd " + ",".join(("s4", "s4", "s4", "s4", "s4", "g0", "g0") + tup + ("g0", "g0")))
    for _ in range(10000 if c.thorough else 2000):
        wl.append(gen_rcv(rng, rng.chance(1, 2)))
        wl.append(gen_snd(rng, rng.chance(1, 2)))
    wl = list(dict.fromkeys(wl))
    wfails = []
    for l, a, b in c.tie("window", wl, impl, model):
        what = oracle_rcv(l, a) if l.startswith("udp.rcv") else oracle_snd(l, a)
        if what:
            wfails.append((l, what))
    wfails.sort(key=lambda x: len(x[0]))
    for l, what in wfails[:40]:
        c.oracle_fail(l, what, l)

    for l, o, mo in list(zip(lines, outs, mouts))[:: max(1, len(lines) // 6)][:6]:
        c.samples.append({"tie": "sim+monitor", "line": l[:200], "impl": o[:260], "model": mo[:200]})
    c.extra["explanation"] = (
        "Proved in Lean: the trace monitor is sound (an accepted trace ending in settle has delivered multiset = submitted "
        "multiset with no early/double delivery at any point, per-connection prefixes non-decreasing, per-transport memory "
        "within the limit at every event and zero at the end, buffers balanced), and the sliding-window model delivers "
        "exactly once in order under loss/duplication. Explored, not proved: that the real transport produces only accepted "
        "traces — %d simulator runs this time (exhaustive over a 14-command alphabet to depth %d on two transports, a "
        "disturbance-pair grid, random command strings over 6 profiles, 2..16 transports, both handler modes, with and without "
        "restarts, raw random bytes); every trace was checked by the Lean monitor (tlmodel) and by the python oracle, and the "
        "monitor's summary was compared with the simulator's own end state." % (len(lines), depth))
    c.extra["rule"] = ("one case = one simulator run (command string); distinct = distinct command strings that submit at least "
                       "one message; modes: flags bit0 restarts, bit1 StreamLikeIncoming, bit2 also FuzzDyukov itself")
    c.extra["wall_phases_s"] = {"lean+build": round(t_gen - t_start, 1), "simulator": round(t_sim - t_gen, 1),
                                "lean monitor": round(t_mon - t_sim, 1), "python oracle": round(t_orc - t_mon, 1),
                                "shrink+report": round(time.time() - t_orc, 1)}


def verdict_of(impl, model, line):
    """Re-run one case: returns a short failure class or None."""
    o = run_lines(impl, [line], jobs=1)[0]
    p = parse_out(o)
    if p is None:
        return "noresult"
    status, d, trace = p
    fl = int(line.split(" ")[1])
    mo = run_lines(model, ["udp.mon %s %d %s" % (d.get("limit", "0"), mon_flags(fl), trace)], jobs=1)[0]
    if status in ("panic", "stuck", "steps"):
        return status
    mk = mo.split(" ")
    if mk[0] == "rej":
        return "rej " + mk[2]
    if d.get("fuzz") == "panic":
        return "fuzzpanic"
    return None


def shrink(impl, model, line, what, deadline):
    """Delta-debug the command string while the failure class stays the same."""
    f = line.split(" ")
    if f[3] == "-":
        return line
    cls = verdict_of(impl, model, line)
    if cls is None:
        return line
    cmds = parse_commands(bytes.fromhex(f[3]))

    def mk(cs):
        return "%s %s %s %s" % (f[0], f[1], f[2], (b"".join(cs) + b"\0\0").hex())
    n = 2
    while len(cmds) > 1 and time.time() < deadline:
        chunk = max(1, len(cmds) // n)
        changed = False
        i = 0
        while i < len(cmds) and time.time() < deadline:
            cand = cmds[:i] + cmds[i + chunk:]
            if cand and verdict_of(impl, model, mk(cand)) == cls:
                cmds = cand
                changed = True
            else:
                i += chunk
        if chunk == 1 and not changed:
            break
        if not changed:
            n *= 2
    return mk(cmds)
