"""Pipeline helpers for C31 (C++ generated serializers vs Go generated serializers).

Everything is built from $VERIF_REPO's working tree on every run:
  tlgen (legacy generator, --language=cpp) and tl2gen (--language=go) binaries,
  the C++ output for a schema + go/hcpp/driver.cpp compiled with g++ (codec units -O1, factory/meta/driver -O0; cached
  under .work/cppcache by a hash of all generated sources, the driver source and the compiler flags),
  the Go output for the same schema + go/hcpp/main.go inside a scratch module `verif.local/h`
  (replace github.com/VKCOM/tl => $VERIF_REPO, GOFLAGS=-mod=mod only there).
"""
import concurrent.futures
import hashlib
import json
import os
import re
import shutil
import subprocess
import time

from vlib.core import ROOT, REPO, WORK, Lock, goenv, run

CXX = "g++"
CXXFLAGS = ["-std=c++20", "-w", "-I."]
# generated codec units and the basictl runtime get -O1: at -O0 libstdc++'s vector::resize costs ~1 µs per element, so
# every inflated count between 2^20 and 2^26 would burn seconds of CPU; the big, purely declarative __factory/__meta
# units and the driver stay at -O0 (that is where the compile time goes)
OPT_CODEC = "-O1"
OPT_GLUE = "-O0"


def opt_for(unit):
    return OPT_GLUE if unit.startswith(("__factory", "__meta", "verif_driver")) else OPT_CODEC
CACHE = os.path.join(WORK, "cppcache")
CACHE_KEEP = 12


def split_combinators(text):
    """Split TL1 schema text into top-level items: combinators (ending with ';'), section markers
    (---types--- / ---functions---). Comments are dropped. Returns list of item strings."""
    text = re.sub(r"/\*.*?\*/", "", text, flags=re.S)
    lines = []
    for ln in text.split("\n"):
        i = ln.find("//")
        if i >= 0:
            # keep tlgen annotations out of the way; schemas in the repo have no '//' inside combinators
            ln = ln[:i]
        lines.append(ln)
    text = "\n".join(lines)
    items = []
    cur = ""
    i = 0
    while i < len(text):
        if text.startswith("---", i):
            j = text.find("---", i + 3)
            if j > 0:
                if cur.strip():
                    items.append(cur.strip())
                    cur = ""
                items.append(text[i:j + 3])
                i = j + 3
                continue
        ch = text[i]
        cur += ch
        if ch == ";":
            items.append(cur.strip())
            cur = ""
        i += 1
    if cur.strip():
        items.append(cur.strip())
    return items


def combinator_name(item):
    """Constructor name of a combinator, after optional @annotations."""
    toks = item.replace("\n", " ").split()
    for t in toks:
        if t.startswith("@"):
            continue
        return t.split("#")[0]
    return ""


def filter_schema(text, exclude_ns):
    """Drop combinators whose constructor lives in one of the excluded namespaces. Returns (text, dropped names)."""
    out = []
    dropped = []
    for it in split_combinators(text):
        if it.startswith("---"):
            out.append(it)
            continue
        nm = combinator_name(it)
        ns = nm.split(".")[0] if "." in nm else ""
        if ns in exclude_ns:
            dropped.append(nm)
            continue
        out.append(" ".join(it.split()))
    return "\n".join(out) + "\n", dropped


HELPERS = os.path.join("internal", "tlcodegen", "helpers_cpp_generated.go")
RUNTIME_DIR = os.path.join("pkg", "basictl_cpp")


def runtime_sync():
    """The C++ runtime that tlgen emits is a text copy of pkg/basictl_cpp/* embedded in helpers_cpp_generated.go by
    scripts/move-basictl-cpp.sh. Returns (per-file equality, helpers source re-synchronised with the working tree)."""
    src = open(os.path.join(REPO, HELPERS)).read()
    eq = {}
    out = src
    for m in re.finditer(r'm\["([^"]+)"\] = `(.*?)`\n', src, re.S):
        fn, emb = m.group(1), m.group(2)
        fp = os.path.join(REPO, RUNTIME_DIR, fn)
        cur = open(fp).read() if os.path.exists(fp) else None
        eq[fn] = cur == emb
        if cur is not None and cur != emb and "`" not in cur:
            out = out.replace(m.group(0), 'm["%s"] = `%s`\n' % (fn, cur))
    return eq, out


def build_generators(c, synced_helpers=None):
    """tlgen and tl2gen from the working tree. With `synced_helpers` (source text) tlgen is built with that file
    overlaid over helpers_cpp_generated.go, i.e. as if scripts/move-basictl-cpp.sh had been run."""
    bind = os.path.join(c.workdir, "bin")
    os.makedirs(bind, exist_ok=True)
    res = {}
    extra = []
    suffix = ""
    if synced_helpers is not None:
        hp = os.path.join(c.workdir, "helpers_cpp_generated.synced.go")
        open(hp, "w").write(synced_helpers)
        ov = os.path.join(c.workdir, "overlay-tlgen-synced.json")
        json.dump({"Replace": {os.path.join(REPO, HELPERS): hp}}, open(ov, "w"))
        extra = ["-overlay", ov]
        suffix = "-synced"
    for name in ("tlgen", "tl2gen"):
        p = os.path.join(bind, name + suffix)
        if os.path.exists(p):
            os.remove(p)
        rc, out = run(["go", "build"] + extra + ["-o", p, "./cmd/" + name], cwd=REPO, env=goenv())
        if rc != 0:
            c.build_failed(name, out)
        res[name] = p
    return res


def tree_hash(root, extra=b""):
    h = hashlib.sha256()
    h.update(extra)
    for dp, dn, fn in sorted(os.walk(root)):
        dn.sort()
        for f in sorted(fn):
            p = os.path.join(dp, f)
            h.update(os.path.relpath(p, root).encode() + b"\0")
            with open(p, "rb") as fh:
                h.update(fh.read())
            h.update(b"\0")
    return h.hexdigest()[:24]


def prune_cache():
    if not os.path.isdir(CACHE):
        return
    ents = [os.path.join(CACHE, e) for e in os.listdir(CACHE)]
    ents = [e for e in ents if os.path.isdir(e)]
    ents.sort(key=lambda e: os.path.getmtime(e), reverse=True)
    for e in ents[CACHE_KEEP:]:
        shutil.rmtree(e, ignore_errors=True)


def build_cpp(c, name, gens, schema_path, sdir):
    """Generate C++ for the schema, compile it together with the driver. Returns (driver argv or None, info)."""
    outdir = os.path.join(sdir, "cpp")
    shutil.rmtree(outdir, ignore_errors=True)
    t0 = time.time()
    rc, out = run([gens["tlgen"], "-language=cpp", "--cpp-generate-meta=true", "--cpp-generate-factory=true",
                   "--outdir=" + outdir, schema_path], env=goenv())
    info = {"schema": name, "tlgen_cpp_rc": rc}
    if rc != 0 or not os.path.isdir(outdir):
        info["error"] = "tlgen --language=cpp failed: " + out[-1500:]
        return None, info
    drv_src = os.path.join(ROOT, "go", "hcpp", "driver.cpp")
    shutil.copy(drv_src, os.path.join(outdir, "verif_driver.cpp"))
    units = []
    for dp, dn, fn in os.walk(outdir):
        for f in fn:
            if f.endswith(".cpp") and f != "main.cpp":
                units.append(os.path.relpath(os.path.join(dp, f), outdir))
    units.sort()
    rcv, ver = run([CXX, "--version"])
    flags = " ".join(CXXFLAGS) + " codec:" + OPT_CODEC + " factory/meta/driver:" + OPT_GLUE
    key = tree_hash(outdir, extra=(flags + ver.split("\n")[0]).encode())
    info.update({"cxx": ver.split("\n")[0], "flags": flags, "units": len(units), "cache_key": key})
    cdir = os.path.join(CACHE, key)
    binp = os.path.join(cdir, "driver")
    with Lock("cppcache-" + key):
        if os.path.exists(binp):
            os.utime(cdir, None)
            info["cache"] = "hit"
            info["gen_s"] = round(time.time() - t0, 1)
            return [binp], info
        os.makedirs(cdir, exist_ok=True)
        objdir = os.path.join(cdir, "obj")
        os.makedirs(objdir, exist_ok=True)

        def comp(u):
            o = os.path.join(objdir, u.replace("/", "_") + ".o")
            rc, out = run([CXX] + CXXFLAGS + [opt_for(u), "-c", u, "-o", o], cwd=outdir)
            return u, o, rc, out

        # biggest translation units first so that the tail is short
        units.sort(key=lambda u: -os.path.getsize(os.path.join(outdir, u)))
        objs = []
        errs = []
        with concurrent.futures.ThreadPoolExecutor(max_workers=os.cpu_count() or 4) as ex:
            for u, o, rc, out in ex.map(comp, units):
                objs.append(o)
                if rc != 0:
                    errs.append((u, out))
        if errs:
            info["error"] = "g++ failed on %s: %s" % (errs[0][0], "\n".join(
                l for l in errs[0][1].split("\n") if "error" in l)[:1500])
            info["failed_units"] = [u for u, _ in errs]
            shutil.rmtree(cdir, ignore_errors=True)
            return None, info
        rc, out = run([CXX, "-o", binp + ".tmp"] + sorted(objs))
        if rc != 0:
            info["error"] = "link failed: " + out[-1500:]
            shutil.rmtree(cdir, ignore_errors=True)
            return None, info
        os.rename(binp + ".tmp", binp)
        shutil.rmtree(objdir, ignore_errors=True)
        info["cache"] = "miss"
        info["compile_s"] = round(time.time() - t0, 1)
    prune_cache()
    return [binp], info


def build_go(c, name, gens, schema_path, sdir, bytes_versions=""):
    """Generate Go for the schema with tl2gen into a scratch module and build go/hcpp/main.go against it."""
    mod = os.path.join(sdir, "gomod")
    shutil.rmtree(os.path.join(mod, "gen"), ignore_errors=True)
    os.makedirs(os.path.join(mod, "hcpp"), exist_ok=True)
    cmd = [gens["tl2gen"], "--language=go", "--outdir=" + os.path.join(mod, "gen"), "--pkgPath=verif.local/h/gen/tl",
           "--generateRandomCode"]
    if bytes_versions:
        cmd.append("--generateByteVersions=" + bytes_versions)
    cmd.append(schema_path)
    rc, out = run(cmd, env=goenv())
    info = {"tl2gen_go_rc": rc}
    if rc != 0:
        info["error"] = "tl2gen --language=go failed: " + out[-1500:]
        return None, info
    with open(os.path.join(mod, "go.mod"), "w") as f:
        f.write("module verif.local/h\n\ngo 1.24.0\n\nrequire github.com/VKCOM/tl v0.0.0\n\n"
                "replace github.com/VKCOM/tl => %s\n" % REPO)
    shutil.copy(os.path.join(REPO, "go.sum"), os.path.join(mod, "go.sum"))
    shutil.copy(os.path.join(ROOT, "go", "hcpp", "main.go"), os.path.join(mod, "hcpp", "main.go"))
    binp = os.path.join(sdir, "hcpp-go")
    if os.path.exists(binp):
        os.remove(binp)
    env = goenv()
    env["GOFLAGS"] = "-mod=mod"
    rc, out = run(["go", "build", "-tags", "verif", "-o", binp, "./hcpp"], cwd=mod, env=env)
    if rc != 0:
        info["error"] = "go build of generated code + driver failed: " + out[-2000:]
        return None, info
    return [binp], info
