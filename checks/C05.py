"""C05 — JSON round trip and validity of generated Go code (DESIGN.md §4 C05)."""
from checks import codec_common as cc
from checks import codec_json as cj
from vlib.core import hx

MODULES = []
THEOREMS = []


def run(c):
    if MODULES:
        c.lean(MODULES, THEOREMS)
    model, scs = cj.setup(c)
    rng = c.rng
    per = 40 if c.thorough else 10
    for sc in scs:
        items = cc.link_items(sc)
        g = cj.GenJ(sc, rng.fork(), big=c.thorough)
        lines = []
        for inst, it in items:
            for boxed in (0, 1):
                if inst["kind"] == "union" and not boxed:
                    continue
                for _ in range(per):
                    b = g.value(inst["idx"], not boxed, [], 0)
                    lines.append("codec.xj %s %d %s %d %s" % (sc.sid, inst["idx"], inst["tlname"], boxed, hx(b)))
        lines = sorted(set(lines))
        res = c.tie("xj:" + sc.sid, lines, sc.impl, model, prefix=[sc.desc_line()])
        for l, a, _ in res:
            cj.oracle_c05(c, l, a)
    cj.debug_dump(c)
    c.extra["rule"] = "type-directed valid TL1 encodings per factory item × bare/boxed; distinct = distinct case line"
