"""C05 — JSON round trip and validity of generated Go code (DESIGN.md §4 C05)."""
from checks import codec_common as cc
from checks import codec_json as cj
from vlib.core import hx

MODULES = ['TLVerif.Props.C05']
SOURCES = ["TLVerif.Codec.Json", "TLVerif.Codec.JsonPrim", "TLVerif.Codec.JsonText", "TLVerif.Codec.JsonTextLemmas", "TLVerif.Codec.JsonLemmas", "TLVerif.Codec.JsonAlt",
           "TLVerif.Codec.Ops.Json"]
THEOREMS = ["TLVerif.Props.C05.json_valid", "TLVerif.Props.C05.json_numbers_wellformed", "TLVerif.Props.C05.float_empty_iff_zero_bits", "TLVerif.Props.C05.prim_roundtrip_neg_zero", "TLVerif.Props.C05.neg_zero_unmasked_field_roundtrips", "TLVerif.Props.C05.json_roundtrip_fails_at_nan_payload", "TLVerif.Props.C05.prim_roundtrip_bool", "TLVerif.Props.C05.prim_roundtrip_string_utf8", "TLVerif.Props.C05.prim_string_non_utf8_is_base64", "TLVerif.Props.C05.prim_float32_specials", "TLVerif.Props.C05.prim_float64_specials", "TLVerif.Props.C05.prim_roundtrip_string", "TLVerif.Props.C05.prim_roundtrip_uint", "TLVerif.Props.C05.prim_roundtrip_int", "TLVerif.Props.C05.dict_key_non_utf8_has_no_json"]


def run(c):
    c.lean(MODULES, THEOREMS, sources=SOURCES)
    model, scs = cj.setup(c)
    rng = c.rng
    per = 40 if c.thorough else 10
    for sc in scs:
        items = cc.link_items(sc)
        pre = [sc.desc_line()]
        if getattr(sc, "origin_tl2", False):
            vals = cj.tl2_origin_values(c, sc, items, rng, 2 * per)
            cj.tl2_origin_roundtrip(c, sc, model, vals)
            continue
        # phase 0: `{}` probes (finding F3: nil recursive pointer) and the fixed lines (witnesses of known findings + positions where
        # the guarded values are harmless)
        probes = cj.probe_lines(sc, items)
        skip = set()
        for l, a, mo in c.tie("probe:" + sc.sid, probes, sc.impl, model, prefix=pre):
            if a == "panic":
                skip.add(l.split(" ")[3])
                c.oracle_fail(l, "WriteJSON panics (nil pointer) on the value ReadJSON produced from `{}`: JSON round trip impossible for this type", l)
            elif a != mo:
                c.oracle_fail(l + " [probe answer]", "`{}` probe: implementation answers %s, model %s" % (a[:100], mo[:100]), l)
        rp = sorted({l for l in cj.replay_lines(c) if isinstance(l, str) and l.split(" ")[1:2] == [sc.sid]})
        for l, a, _ in c.tie("replay:" + sc.sid, rp, sc.impl, model, prefix=pre):
            if l.startswith("codec.xj "):
                cj.oracle_c05(c, l, a)
            elif a == "panic":
                c.oracle_fail(l, "generated code panics", l)
        fixed = cj.fixed_lines(sc)
        exp = {l: (e, n) for l, e, n in fixed}
        for l, a, mo in c.tie("fixed:" + sc.sid, sorted(exp), sc.impl, model, prefix=pre):
            e, note = exp[l]
            before = len(c.oracle_failures)
            cj.oracle_c05(c, l, a)
            failed = len(c.oracle_failures) > before
            if e != "ok" and not failed:
                c.notes.append("witness of known finding %s (%s) no longer fails: %s" % (e, note, l[:120]))
            if e != "ok" and failed and not cj.known_answer_ok(e, a, mo):
                # the witness line fails, but not the way the known finding describes: that is a different defect
                c.oracle_fail(l + " [answer differs from known finding %s]" % e,
                              "witness line of known finding %s now answers %s (model %s)" % (e, a[:100], mo[:100]), l)
            if e == "ok" and a != mo:
                c.oracle_fail(l, "implementation and model disagree on a fixed value (%s): %s vs %s" % (note, a[:100], mo[:100]), l)
            c.count("fixed:" + e + (":fails" if failed else ":passes"))
        # phase 1: random stream within the guard
        g = cj.GenJ(sc, rng.fork(), big=c.thorough)
        lines = []
        for inst, it in items:
            if inst["tlname"] in skip:
                c.count("skipped-type:" + inst["tlname"])
                continue
            for boxed in (0, 1):
                if inst["kind"] == "union" and not boxed:
                    continue
                for _ in range(per):
                    b = g.value(inst["idx"], not boxed, [], 0)
                    lines.append("codec.xj %s %d %s %d %s" % (sc.sid, inst["idx"], inst["tlname"], boxed, hx(b)))
        lines = sorted(set(lines) - set(exp))
        res = c.tie("xj:" + sc.sid, lines, sc.impl, model, prefix=pre)
        for l, a, _ in res:
            cj.oracle_c05(c, l, a)
    cj.debug_dump(c)
    c.extra["rule"] = ("phase 0: `{}` probe per struct item + fixed hand-built values (witnesses of the known findings and the positions where "
                       "-0.0 / NaN payloads / non-UTF-8 are harmless); phase 1: type-directed valid TL1 encodings per factory item × bare/boxed "
                       "(floats from bit-pattern classes, strings incl. invalid UTF-8, within the guard of json_roundtrip_partial); "
                       "every line: TL1 → WriteJSON → encoding/json.Valid → ReadJSON → JSON/TL1/TL2 re-encodings compared; distinct = distinct case line")
