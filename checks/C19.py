"""C19 — TL1 parser is total with in-range error positions (DESIGN.md §4 C19)."""
import re

from vlib.core import hx
from checks import syntaxgen as sg

MODULES = ["TLVerif.Props.C19"]
THEOREMS = ["TLVerif.Props.C19." + t for t in [
    "token_classes_distinct", "char_constants_agree", "panic_sites_census",
    "lexer_recombines", "lexer_no_panic", "lexer_terminates", "token_pos_in_range", "eof_token_last",
    "lex_error_pos_in_text",
    "parse_no_panic", "parse_terminates", "error_pos_in_text", "console_print_no_panic",
    "parse_total", "error_context_not_corrupted", "console_print_renders_error"]]

POS = re.compile(r"b=(\d+)\.(\d+)\.(\d+)\.(\d+) e=(\d+)\.(\d+)\.(\d+)\.(\d+) o=(\d+)\.(\d+)\.(\d+)\.(\d+)")


def unhex(s):
    return b"" if s == "-" else bytes.fromhex(s)


def oracle(c, l, a):
    """the property itself, on the implementation's answer for case line l"""
    f = l.split(" ")
    if f[0] not in ("syntax.parse", "syntax.lex", "syntax.cprint"):
        return
    text = unhex(f[2])
    if a == "panic" or a == "CRASH":
        c.oracle_fail(l, "parsing panicked on this text", l)
        return
    if a.startswith("err nopos"):
        c.oracle_fail(l, "parser returned an error without a position", l)
        return
    if f[0] == "syntax.cprint":
        return
    if a.startswith("err"):
        m = POS.search(a)
        if not m:
            c.oracle_fail(l, "unparseable error answer " + a[:80], l)
            return
        b, e = int(m.group(1)), int(m.group(5))
        if not (0 <= b <= e <= len(text)):
            c.oracle_fail(l, "error position %d..%d is not inside the text of length %d" % (b, e, len(text)), l)
        if "cp=panic" in a or "cpw=panic" in a:
            c.oracle_fail(l, "printing the error panicked", l)
    elif not a.startswith("ok"):
        c.oracle_fail(l, "neither a schema nor an error: " + a[:80], l)


def gen_lines(c, rng):
    lines = ["syntax.colors"]
    T = c.thorough
    g = sg.Gen(rng)
    flags = ["-", "-", "-", "-", "b", "d", "bd"]
    # (1) random valid-ish schemas under random layouts, and their single/double mutations
    for _ in range(6000 if T else 700):
        items = g.schema()
        txt = sg.layout(sg.schema_tokens(items, rng), rng)
        fl = rng.choice(flags)
        lines.append("syntax.parse %s %s" % (fl, hx(txt)))
        for _ in range(3 if T else 2):
            lines.append("syntax.parse %s %s" % (fl, hx(sg.mutate(txt, rng))))
            lines.append("syntax.parse %s %s" % (fl, hx(sg.token_mutate(txt, rng))))
        if rng.chance(1, 4):
            cut = rng.below(len(txt) + 1)
            lines.append("syntax.parse %s %s" % (fl, hx(txt[:cut])))
    # (2) token soups, lexer alone (both languages) and the parser
    for _ in range(12000 if T else 2500):
        fl = rng.choice(["-", "-", "b", "d", "2", "b2"])
        lines.append("syntax.lex %s %s" % (fl, hx(sg.token_soup(rng))))
        lines.append("syntax.parse %s %s" % (rng.choice(flags), hx(sg.token_soup(rng))))
    # (3) random bytes; all one- and a sample of two-byte texts; comments with random (in)valid UTF-8
    lines.append("syntax.parse - -")
    lines.append("syntax.lex - -")
    for b0 in range(256):
        lines.append("syntax.parse - %02x" % b0)
        lines.append("syntax.lex 2 %02x" % b0)
        lines.append("syntax.parse b %02x%02x" % (b0, rng.below(256)))
        lines.append("syntax.lex - 2f2f%02x%s0a" % (b0, hx(rng.bytes(rng.below(4))).replace("-", "")))
    for _ in range(20000 if T else 2500):
        lines.append("syntax.parse %s %s" % (rng.choice(flags), hx(rng.bytes(rng.below(14)))))
        body = bytearray()
        for _ in range(rng.below(6)):
            k = rng.below(8)
            if k == 0:
                body += rng.bytes(1)
            elif k == 1:
                body += "é".encode()
            elif k == 2:
                body += bytes([rng.choice([0xE0, 0xED, 0xEF, 0xF0, 0xF4, 0xC2, 0xC1, 0xF5]), rng.choice([0x80, 0x9F, 0xA0, 0xBF, 0x8F, 0x90]),
                               rng.choice([0x80, 0xBF, 0x7F, 0xC0])])
            elif k == 3:
                body += "\U0001F600".encode()[:rng.range(1, 4)]
            elif k == 4:
                body += b"\xef\xbf\xbd"
            else:
                body += bytes([rng.range(0x20, 0x7e)])
        lines.append("syntax.lex %s %s" % (rng.choice(["-", "2"]), hx(b"a // " + bytes(body) + rng.choice([b"", b"\n", b"\r\n", b"\rx"]))))
    # (4) repository schemas: chunks, mutated chunks, whole files
    chunks = sg.corpus_chunks(12)
    for (_, _, ch) in chunks:
        lines.append("syntax.parse - %s" % hx(ch))
    per = 12 if T else 2
    for (_, _, ch) in chunks:
        for _ in range(per):
            lines.append("syntax.parse - %s" % hx(sg.mutate(ch, rng, 1)))
            lines.append("syntax.parse - %s" % hx(sg.token_mutate(ch, rng)))
        if rng.chance(1, 3) or T:
            cut = rng.below(len(ch) + 1)
            lines.append("syntax.parse - %s" % hx(ch[:cut]))
            lines.append("syntax.lex - %s" % hx(ch[cut:]))
    for f in sg.corpus_files():
        data = open(f, "rb").read()
        if len(data) < (400000 if T else 60000):
            lines.append("syntax.parse - %s" % hx(data))
            lines.append("syntax.parse - %s" % hx(data.replace(b"\n", b"\r\n")))
    # (4b) directed boundary cases
    directed = [b"foo x:(tuple int 4294967294+1) = Foo;", b"foo x:(tuple int 4294967293+1) = Foo;", b"foo x:(tuple int 4294967295) = Foo;",
                b"foo x:(tuple int 4294967296) = Foo;", b"foo x:(tuple int (1+(2+3))+4) = Foo;", b"foo x:(tuple int 1+) = Foo;",
                b"foo x:(tuple int (1+int)) = Foo;", b"foo n:# x:n.4294967296?int = Foo;", b"foo n:# x:n.32?int = Foo;",
                b"# x:int = Foo;", b"#12345678 = Foo;", b"foo#1234567 = Foo;", b"foo#123456789 = Foo;", b"foo #12345678 = Foo;",
                b"---functions---\nfoo ? = Foo;", b"foo ? Foo;", b"foo ? = Foo", b"foo = _;", b"_ = Foo;", b"_foo = Foo;", b"__ = _;",
                b"foo x:% = Foo;", b"foo x:%(a) = Foo;", b"---functions---\nfoo = (a b);", b"---functions---\nfoo = %a b;",
                b"foo x:a<> = Foo;", b"foo x:a<b,> = Foo;", b"foo x:a<b c,d> = Foo;", b"foo x:a <b> = Foo;", b"foo x:(a) = Foo;",
                b"foo x:() = Foo;", b"foo x:((a b)) = Foo;", b"foo [ = Foo;", b"foo x:*[int] = Foo;", b"foo x:n*int = Foo;",
                b"foo x:(1+2)*[int] = Foo;", b"foo x:3* [ int ] = Foo;", b"foo {t:Type {n:#} = Foo;", b"foo {t:type} = Foo;",
                b"foo {:Type} = Foo;", b"foo {t Type} = Foo;", b"foo = Foo", b"foo = ;", b"foo = Foo t 1;", b"@ foo = Foo;",
                b"@read@write foo = Foo;", b"foo = a.b.c;", b"foo = A.B;", b"a.b.c = Foo;", b"foo x:!!int = Foo;", b"foo x:!n.0?int = Foo;",
                b"foo x : n . 0 ? int = Foo ;", b"foo => Foo;", b"foo = > Foo;", b"foo x:int //c\r\n y:int\r\n= Foo;//d\r\n\r\n//e\r\nbar = Bar;",
                b"\n\n// a\n\n// b\nfoo // c\n = Foo; // d\n // e\n---functions---\n//f\n", b"foo = Foo;;", b";", b"foo", b"foo =", b"---types---",
                b"---types------functions---", b"--", b"- --types---"]
    for d in directed:
        d = d.replace(b"\\n", b"\n").replace(b"\\r", b"\r")
        for fl in ("-", "b", "d"):
            lines.append("syntax.parse %s %s" % (fl, hx(d)))
    # (5) console rendering in full (not only its CRC) for a sample of failing texts
    for _ in range(600 if T else 150):
        items = g.schema(2)
        txt = sg.token_mutate(sg.layout(sg.schema_tokens(items, rng), rng), rng)
        lines.append("syntax.cprint - %s" % hx(txt))
    return lines


def run(c):
    c.facts(["Syntax"])
    c.lean(MODULES, THEOREMS, sources=["TLVerif.Syntax.Token", "TLVerif.Syntax.Lexer", "TLVerif.Syntax.Parser", "TLVerif.Syntax.PError",
                                      "TLVerif.Syntax.LexerLemmas", "TLVerif.Syntax.ParserLemmas"])
    model = c.model_exe()
    impl = c.harness("hsyntax", overlays={"internal/tlast/verif_hooks.go": c_overlay()})
    rng = c.rng
    c.trusted += ["go/hsyntax harness + in-package accessor overlay (positions, lexer alone); factgen constant/panic-site extraction",
                  "modelled, not verified: Go string slicing/indexing, strconv.ParseUint, utf8.DecodeRuneInString, strings.* helpers, "
                  "fmt, go-color escape sequences, hash/crc32 (sampled against the bitwise model)"]
    c.assumptions += ["strings.TrimSpace on comment texts is not modelled: comments are compared through their printable-ASCII projection",
                      "texts longer than a few kB are covered by the theorems and by whole repository files, random texts are short"]
    lines = []
    if c.replay:
        for f in c.replay.get("failures", []):
            if f.get("input"):
                lines.append(f["input"])
        for t in c.replay.get("broken_ties", []):
            lines.append(t["line"])
    lines += gen_lines(c, rng)
    res = c.tie("parse", lines, impl, model)
    for l, a, _ in res:
        oracle(c, l, a)
    c.extra["rule"] = ("lines: random type-directed TL1 schemas under random layouts + 1-2 byte/token mutations + truncations; token soups "
                       "(lexer alone in both languages, and parser); all 1-byte texts, random bytes, comments with crafted UTF-8; every "
                       "repository .tl cut into 12-line windows, mutated windows, whole files (LF and CRLF); distinct = distinct line text; "
                       "every line is a different input (non-trivial)")


def c_overlay():
    import os
    return os.path.join(os.path.dirname(os.path.dirname(os.path.abspath(__file__))), "go", "hsyntax", "overlay", "verif_hooks.go")
