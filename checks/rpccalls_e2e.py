"""End-to-end exploration shared by C38 and C39: real rpc.NewClient / rpc.NewServer over loopback TCP and Unix
sockets, with and without encryption, random concurrent call mixes, built with -race (go/hrpccalls_e2e).
This is search with the properties' oracle evaluated by the harness on real concurrent executions; it is not
part of the model tie and nothing here is a proof (stated as such in the manifest level_note)."""
import os
import subprocess
import threading

from vlib.core import goenv
from checks.rpccalls_common import e2e_harness, replay_lines


def scenarios(c, pid):
    rng = c.rng
    res = []
    combos = [("tcp", 0), ("unix", 0), ("tcp", 1), ("unix", 1)]
    if pid == "C38":
        n = 160 if c.thorough else 6
        for i in range(n):
            for net, cr in combos:
                mode = ["run", "run", "closeserver", "closeclient"][(i + rng.below(4)) % 4] if i >= 1 else "run"
                workers = rng.choice([1, 2, 3, 8, 0]) if rng.chance(1, 2) else rng.range(1, 6)
                clients = rng.range(1, 5)
                calls = rng.range(5, 40 if c.thorough else 24)
                res.append("rpccalls.e2e %d %s %d %d %d %d %s" % (rng.below(2 ** 40), net, cr, workers, clients, calls, mode))
        for i in range(24 if c.thorough else 4):
            net, cr = combos[i % 4]
            res.append("rpccalls.e2e %d %s %d 4 %d 1 fin" % (rng.below(2 ** 40), net, cr, rng.range(1, 3)))
    else:
        n = 120 if c.thorough else 5
        for i in range(n):
            for net, cr in combos:
                workers = rng.choice([1, 1, 2, 2, 3, 4])
                clients = rng.range(2, 8)
                calls = rng.range(8, 40 if c.thorough else 20)
                res.append("rpccalls.e2e %d %s %d %d %d %d run" % (rng.below(2 ** 40), net, cr, workers, clients, calls))
        for i in range(40 if c.thorough else 3):
            net, cr = combos[i % 4]
            res.append("rpccalls.e2e %d %s %d %d %d %d mem" % (rng.below(2 ** 40), net, cr, rng.range(2, 9), rng.range(3, 8), rng.range(3, 8)))
    return res


def run_chunk(cmd, lines, env, out, idx):
    p = subprocess.Popen(cmd, stdin=subprocess.PIPE, stdout=subprocess.PIPE, stderr=subprocess.PIPE, env=env)
    try:
        so, se = p.communicate(("\n".join(lines) + "\n").encode(), timeout=1500)
    except subprocess.TimeoutExpired:
        p.kill()
        so, se = p.communicate()
    res = so.decode(errors="replace").split("\n")
    if res and res[-1] == "":
        res.pop()
    out[idx] = (res, se.decode(errors="replace"), p.returncode)


def run_e2e(c, pid):
    impl = e2e_harness(c)
    lines = replay_lines(c, "rpccalls.e2e") + scenarios(c, pid)
    env = goenv()
    env["GORACE"] = "halt_on_error=1 exitcode=66"
    jobs = min(8, max(1, len(lines)))
    chunks = [lines[i::jobs] for i in range(jobs)]
    out = [None] * jobs
    ths = [threading.Thread(target=run_chunk, args=(impl, chunks[i], env, out, i)) for i in range(jobs)]
    for t in ths:
        t.start()
    for t in ths:
        t.join()
    nviol = 0
    for i in range(jobs):
        res, se, rc = out[i]
        for k, l in enumerate(chunks[i]):
            c.evaluations += 1
            a = res[k] if k < len(res) else "CRASH"
            mode = l.split(" ")[-1]
            c.count("rpccalls.e2e:%s:%s" % (mode, a.split(" ")[0]))
            if len(c.samples) < 12 and k == 0:
                c.samples.append({"tie": "e2e (search, no model side)", "line": l, "impl": a[:300], "model": "-"})
            if a.startswith("ok "):
                c.distinct.add(l)
                for kv in a.split(" ")[1:]:
                    k2, v = kv.split("=")
                    if k2 == "connunexp" and v != "0":
                        c.notes.append("e2e: %s calls of %r ended with a connection error although no side was closed "
                                       "(packet timeout under starvation); accepted as the calls' own failure" % (v, l))
                    if k2 in ("ok", "err", "timeout", "cancel", "conn", "connunexp", "n"):
                        c.count("rpccalls.e2e.calls:" + k2, int(v))
                continue
            if a.startswith("SKIP"):
                c.notes.append("e2e scenario skipped: " + a)
                continue
            if a == "CRASH":
                race = "DATA RACE" in se
                what = ("data race reported by the race detector" if race else "harness crashed (exit %s)" % rc) + \
                    " while running this scenario: " + " | ".join(x for x in se.split("\n") if x.strip())[:700]
                c.oracle_fail(l, what, l)
                nviol += 1
                break  # the process is gone; later lines of the chunk were not run
            c.oracle_fail(l, "end-to-end: " + a[:600], l)
            nviol += 1
    c.extra["e2e_rule"] = ("%d end-to-end scenarios (%s): random seeds x {tcp4 loopback, unix socket} x {no key, AES key + forced encryption} "
                           "x workers 0..8 x 1..9 clients x 5..40 concurrent calls each; call fates ok / handler error / slow / "
                           "client deadline (context or request extra) / client cancel; modes run, closeserver, closeclient, fin (graceful Server.Shutdown while calls are in flight that end by their local "
                           "deadline; CloseWait must return and later calls must complete), mem (request buffer size "
                           "2.4..8 MB, so a few small requests exhaust the 16 MB request-memory floor); harness built with -race, GORACE=halt_on_error=1" % (
                               len(lines), pid))
    return nviol
