"""End-to-end exploration shared by C38 and C39 (stub)."""


def run_e2e(c, pid):
    return
