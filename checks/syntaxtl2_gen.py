"""Generators shared by checks/C20.py and checks/C22.py (family Syntaxtl2): corpus of TL2 texts from the repository,
random bytes, token soups, mutations, and a type-directed random TL2 file generator with random layout/comments.
All randomness comes from the SplitMix64 passed in."""
import os
import re

from vlib.core import REPO, hx

OVERLAYS = {"internal/tlast/verif_hooks_tl2.go":
            os.path.join(os.path.dirname(os.path.dirname(os.path.abspath(__file__))), "go", "hsyntaxtl2", "overlay", "verif_hooks_tl2.go")}


def unhex(s):
    return b"" if s == "-" else bytes.fromhex(s)


def corpus():
    """(name, text) of every TL2 text found in the repository working tree: *.tl2 files and the raw-string snippets of
    the TL2 parser/lexer tests."""
    out = []
    for root, dirs, files in os.walk(REPO):
        dirs[:] = [d for d in dirs if d not in (".git", "node_modules")]
        for fn in sorted(files):
            if fn.endswith(".tl2"):
                p = os.path.join(root, fn)
                try:
                    out.append((os.path.relpath(p, REPO), open(p, "rb").read()))
                except OSError:
                    pass
    out.sort()
    for fn in ("internal/tlast/tlparser_tl2_code_test.go", "internal/tlast/tllexer_tl2_test.go",
               "internal/tlcodegen/test/tlgen_test.go", "internal/pure/kernel_test.go"):
        p = os.path.join(REPO, fn)
        if os.path.exists(p):
            src = open(p, encoding="utf-8", errors="replace").read()
            for i, m in enumerate(re.finditer(r"`([^`]*)`", src)):
                out.append(("%s#%d" % (fn, i), m.group(1).encode()))
    return out


LEXEMES = [b"a", b"b", b"x", b"foo", b"Bar", b"int", b"string", b"Type", b"Types", b"type", b"_", b"_x", b"_Dep1", b"__",
           b"ns.foo", b"ns.Bar", b"Ns.foo", b"a.b.c", b"a.", b".a", b"0", b"1", b"42", b"007", b"4294967295", b"4294967296",
           b"99999999999999999999999", b"1x", b"#", b"#12345678", b"#00000000", b"#0000000a", b"#1234567", b"#123456789",
           b"#1234567G", b"#deadbeef", b"#DEADBEEF", b"<", b">", b"[", b"]", b",", b":", b";", b"?", b"|", b"=", b"=>",
           b"<=>", b"<=", b"@a", b"@ab_c", b"@A", b"@", b"@1", b"// c", b"// c\n", b"//\n", b"// \xd0\xb6\xc2\xa0\n", b"//\xff\n",
           b"// x\xe2\x80\xa8\n", b"/", b"/*", b" ", b"  ", b"\t", b"\n", b"\n\n", b"\r\n", b"\r", b"(", b")", b"{", b"}", b"!",
           b"+", b"*", b"%", b"-", b"---types---", b"---functions---", b"--", b".", b"$", b"\x00", b"\xc3\xa9", b"\"", b"'"]

WORDS = [b"a", b"b", b"c", b"x", b"y", b"key", b"value", b"int", b"int32", b"uint32", b"string", b"bool", b"t", b"T", b"X",
         b"Foo", b"fooBar", b"foo_bar1", b"Maybe", b"vector", b"pair", b"resultTrue", b"Type", b"n", b"k", b"v"]


def random_bytes(rng):
    k = rng.below(4)
    n = rng.choice([0, 1, 2, 3, 4, 5, 8, 13, 21, 34, 60])
    if k == 0:
        return rng.bytes(n)
    if k == 1:
        return bytes(rng.range(32, 126) for _ in range(n))
    alpha = b"ab_AZ09 \n\t:;<>[]|=?#@/.,-\r()!"
    return bytes(alpha[rng.below(len(alpha))] for _ in range(n))


def token_soup(rng, maxlen=14):
    n = rng.range(0, maxlen)
    parts = []
    for _ in range(n):
        parts.append(rng.choice(LEXEMES))
        if rng.chance(1, 2):
            parts.append(rng.choice([b" ", b" ", b"\n", b"\t", b"", b"  "]))
    return b"".join(parts)


def near_valid_soup(rng):
    """token soup biased to the shapes the grammar accepts: name [magic] [<templ>] (=|<=>|fields =>) stuff ;"""
    sp = lambda: rng.choice([b"", b" ", b" ", b"\n", b" // c\n", b"\t"])
    w = lambda: rng.choice(WORDS)
    ty = lambda: rng.choice([b"int", b"[]int", b"[3]x", b"[k]v", b"m<a,b>", b"m<3>", b"a.b<[]c>", b"[", b"x<", b"x<>", b"[]", b"T"])
    out = []
    for _ in range(rng.range(1, 3)):
        if rng.chance(1, 3):
            out += [b"@", w(), sp()]
        out += [w(), sp()]
        if rng.chance(1, 2):
            out += [rng.choice([b"#1234abcd", b"#00000000", b"#", b"#12"]), sp()]
        if rng.chance(1, 3):
            out += [b"<", w(), rng.choice([b":", b": ", b""]), rng.choice([b"#", b"Type", b"type", b"int"]), rng.choice([b">", b",", b""]), sp()]
        for _ in range(rng.below(3)):
            out += [rng.choice([w(), b"_", b"_" + w()]), rng.choice([b"", b"?", b" ?"]), rng.choice([b":", b":", b"", b" : "]), ty(), sp()]
        out += [rng.choice([b"=", b"=>", b"<=>", b"=> <=>", b"", b"= |", b"|"]), sp()]
        for _ in range(rng.below(4)):
            out += [rng.choice([w(), ty(), b"|", b"| " + w(), w() + b":" + ty(), w() + b"?:" + ty(), b"_?:" + ty(), b":", b"?"]), sp()]
        out += [rng.choice([b";", b";", b";", b"", b";;"]), sp()]
    return b"".join(out)


def mutate(rng, t, n=None):
    t = bytearray(t)
    for _ in range(n or rng.range(1, 3)):
        k = rng.below(8)
        pos = rng.below(len(t) + 1)
        if k == 0 and t:
            del t[rng.below(len(t))]
        elif k == 1:
            t[pos:pos] = rng.choice(LEXEMES)
        elif k == 2 and t:
            t[rng.below(len(t))] = rng.below(256)
        elif k == 3 and t:
            a = rng.below(len(t))
            b = min(len(t), a + rng.range(1, 12))
            del t[a:b]
        elif k == 4 and t:
            a = rng.below(len(t))
            b = min(len(t), a + rng.range(1, 12))
            t[pos:pos] = t[a:b]
        elif k == 5:
            t = t[:pos]
        elif k == 6 and t:
            i = rng.below(len(t))
            t[i] = rng.choice(b";:|<>[],?=#_@ \n")
        else:
            t[pos:pos] = bytes([rng.choice(b";:|<>[],?=#_@/ \n\r\t")])
    return bytes(t)


# ---------------------------------------------------------------- type-directed generator


class Gen:
    """Random TL2 declarations as token lists, rendered with random layout. Only shapes the grammar accepts (the
    parser's quirks included: a multi-variant union needs `|` between variants, a one-variant union a leading `|`,
    a bare name as struct body is a union constructor, …) so that most outputs parse."""

    def __init__(self, rng, comments=True, wide=False, rare=6):
        self.rng = rng
        self.rare = rare  # 1/rare of the deprecated-name fields are kept (known finding of C22)
        self.comments = comments
        self.wide = wide

    def ident(self, upper=None):
        r = self.rng
        if r.chance(1, 12):
            n = r.range(8, 40) if self.wide else r.range(8, 20)
        else:
            n = r.range(1, 7)
        first = "abcdefghijklmnopqrstuvwxyz" if not (upper if upper is not None else r.chance(1, 4)) else "ABCDEFGHIJKLMNOPQRSTUVWXYZ"
        s = first[r.below(26)]
        alpha = "abcdefghijklmnopqrstuvwxyzABCDEFGHIJKLMNOPQRSTUVWXYZ0123456789_"
        for _ in range(n - 1):
            s += alpha[r.below(len(alpha))]
        if s == "Type":
            s = "Typ"
        return s

    def tname(self):
        r = self.rng
        if r.chance(1, 4):
            return self.ident(upper=False) + "." + self.ident()
        return self.ident()

    def number(self):
        r = self.rng
        if r.chance(1, 8):
            return r.choice(BOUNDARY_NUMBERS)
        return r.choice(["0", "1", "3", "16", "007", "4294967295", "2147483647", "2147483648", str(r.below(2 ** 32)),
                         str(r.below(100))])

    def typeref(self, depth=0):
        r = self.rng
        k = r.below(10)
        if depth >= 3:
            k = 0
        if k <= 4:
            return [self.tname()]
        if k <= 6:
            toks = [self.tname(), "<"]
            for i in range(r.range(1, 3)):
                if i:
                    toks.append(",")
                toks += [self.number()] if r.chance(1, 3) else self.typeref(depth + 1)
            return toks + [">"]
        toks = ["["]
        if k == 8:
            toks += [self.number()] if r.chance(1, 2) else self.typeref(depth + 1)
        toks.append("]")
        return toks + self.typeref(depth + 1)

    def field(self, allow_comments=True):
        r = self.rng
        toks = []
        if self.comments and allow_comments and r.chance(1, 8):
            toks.append(("cb", self.comment_text()))
        k = r.below(10)
        if k == 0:
            toks += ["_", ":"]
        elif k == 1 and r.chance(1, self.rare):
            toks += ["_" + self.ident(), ":"]
        elif k <= 3:
            toks += [self.ident(), "?", ":"]
        else:
            toks += [self.ident(), ":"]
        toks += self.typeref()
        if self.comments and allow_comments and r.chance(1, 10):
            toks.append(("cr", self.comment_text()))
        return toks

    def fields(self, lo=0, hi=5):
        toks = []
        for _ in range(self.rng.range(lo, hi)):
            toks += self.field()
        return toks

    def comment_text(self):
        r = self.rng
        body = r.choice([" c", "", " tlgen:tl1name:\"x\"", " ж utf8", " trailing space ", "\ttab", " nbsp ", "/ triple",
                         " a // b", " ; | : =>"])
        lines = ["//" + body]
        if r.chance(1, 4):
            lines.append("//" + r.choice([" second", "", " 2\t"]))
        return lines

    def variant(self, bar=True):
        """`| name …` (bar=False: the first variant of a union written without the leading bar). The comment of a variant
        is the one ABOVE its bar (between `=`/the previous variant and `|`), that is where the parser looks for it; a
        comment between the bar and the name is dropped by the parser and is generated more rarely."""
        r = self.rng
        toks = []
        if self.comments and r.chance(1, 5):
            toks.append(("cb", self.comment_text()))
        if bar:
            toks.append("|")
            if self.comments and r.chance(1, 25):
                toks.append(("cb", self.comment_text()))
        name = "Type" if r.chance(1, 30) else self.ident()
        toks.append(name)
        k = r.below(6)
        if k <= 1:
            pass
        elif k <= 3:
            toks += self.typeref()
        else:
            toks += self.fields(1, 4)
        return toks

    def struct_body(self, for_return=False):
        """tokens after `=` / `=>` (without alias forms)"""
        r = self.rng
        k = r.below(10)
        if k <= 4:
            fs = self.fields(0, 6)
            return fs
        if k <= 5:
            return self.variant()  # one-variant union: `| A …`
        toks = self.variant(bar=r.chance(1, 2))
        for _ in range(r.range(1, 4)):
            toks += self.variant()
        return toks

    def magic(self, required=False):
        r = self.rng
        if required or r.chance(1, 3):
            v = r.choice([1, 0xffffffff, 0x0000000a, r.below(2 ** 32) or 1])
            return ["#%08x" % v]
        return []

    def decl(self):
        r = self.rng
        toks = []
        if self.comments and r.chance(1, 4):
            toks.append(("cb0", self.comment_text()))
        for _ in range(r.choice([0, 0, 0, 1, 2])):
            toks.append("@" + self.ident(upper=False))
        if r.chance(1, 4):
            # function
            toks.append(self.tname())
            toks += self.magic(required=True)
            nargs = r.range(0, 4)
            for _ in range(nargs):
                toks += self.field(allow_comments=r.chance(1, 3))
            k = r.below(8)
            if k == 0 and nargs > 0:
                pass  # no `=>` at all
            else:
                toks.append("=>")
                if k <= 2:
                    toks += ["<=>"] + self.typeref()
                elif k <= 4:
                    toks += self.typeref()
                else:
                    toks += self.struct_body(True)
        else:
            toks.append(self.tname())
            toks += self.magic()
            if r.chance(1, 3):
                toks.append("<")
                for i in range(r.range(1, 3)):
                    if i:
                        toks.append(",")
                    toks += [self.ident(), ":", ("nospace",), r.choice(["#", "Type"])]
                toks.append(">")
            if r.chance(1, 4):
                toks += ["<=>"] + self.typeref()
            else:
                toks += ["="] + self.struct_body()
        toks.append(";")
        return toks

    def pad_to(self, toks, target):
        """lengthen one identifier so that the tight one-line rendering has `target` bytes (to straddle the 120/80
        line-breaking thresholds)"""
        cur = sum(len(t) for t in toks if isinstance(t, str)) + sum(1 for t in toks if isinstance(t, str))
        if cur >= target:
            return toks
        idx = [i for i, t in enumerate(toks) if isinstance(t, str) and re.fullmatch(r"[a-z][A-Za-z0-9_]*", t) and t != "Type"]
        if not idx:
            return toks
        i = self.rng.choice(idx)
        toks = list(toks)
        toks[i] = toks[i] + "x" * (target - cur)
        return toks

    def render(self, toks, tight=False):
        """token list -> text with random layout. ("cb", lines): comment lines before the next token; ("cr", lines):
        comment to the right; ("cb0", lines): comment before the combinator; ("nospace",): no separator."""
        r = self.rng
        out = []
        nosp = False
        glue = {"<", ">", ",", "[", "]", ":", "?", ";"}
        prev = None
        for t in toks:
            if isinstance(t, tuple):
                if t[0] == "nospace":
                    nosp = True
                    continue
                if t[0] == "cb0":
                    out.append("\n" if out else "")
                    for l in t[1]:
                        out.append(r.choice(["", " ", "\t"]) + l + r.choice(["\n", "\n", "\r\n"]))
                    prev = None
                    continue
                if t[0] == "cb":
                    out.append("\n")
                    for l in t[1]:
                        out.append(r.choice(["", "  ", "\t"]) + l + "\n")
                    out.append(r.choice(["", " ", "\t"]))
                    prev = None
                    continue
                if t[0] == "cr":
                    out.append(r.choice([" ", "", "\t"]) + t[1][0] + "\n")
                    prev = None
                    continue
            if prev is not None and not nosp:
                need = not (prev in glue or t in glue) or (prev == "=" and t == ">") or (prev == "<" and t == "=>") or \
                    (prev == "<" and t == "=")
                if prev == "=>" and t == "<=>":
                    need = False
                if prev[0] == "#" and len(prev) == 9 and t == "<":
                    need = False
                # `a<` is fine, `a <` too; `x:` `?:` fine
                if tight:
                    out.append(" " if need else "")
                else:
                    k = r.below(12)
                    if need or k < 3:
                        out.append(r.choice([" ", " ", " ", "  ", "\n", "\n\t", "\t", " \n  "]))
                    elif k == 3 and self.comments and t not in ("#", "Type"):
                        out.append(" // mid\n")
                    else:
                        out.append("")
            nosp = False
            out.append(t)
            prev = t
        return "".join(out)

    def file(self, n=None, tight=False):
        r = self.rng
        parts = []
        for _ in range(n if n is not None else r.range(1, 5)):
            parts.append(self.render(self.decl(), tight))
            parts.append(r.choice(["\n", "\n\n", " ", "", "\n// tail\n", " // right\n"]))
        return "".join(parts).encode("utf-8")

    def threshold_family(self, limit):
        """texts whose canonical one-line form has lengths limit-3 … limit+3"""
        toks = self.decl()
        res = []
        for d in range(-3, 4):
            res.append(self.render(self.pad_to(toks, limit + d + self.rng.below(3)), tight=True).encode("utf-8") + b"\n")
        return res


BOUNDARY_NUMBERS = ["0", "1", "2147483647", "2147483648", "4294967295", "4294967296", "4294967297", "9223372036854775807",
                    "9223372036854775808", "18446744073709551615", "18446744073709551616", "99999999999999999999",
                    "1" + "0" * 39, "9" * 40, "00", "007", "0004294967295", "0004294967296", "00000000000000000000001"]


def number_positions():
    """every boundary literal in every position where the grammar takes a number (array size `[N]T`, type argument
    `m<N>`, nested, in fields, aliases, function arguments/results, first and later union variants, one-variant union)"""
    out = []
    for n in BOUNDARY_NUMBERS:
        for t in ("a = x:[%s]int;", "a = x:m<%s>;", "a = x:m<int,%s>;", "a = x:m<%s,int> y:int;", "a <=> [%s]t;", "a <=> m<[%s]t>;",
                  "a = x:[][%s]m<k,[%s]v>;", "a<t:Type,n:#> = x:[n]t y:[%s]t;", "f#00000001 x:[%s]int => int;",
                  "f#00000001 => m<%s>;", "f#00000001 => <=> [%s]int;", "f#00000001 => x:m<%s>;", "a = A x:[%s]int | B;",
                  "a = A | B x:[%s]int;", "a = A | B [%s]t;", "a = A | B m<%s> | C;", "a = | A m<%s>;", "a = | A x:[%s]t;",
                  "a = x:[ %s ]int;", "a = x:m< %s >;", "a = x:m<\n%s // c\n>;", "a = x:int;\nb = y:[%s]int;\n"):
            out.append((t.replace("%s", n)).encode())
    return out


def comment_positions():
    """small declarations with a `//` comment in every comment position the parser knows (above a declaration, above a
    variant incl. the only variant of a one-variant union, above fields, to the right of fields, trailing), for type
    declarations and function results, each with bare / alias / fields variants."""
    bodies = {"bare": "A", "alias": "A int", "fields": "A x:int y:string", "field1": "A x:[]m<int,3>"}
    out = []
    for c in ("// the only variant", "// one\n\t// two", "//", "// ж utf8 ", "//\ttab\t"):
        c = c.replace("\\n", "\n").replace("\\t", "\t")
        for b in bodies.values():
            for head in ("a =", "a#0000000a<t:Type> =", "f#00000001 x:int =>", "f#00000001 =>"):
                out.append("%s\n\t%s\n\t| %s;\n" % (head, c, b))                      # above the only variant
                out.append("%s %s\n| %s;\n" % (head, c, b))                             # same line as `=`
                out.append("%s\n\t%s\n\t| %s\n\t%s\n\t| B;\n" % (head, c, b, c))     # above every variant
                out.append("%s\n\t%s\n\t%s | B;\n" % (head, c, b))                     # above the first, no leading bar
                out.append("%s | %s %s\n | B y:int;\n" % (head, b, c))                   # after a variant = above the next bar
                out.append("%s | %s\n\t\t%s\n\t\tz:int;\n" % (head, bodies["fields"], c))  # above a field of the only variant
        for head in ("a =", "f#00000001 =>", "f#00000001"):
            out.append("%s\n\t%s\n\tx:int\n\t%s\n\ty?:string;\n" % (head, c, c))    # above fields
            out.append("%s x:int %s\n y:string %s\n;\n" % (head, c, c))                # to the right of fields
        out.append("%s\n@x a = | A;\n%s\nb <=> int; %s\n" % (c, c, c))                  # above declarations, trailing
        out.append("a = | A; %s\n\n%s\n\n%s\nb = x:int;\n%s\n" % (c, c, c, c))
    return [t.encode("utf-8") for t in out]


def parse_line(t):
    return "syntaxtl2.parse " + hx(t)


def lex_line(t):
    return "syntaxtl2.lex " + hx(t)


def fmt_line(o, t):
    return "syntaxtl2.fmt %s %s" % (o, hx(t))
