"""Shared helpers of the rpccalls family (C38, C39): harness build, case generators, line parsers."""
import os

HERE = os.path.dirname(os.path.abspath(__file__))
ROOT = os.path.dirname(HERE)
OVL = os.path.join(ROOT, "go", "hrpccalls", "overlay")

OVERLAYS = {
    "pkg/rpc/verif_rpccalls.go": os.path.join(OVL, "verif_rpccalls.go"),
    "internal/vkgo/pkg/semaphore/verif_rpccalls_sem.go": os.path.join(OVL, "verif_rpccalls_sem.go"),
}


def inpkg_harness(c):
    return c.harness("hrpccalls", overlays=OVERLAYS)


def e2e_harness(c):
    return c.harness("hrpccalls_e2e", overlays=OVERLAYS, race=True)


def replay_lines(c, prefix):
    res = []
    if c.replay:
        for f in c.replay.get("failures", []):
            if f.get("input") and str(f["input"]).startswith(prefix):
                res.append(f["input"])
        for t in c.replay.get("broken_ties", []):
            if str(t.get("line", "")).startswith(prefix):
                res.append(t["line"])
    return res


def product(alpha, n):
    if n == 0:
        yield []
        return
    for p in product(alpha, n - 1):
        for a in alpha:
            yield p + [a]


def parse_steps(out):
    """'ev,ev#state|…' -> [(events list, state dict or None)], flag panic/bad at the end"""
    steps = []
    tail = None
    for s in out.split("|"):
        if s in ("panic", "bad", "bad-op", "CRASH"):
            tail = s
            break
        if "#" not in s:
            steps.append(([], {"raw": s}))
            continue
        ev, st = s.split("#", 1)
        d = {}
        for kv in st.split(";"):
            if "=" in kv:
                k, v = kv.split("=", 1)
                d[k] = v
        steps.append(([e for e in ev.split(",") if e], d))
    return steps, tail
