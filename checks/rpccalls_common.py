"""Shared helpers of the rpccalls family (C38, C39): harness build, case generators, line parsers."""
import os
import re

HERE = os.path.dirname(os.path.abspath(__file__))
ROOT = os.path.dirname(HERE)
OVL = os.path.join(ROOT, "go", "hrpccalls", "overlay")

OVERLAYS = {
    "pkg/rpc/verif_rpccalls.go": os.path.join(OVL, "verif_rpccalls.go"),
    "internal/vkgo/pkg/semaphore/verif_rpccalls_sem.go": os.path.join(OVL, "verif_rpccalls_sem.go"),
}


def inpkg_harness(c):
    return c.harness("hrpccalls", overlays=OVERLAYS)


def e2e_harness(c):
    return c.harness("hrpccalls_e2e", overlays=OVERLAYS, race=True)


def replay_lines(c, prefix):
    res = []
    if c.replay:
        for f in c.replay.get("failures", []):
            if f.get("input") and str(f["input"]).startswith(prefix):
                res.append(f["input"])
        for t in c.replay.get("broken_ties", []):
            if str(t.get("line", "")).startswith(prefix):
                res.append(t["line"])
    return res


def product(alpha, n):
    if n == 0:
        yield []
        return
    for p in product(alpha, n - 1):
        for a in alpha:
            yield p + [a]


def parse_steps(out):
    """'ev,ev#state|…' -> [(events list, state dict or None)], flag panic/bad at the end"""
    steps = []
    tail = None
    for s in out.split("|"):
        if s in ("panic", "bad", "bad-op", "CRASH"):
            tail = s
            break
        if "#" not in s:
            steps.append(([], {"raw": s}))
            continue
        ev, st = s.split("#", 1)
        d = {}
        for kv in st.split(";"):
            if "=" in kv:
                k, v = kv.split("=", 1)
                d[k] = v
        steps.append(([e for e in ev.split(",") if e], d))
    return steps, tail


def event_kind(e):
    m = re.match(r"^d\d+:([01]):\d+:(ok|re|se|ns|dl)", e)
    if m:
        return "deliver-%s-%s" % ("cb" if m.group(1) == "1" else "chan", m.group(2))
    m = re.match(r"^x\d+:\d+:([us])$", e)
    if m:
        return "cancelled-" + m.group(1)
    m = re.match(r"^(pr|pc|pf|cl|ret\d|gx|g|b|cc|a|t|q|z|w|x|r)", e)
    if m:
        return m.group(1)
    return e.split("=")[0][:8]


def compress_dist(c):
    """vlib's default histogram keys on the first word of the output; our outputs are one long word per history,
    so re-key the family's entries by outcome class, number of steps and kinds of events seen."""
    new = {}
    for k, v in c.dist.items():
        if not k.startswith("rpccalls.") or k.startswith("rpccalls.e2e"):
            new[k] = new.get(k, 0) + v
            continue
        op, out = k.split(":", 1)
        steps = out.split("|")
        tail = steps[-1] if steps[-1] in ("panic", "bad", "bad-op", "CRASH") else "ok"
        n = len(steps)
        bucket = "0-3" if n <= 3 else "4-7" if n <= 7 else "8-15" if n <= 15 else "16+"
        kk = "%s:%s:steps%s" % (op, tail, bucket)
        new[kk] = new.get(kk, 0) + v
        kinds = set()
        for st in steps:
            for e in st.split("#")[0].split(","):
                if e:
                    kinds.add(event_kind(e))
        for e in kinds:
            ek = "%s.event:%s" % (op, e)
            new[ek] = new.get(ek, 0) + v
    c.dist.clear()
    c.dist.update(new)
