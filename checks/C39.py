"""C39 — RPC server enforces worker and memory limits (DESIGN.md §4 C39).

Proof: Lean theorems over the models of workerPool (server_workerpool.go) and of the request-memory accounting
(server.go acquireRequestSema / releaseRequestBuf over a minimal semaphore model).
Tie: in-package differential run on a real workerPool (Get/Put/GC/Close with real blocking goroutines), on the
request-memory semaphore of a Server (real acquireRequestSema / releaseRequestBuf with real blocked acquirers)
and on NewServer's option handling.
Search (exploration): bursts of concurrent requests of random sizes against small limits, end-to-end, under -race.
"""
from checks.rpccalls_common import inpkg_harness, replay_lines, product, parse_steps, compress_dist
from checks import rpccalls_e2e

MODULES = ["TLVerif.Props.C39"]
THEOREMS = ["TLVerif.Props.C39." + t for t in [
    "pool_limit_configured", "busy_le_create", "get_blocks_when_full", "recheck_keeps_waiting_when_full",
    "admitted_only_below_limit", "put_then_recheck_admits", "closed_pool_admits_nothing",
    "reqmem_within_limit", "failed_acquire_releases_nothing", "cancelled_waiter_never_accounted", "admitted_requests_bounded", "admitted_only_if_fits", "not_fitting_waits", "requestBufTake_ge",
    "max_packet_fits_limit", "code_shape"]]


class PoolSim:
    """generator-side mirror of the pool, only used to choose *valid* Put arguments (never as an oracle)"""

    def __init__(self, create):
        self.create = max(1, create)
        self.free, self.busy, self.created, self.closed, self.waiting, self.next = [], [], 0, False, 0, 0

    def _take(self):
        if self.closed:
            return
        if self.free:
            self.busy.append(self.free.pop())
        else:
            self.created += 1
            self.busy.append(self.next)
            self.next += 1

    def ready(self):
        return self.closed or bool(self.free) or self.created < self.create

    def op(self, o):
        if o == "g":
            if self.ready():
                self._take()
            else:
                self.waiting += 1
        elif o == "k":
            if self.waiting and self.ready():
                self.waiting -= 1
                self._take()
        elif o == "X":
            self.created -= len(self.free)
            self.free = []
            self.closed = True
            self.waiting = 0
        elif o[0] == "c":
            if o == "c1" and self.free:
                self.free.pop(0)
                self.created -= 1
        elif o[0] == "p":
            w, e = o[1:].split(":")
            w = int(w)
            self.busy.remove(w)
            if self.closed:
                self.created -= 1
            else:
                if e == "1" and self.free:
                    self.free.pop(0)
                    self.created -= 1
                self.free.append(w)
                if self.waiting:
                    self.waiting -= 1
                    self._take()


def concretise(symbols, create):
    """symbols over g k X c0 c1 pL0 pL1 pH0 -> ops with worker ids; None if a put has no busy worker"""
    sim = PoolSim(create)
    ops = []
    for s in symbols:
        if s[0] == "p" and len(s) == 3:
            if not sim.busy:
                return None
            w = min(sim.busy) if s[1] == "L" else max(sim.busy)
            s = "p%d:%s" % (w, s[2])
        sim.op(s)
        ops.append(s)
    return ops


def gen_wp_random(rng, n, create):
    sim = PoolSim(create)
    ops = []
    for _ in range(n):
        r = rng.below(100)
        if r < 40:
            o = "g"
        elif r < 72 and sim.busy:
            o = "p%d:%d" % (rng.choice(sim.busy), 1 if rng.chance(1, 4) else 0)
        elif r < 80:
            o = "k"
        elif r < 90:
            o = rng.choice(["c0", "c1"])
        elif r < 93:
            o = "X"
        else:
            o = "g"
        sim.op(o)
        ops.append(o)
    return ops


def oracle_wp(c, line, out):
    f = line.split(" ")
    ops = f[2].split(",") if f[2] != "-" else []
    steps, tail = parse_steps(out)
    if tail in ("bad-op", "CRASH", "panic") or not steps or "raw" not in steps[0][1]:
        c.oracle_fail(line, "workerPool history not executable: %s" % out[-100:], line)
        return
    create = int(steps[0][1]["raw"].split("=")[1])
    want = max(1, int(f[1]))
    if create != want:
        c.oracle_fail(line, "workerPoolNew(%s) has limit %d, expected %d" % (f[1], create, want), line)
    busy = set()
    closed = False
    for i, op in enumerate(ops):
        if i + 1 >= len(steps):
            if tail != "bad":
                c.oracle_fail(line, "observation shorter than the history", line)
            return
        evs, st = steps[i + 1]
        full_before = len(busy) >= create
        if op[0] == "p":
            busy.discard(int(op[1:].split(":")[0]))
        for e in evs:
            if e[0] == "g" and e != "gx":
                w = int(e[1:].rstrip("n"))
                if len(busy) >= create:
                    c.oracle_fail(line, "worker %d handed out while %d handlers are busy (limit %d) at op %d (%s)" % (w, len(busy), create, i, op), line)
                if w in busy:
                    c.oracle_fail(line, "worker %d handed out twice" % w, line)
                busy.add(w)
                if closed:
                    c.oracle_fail(line, "closed pool handed out a worker", line)
        if op == "X":
            closed = True
        if op == "g" and not closed and full_before and "b" not in evs:
            c.oracle_fail(line, "Get returned although the pool was full (excess load admitted)", line)
        created = int(st["c"])
        nfree = len([x for x in st["f"].split("+") if x])
        if len(busy) > create or created > create:
            c.oracle_fail(line, "after op %d (%s): busy=%d created=%d exceed the worker limit %d" % (i, op, len(busy), created, create), line)
        if created != len(busy) + nfree:
            c.oracle_fail(line, "after op %d (%s): created=%d but busy=%d free=%d" % (i, op, created, len(busy), nfree), line)


def oracle_rm(c, line, out):
    f = line.split(" ")
    size, buf = int(f[1]), int(f[2])
    ops = f[3].split(",") if f[3] != "-" else []
    steps, tail = parse_steps(out)
    if tail in ("bad-op", "CRASH", "panic", "bad"):
        c.oracle_fail(line, "request-memory history not executable%s: %s" % (
            " — the server panicked (semaphore: released more than held): memory that was never acquired was given back" if tail == "panic" else "",
            out[-100:]), line)
        return
    held = {}
    want = {}
    for i, op in enumerate(ops):
        if i >= len(steps):
            c.oracle_fail(line, "observation shorter than the history", line)
            return
        evs, st = steps[i]
        if op[0] == "a":
            rid, body = op[1:].split(":")
            want[int(rid)] = max(int(body), buf)
        if op[0] == "k":  # a packet on its own connection, through the real receive loop: header.length counts the framing
            rid, body = op[1:].split(":")
            want[int(rid)] = max(int(body) + 16, buf)
        cur0 = sum(held.values())
        for e in evs:
            rid = int(e[1:])
            if e[0] in "aw":
                if cur0 + want[rid] > size:
                    c.oracle_fail(line, "request %d (%d bytes) admitted with %d bytes accounted, limit %d" % (rid, want[rid], cur0, size), line)
                held[rid] = want[rid]
                cur0 += want[rid]
            elif e[0] == "r":
                held.pop(rid, None)
                cur0 = sum(held.values())
            elif e[0] == "z" and want[rid] <= size:
                c.oracle_fail(line, "request %d reported as never admissible although it fits the limit" % rid, line)
        cur, sz = int(st["cur"]), int(st["size"])
        if sz != size or cur > size or cur < 0:
            c.oracle_fail(line, "after op %d (%s): accounted request memory %d outside [0, %d]" % (i, op, cur, size), line)
        if cur != sum(held.values()):
            c.oracle_fail(line, "after op %d (%s): the server accounts %d bytes of request memory (RequestsMemory), the admitted unreleased "
                          "requests (running handlers) hold %d%s" % (i, op, cur, sum(held.values()),
                                                                    ": a request that never got memory gave some back, the server will admit that much "
                                                                    "beyond the limit" if op[0] == "x" and cur < sum(held.values()) else ""), line)


def gen_rm_random(rng, n, size, buf, viaconn=False):
    ops = []
    nid = 1
    live = []
    for _ in range(n):
        r = rng.below(100)
        if r < 50 or not live:
            k = rng.below(10)
            body = rng.below(buf + 1) if k < 3 else (rng.range(1, max(1, size // 3)) if k < 8 else rng.range(size // 2, size + size // 4 + 2))
            if viaconn and rng.chance(2, 3) and body <= 1 << 20:
                ops.append("k%d:%d" % (nid, max(12, body // 4 * 4)))
            else:
                ops.append("a%d:%d" % (nid, body))
            live.append(nid)
            nid += 1
        elif r < 85:
            i = rng.choice(live)
            ops.append("r%d" % i)
            if rng.chance(2, 3):
                live.remove(i)
        else:
            ops.append("x%d" % rng.choice(live))
    return ops


def run(c):
    c.facts(["Rpccalls"])
    c.lean(MODULES, THEOREMS)
    model = c.model_exe()
    impl = inpkg_harness(c)
    rng = c.rng
    c.trusted += ["go/hrpccalls overlay driver (real goroutines block in workerPool.Get / semaphore.Acquire; the driver waits until "
                  "every one has returned or is parked, reading sync.Cond / waiter-list lengths); factgen constants and call-order facts",
                  "modelled, not verified: Go mutex/cond/channel semantics, container/list, time (worker gcTime pinned past/future), "
                  "bytes.MinRead = 512"]
    c.assumptions += ["handlers run only inside workers obtained from workerPool.Get and given back by Put (worker.run); with "
                      "MaxWorkers = 0 the pool is bypassed by design (handlers run on the receive goroutines) — outside the property",
                      "request memory is accounted only through acquireRequestSema/releaseRequestBuf (no ForceAcquire on reqMemSem in server.go: "
                      "call-order fact `code_shape`); the semaphore itself is restated minimally (C42 owns its full property)",
                      "the number of handlers *actually executing* and data-race freedom are runtime behaviour: explored end-to-end under -race, not proved"]
    lines = replay_lines(c, "rpccalls.wp") + replay_lines(c, "rpccalls.rm") + replay_lines(c, "rpccalls.srv")
    syms = ["g", "k", "X", "c0", "c1", "pL0", "pL1", "pH0"]
    maxlen = 5 if c.thorough else 4
    for create in (-1, 0, 1, 2, 3):
        top = maxlen + 1 if create in ((1, 2) if c.thorough else (2,)) else maxlen
        for n in range(0, top + 1):
            for p in product(syms, n):
                ops = concretise(p, create)
                if ops is not None:
                    lines.append("rpccalls.wp %d %s" % (create, ",".join(ops) or "-"))
    for i in range(20000 if c.thorough else 3000):
        create = rng.choice([1, 1, 2, 2, 3, 4, 5, 8, 0, -2])
        ops = gen_wp_random(rng, rng.range(4, 40) if rng.chance(3, 4) else rng.range(40, 150), create)
        lines.append("rpccalls.wp %d %s" % (create, ",".join(ops)))
    for bad in ("p0:0", "g,p1:0", "g,p0:0,p0:0", "g,p0:2", "g,q", "g,p0", "X,p0:0"):
        lines.append("rpccalls.wp 2 " + bad)
    # request memory: exhaustive small + random
    alpha = ["a1:4", "a2:7", "a3:2", "a4:11", "r1", "r2", "r3", "x2", "x3"]
    for n in range(0, (5 if c.thorough else 4) + 1):
        for p in product(alpha, n):
            # an id is acquired at most once per line
            if all(p.count(a) <= 1 for a in alpha[:4]):
                lines.append("rpccalls.rm 10 3 " + (",".join(p) or "-"))
    # the same through the real receive loop (k = packet on its own connection, x = that connection closed while the
    # request waits for memory, r = its handler returns)
    alphak = ["k1:12", "k2:24", "a3:30", "k4:100", "k5:12", "r1", "r2", "r3", "x2", "x4", "x5"]
    for n in range(0, (5 if c.thorough else 4) + 1):
        for p in product(alphak, n):
            if all(p.count(a) <= 1 for a in alphak[:5]):
                lines.append("rpccalls.rm 70 30 " + (",".join(p) or "-"))
    lines += ["rpccalls.rm 100 40 a1:90,k2:24,x2", "rpccalls.rm 100 40 k1:24,k2:44,a3:5,k4:20,x4,r1,k5:200,x2,r2,r3"]
    for i in range(15000 if c.thorough else 3000):
        size = rng.choice([64, 100, 1000, 4096, 100000])
        buf = rng.choice([0, 16, 28, size // 10 + 1, size // 3 + 1, size]) if rng.chance(1, 2) else rng.below(50)
        ops = gen_rm_random(rng, rng.range(3, 30), size, buf, viaconn=True)
        lines.append("rpccalls.rm %d %d %s" % (size, buf, ",".join(ops)))
    for i in range(15000 if c.thorough else 2500):
        size = rng.choice([1, 10, 64, 100, 1000, 4096, 16777215])
        buf = rng.choice([0, 1, size // 10 + 1, size // 3 + 1, size, size + 5]) if rng.chance(1, 2) else rng.below(min(size, 50) + 1)
        ops = gen_rm_random(rng, rng.range(3, 30), size, buf)
        lines.append("rpccalls.rm %d %d %s" % (size, buf, ",".join(ops)))
    # NewServer option handling
    for l in (-1, 0, 1, 16777214, 16777215, 16777216, 16777217, 268435456, 10 ** 9):
        for b in (-1, 0, 511, 512, 513, 4096, 100000):
            for w in (-5, -1, 0, 1, 2, 7, 1024, 5000):
                lines.append("rpccalls.srv %d %d %d" % (l, b, w))
    lines = list(dict.fromkeys(lines))
    res = c.tie("limits", lines, impl, model, nontrivial=lambda l, a: "g" in a or "a" in a or l.startswith("rpccalls.srv"))
    compress_dist(c)
    for l, a, _ in res:
        if a in ("bad-op",):
            continue
        if l.startswith("rpccalls.wp"):
            if a.endswith("|bad") and l.split(" ")[2] in ("p0:0", "g,p1:0", "g,p0:0,p0:0", "g,p0:2", "g,q", "g,p0", "X,p0:0"):
                continue
            oracle_wp(c, l, a)
        elif l.startswith("rpccalls.rm"):
            oracle_rm(c, l, a)
        elif l.startswith("rpccalls.srv"):
            f = l.split(" ")
            d = dict(kv.split("=") for kv in a.split(";")) if "=" in a else {}
            if not d or int(d["size"]) < 16777215 or int(d["create"]) < 1 or (int(f[3]) > 0 and int(d["create"]) != int(f[3])) \
                    or (int(f[1]) > 16777215 and int(d["size"]) != int(f[1])):
                c.oracle_fail(l, "NewServer does not configure the requested limits: %s" % a, l)
    rpccalls_e2e.run_e2e(c, "C39")
    c.extra["rule"] = ("workerPool: for create in {-1,0,1,2,3} every valid history of length <= %d (one more for limit 2%s) over {Get, spurious wake, Close, GC(expired/not), "
                       "Put(lowest/highest busy worker, oldest free expired/not)}, %d random histories (length 4..150, limits 1..8), malformed puts; "
                       "request memory: every history of length <= %d over 4 acquisitions/3 releases/2 cancellations at limit 10, %d random "
                       "histories over limits 1..16777215 with sizes around buffer size, limit/3, and above the limit; 504 NewServer option triples; "
                       "distinct = distinct line text; non-trivial = a worker was handed out / a request admitted. End-to-end: see e2e_rule." % (
                           maxlen, " and 1" if c.thorough else "", 20000 if c.thorough else 3000, 5 if c.thorough else 4, 15000 if c.thorough else 2500))
