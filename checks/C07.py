"""C07 — function result transcoders are mutually consistent (DESIGN.md §4 C07).

Tie: `codec.xr` = one generated transcoder ReadResult<SRC>WriteResult<DST> on one (function, request, payload), against
`TLVerif.Codec.transcode`.  Oracles on the implementation's answers (all of them, not only disagreeing lines):
  O1  every transcoder answer equals the typed path ReadResult<SRC>(…, &ret) + WriteResult<DST>(…, ret) (token `typed=`);
  O2  TL1 -> JSON -> TL1 gives back the consumed result bytes;        O3  TL1 -> TL2 -> TL1 likewise;
  O4  the two ways from TL1 to JSON (direct, via TL2) and to TL2 (direct, via JSON) agree;
  O5  a valid result is accepted by the TL1 source transcoders and exactly its bytes are consumed;
  O6  (TL2-origin functions) TL2 -> JSON -> TL2 -> JSON is stable.
A failure of O2–O4 is attributed to the inherited findings L2 (float -0.0 lost) / L3 (NaN payload lost) only when the exact
witness class matches: the model repairs exactly those floats in the decoded value (`codec.gr`: z / n / zn), the repaired bytes
differ from the original, and the same oracles pass on the implementation for the repaired bytes; for O3 the guard of
`result_tl1_tl2_tl1_partial` (`g2`) must be false as well.  The keys below name the defect (every seed meets it on different
inputs), the predicate just described is the exact class.
"""
from checks import codec_common as cc
from checks import codec_json as cj
from checks import codec_result as cr
from checks import codec_tl2 as t2
from vlib.core import hx, run_lines

MODULES = ["TLVerif.Props.C07"]
SOURCES = ["TLVerif.Codec.Result", "TLVerif.Codec.ResultLemmas", "TLVerif.Codec.Ops.Result"]
THEOREMS = ["TLVerif.Props.C07." + t for t in [
    "transcode_is_decode_then_encode", "transcode_tl1_json", "transcode_json_tl1", "transcode_tl1_tl2", "transcode_tl2_tl1",
    "transcode_tl2_json", "transcode_json_tl2", "transcode_without_tl2", "transcode_read_error", "transcode_tl1_of_tl2_origin",
    "result_args_from_request", "result_tl2_wrapper_roundtrip", "result_tl1_tl2_tl1_partial", "result_tl1_tl2_tl1_negzero_at",
    "result_tl1_json_tl1_partial", "json_roundtrips_at_bool", "result_tl1_json_tl1_bool",
    "result_tl1_json_tl1_neg_zero_roundtrips", "result_tl1_json_tl1_fails_at_nan_payload", "result_tl1_json_tl1_fails"]]

KEY_L2 = "C07:L2:float-negative-zero-lost-by-result-transcoders"
KEY_L3 = "C07:L3:nan-payload-lost-by-result-json-transcoders"
KEY_L4 = "C07:L4:length-sanity-check-rejects-valid-result-with-zero-size-elements"


class Case:
    """one valid TL1 result of one request: payload = result bytes (+ unread rest); `n` = length of the result when known"""

    def __init__(self, fn, req, payload, n=None, origin="gen"):
        self.fn, self.req, self.payload, self.n, self.origin = fn, req, payload, n, origin

    def key(self, sc, dst="json"):
        return cr.xr_line(sc, self.fn, self.req, "tl1", dst, self.payload)


def tl2_of(sc, fn):
    return bool(sc.tl2) and fn["hasTL2"]


def tie(c, sc, model, name, lines):
    lines = sorted(set(lines))
    res = c.tie(name + ":" + sc.sid, lines, sc.impl, model, prefix=cr.prefix(sc), canon=cr.canon)
    ans = {}
    mism = c.extra.setdefault("_mismatch", set())
    for l, a, b in res:
        ans[l] = a
        if cr.canon(a) != b:
            mism.add(l)
        f = l.split(" ")
        d = cr.parse(a)
        c.count("pair:%s>%s:%s" % (f[5], f[6], " ".join(cr.canon(a).split(" ")[:2]) if a.startswith("err") else a.split(" ")[0]))
        if a.split(" ")[0] in ("panic", "CRASH", "TIMEOUT"):
            c.oracle_fail(l, "generated result transcoder %s>%s panics / dies (%s)" % (f[5], f[6], a.split(" ")[0]), l)
        elif d.get("typed", "ok") != "ok":
            c.oracle_fail(l, "transcoder ReadResult%sWriteResult%s answers `%s` but the typed path ReadResult + WriteResult answers `%s`" % (
                f[5].upper(), f[6].upper(), cr.canon(a)[:120], d["typed"].replace("|", " ")[:120]), l)
    return ans


def evaluate(c, sc, model, cases, name, extra1=(), extra2=()):
    """Run the chains of O2–O5 for `cases`. Returns ({case index: [failure text]}, first-stage answers, second-stage lines built).
    `extra1` / `extra2`: more lines for the two tie batches (malformed inputs; covered by O1 only)."""
    l1 = list(extra1)
    for cs in cases:
        l1.append(cs.key(sc, "json"))
        if tl2_of(sc, cs.fn):
            l1.append(cs.key(sc, "tl2"))
    a1 = tie(c, sc, model, name + "-from-tl1", l1)
    l2 = list(extra2)
    plan = []
    fails = {}
    for i, cs in enumerate(cases):
        fl = fails.setdefault(i, [])
        aj = a1.get(cs.key(sc, "json"), "?")
        dj = cr.parse(aj)
        st = {"b": None}
        if dj["status"] != "ok":
            if cs.n is not None:
                fl.append("O5: a valid TL1 result is not transcoded to JSON (%s)" % cr.canon(aj)[:60])
        else:
            n = int(dj["consumed"])
            if cs.n is not None and n != cs.n:
                fl.append("O5: ReadResultTL1 consumed %d bytes of a %d-byte result" % (n, cs.n))
            st["b"] = cs.payload[:n]
            if "raw" in dj and not dj["out"].startswith("!"):
                raw = cr.unhex(dj["raw"])
                st["j1"] = cr.xr_line(sc, cs.fn, cs.req, "json", "tl1", raw)
                l2.append(st["j1"])
                if tl2_of(sc, cs.fn):
                    st["j2"] = cr.xr_line(sc, cs.fn, cs.req, "json", "tl2", raw)
                    l2.append(st["j2"])
            else:
                fl.append("JSON written for a valid TL1 result is not valid JSON (%s)" % dj.get("out", "?")[:40])
        if tl2_of(sc, cs.fn):
            a2 = a1.get(cs.key(sc, "tl2"), "?")
            d2 = cr.parse(a2)
            if d2["status"] != "ok":
                if cs.n is not None:
                    fl.append("O5: a valid TL1 result is not transcoded to TL2 (%s)" % cr.canon(a2)[:60])
            else:
                w2 = cr.unhex(d2["out"])
                st["w2"] = d2["out"]
                st["21"] = cr.xr_line(sc, cs.fn, cs.req, "tl2", "tl1", w2)
                st["2j"] = cr.xr_line(sc, cs.fn, cs.req, "tl2", "json", w2)
                l2 += [st["21"], st["2j"]]
                st["n2"] = len(w2)
        st["jout"] = dj.get("out")
        cs.lines = [cs.key(sc, "json"), cs.key(sc, "tl2")] + [st[k] for k in ("j1", "j2", "21", "2j") if k in st]
        plan.append(st)
    a2 = tie(c, sc, model, name + "-back", l2)
    for i, (cs, st) in enumerate(zip(cases, plan)):
        fl = fails[i]
        if st["b"] is None:
            continue
        want = hx(st["b"])
        if "j1" in st:
            d = cr.parse(a2.get(st["j1"], "?"))
            if d["status"] != "ok":
                fl.append("O2: JSON written by ReadResultTL1WriteResultJSON is not read back by ReadResultJSONWriteResultTL1 (%s)" % cr.canon(a2.get(st["j1"], "?"))[:40])
            elif d["out"] != want:
                fl.append("O2: TL1 -> JSON -> TL1 changes the result bytes: %s became %s" % (want[:80], d["out"][:80]))
        if "j2" in st:
            d = cr.parse(a2.get(st["j2"], "?"))
            if d["status"] != "ok" or d["out"] != st.get("w2"):
                fl.append("O4: TL1 -> JSON -> TL2 (%s) differs from TL1 -> TL2 (%s)" % (d.get("out", d["status"])[:60], str(st.get("w2"))[:60]))
        if "21" in st:
            d = cr.parse(a2.get(st["21"], "?"))
            if d["status"] != "ok":
                fl.append("O3: TL2 written by ReadResultTL1WriteResultTL2 is not read back by ReadResultTL2WriteResultTL1 (%s)" % cr.canon(a2.get(st["21"], "?"))[:40])
            elif d["out"] != want:
                fl.append("O3: TL1 -> TL2 -> TL1 changes the result bytes: %s became %s" % (want[:80], d["out"][:80]))
            elif int(d["consumed"]) != st["n2"]:
                fl.append("O3: ReadResultTL2 consumed %s of the %d bytes WriteResultTL2 wrote" % (d["consumed"], st["n2"]))
            d = cr.parse(a2.get(st["2j"], "?"))
            if d["status"] != "ok" or d["out"] != st["jout"]:
                fl.append("O4: TL1 -> TL2 -> JSON (%s) differs from TL1 -> JSON (%s)" % (d.get("out", d["status"])[:60], str(st["jout"])[:60]))
    return {i: f for i, f in fails.items() if f}, a1, a2


def classify(c, sc, model, cases, fails):
    """attribute round-trip failures to L2/L3 by counterfactual repair (see module docstring); everything else is a violation"""
    # a failure is attributed to an inherited finding only if the model predicted every answer of the chains involved
    mism = c.extra.get("_mismatch", set())
    tied = {i: not any(l in mism for l in getattr(cases[i], "lines", [])) for i in fails}
    idx = sorted(fails)
    # L4: a valid result refused with EOF only because of CheckLengthSanity (elements of 0 wire bytes): the model accepts exactly
    # these bytes once the descriptor is registered with --checkLengthSanity=false
    o5 = [i for i in idx if tied[i] and sc.sanity and cases[i].n is not None and all(f.startswith("O5: a valid") and "(err eof)" in f for f in fails[i])]
    if o5:
        ll = [cases[i].key(sc) for i in o5]
        for i, a in zip(o5, run_lines(model, ll, prefix=cr.prefix_nosanity(sc))):
            d = cr.parse(a)
            if d["status"] == "ok" and int(d["consumed"]) == cases[i].n:
                c.count("rt-fail:L4")
                c.oracle_fail(KEY_L4, "; ".join(fails[i]) + " [exact class: accepted as soon as the length sanity check is off]", cases[i].key(sc))
                del fails[i]
        idx = sorted(fails)
    gl = ["codec.gr %s %d %s %s %s" % (sc.sid, cases[i].fn["idx"], cases[i].fn["tlname"], hx(cases[i].req), hx(cases[i].payload)) for i in idx]
    ga = run_lines(model, gl, prefix=cr.prefix(sc)) if gl else []
    fixed, owner = [], []
    guard = {}
    for i, a in zip(idx, ga):
        d = cr.parse(a)
        guard[i] = d
        if d["status"] != "guard":
            continue
        if d.get("id", "werr") == "werr" or d["id"].startswith("!"):
            continue
        orig = cr.unhex(d["id"])        # the repaired encodings are compared with the re-encoding of the decoded value itself
        for k in ("z", "n", "zn"):
            if d.get(k, "werr") == "werr" or d[k].startswith("!"):
                continue
            b = cr.unhex(d[k])
            if b != orig and (k != "zn" or (d["z"] != d["zn"] and d["n"] != d["zn"])):
                fixed.append(Case(cases[i].fn, cases[i].req, b, len(b), "repair"))
                owner.append((i, k))
    f2 = {}
    if fixed:
        f2, _, _ = evaluate(c, sc, model, fixed, "repair")
    ok = {}
    for j, (i, k) in enumerate(owner):
        if j not in f2:
            ok.setdefault(i, []).append(k)
    for i in idx:
        cs = cases[i]
        what = "; ".join(fails[i])
        ks = ok.get(i, [])
        o3 = any(f.startswith("O3") for f in fails[i])
        g2 = guard[i].get("g2")
        line = cs.key(sc)
        c.count("rt-fail:" + (",".join(ks) or "unexplained") + ":g2=" + str(g2))
        if ks and tied[i] and not (o3 and g2 != "0") and not any(f.startswith("O5") for f in fails[i]):
            k = ks[0]
            key = KEY_L3 if k == "n" else KEY_L2
            c.oracle_fail(key, what + " [exact class: repairing the %s of the decoded value makes every chain agree]" % (
                {"z": "float -0.0", "n": "NaN payload", "zn": "float -0.0 and NaN payloads"}[k]), line)
            if k == "zn":
                c.oracle_fail(KEY_L3, what, line)
        else:
            c.oracle_fail(line, what, line)


def witnesses(sc):
    """fixed witnesses of the inherited findings, so that every run replays them: (function, request fields, result bytes)"""
    I = sc.desc["instances"]
    by = {i["tlname"]: i for i in cr.functions(sc)}
    out = []

    def tag(name):
        return by[name]["tag"].to_bytes(4, "little")

    def rtag(name):
        return I[by[name]["resultTy"]]["tag"].to_bytes(4, "little")
    if sc.sid in ("rf", "rfns"):
        z32, z64 = (0x80000000).to_bytes(4, "little"), (1 << 63).to_bytes(8, "little")
        one = (0x3FF0000000000000).to_bytes(8, "little")
        for name, body in [("rf.getDouble", z64), ("rf.getFloat", z32), ("rf.getPoint", z64 + z32), ("rf.getPoint", one + (0x7FC00001).to_bytes(4, "little")),
                           ("rf.getDouble", (0x7FF8000000000000).to_bytes(8, "little")), ("rf.getPoint", one + z32)]:
            if name in by:
                fn = by[name]
                req = tag(name) + (b"\x07\x00\x00\x00" if fn.get("fields") else b"")
                out.append(Case(fn, req, rtag(name) + body, 4 + len(body), "witness"))
        # C05's F1 (dictionary key that is not UTF-8: the JSON written is not JSON) and F2 (key that JSON escapes is read back raw)
        if "rf.getDict" in by:
            fn = by["rf.getDict"]
            for key in (b"\x01\xff\x00\x00", b"\x02q\"\x00"):
                body = b"\x01\x00\x00\x00" + key + b"\x05\x00\x00\x00"
                out.append(Case(fn, tag("rf.getDict") + b"\x07\x00\x00\x00", rtag("rf.getDict") + body, 4 + len(body), "witness"))
    return out


def explore(c, sc, model, rng, per_req, per_val, replay):
    fns = cr.functions(sc)
    I = sc.desc["instances"]
    c.count("functions:" + sc.sid, len(fns))
    rq = cr.ReqGen(sc, rng.fork())
    rg = cr.ResGenSorted(sc, rng.fork(), big=c.thorough)
    rgw = cr.ResGenSorted(sc, rng.fork(), big=c.thorough, wild=True)
    g2 = cr.Gen2Plain(sc, rng.fork(), big=c.thorough)
    cases, extra1, extra2 = [], [], []
    rnd = []
    origin2 = []
    for fn in fns:
        if fn["originTL2"]:
            origin2.append(fn)
            continue
        for _ in range(per_req):
            req, na = rq.request(fn)
            for k in range(per_val):
                gen = rgw if k % 3 == 2 else rg
                b = gen.value(fn["resultTy"], False, na, 0)
                rest = rng.bytes(rng.range(1, 5)) if rng.chance(1, 4) else b""
                cases.append(Case(fn, req, b + rest, len(b)))
                m = cc.mutate(rng, b) if sc.sanity else b[:rng.below(len(b) + 1)]
                extra1.append(cr.xr_line(sc, fn, req, "tl1", "json", m))
                if tl2_of(sc, fn):
                    extra1.append(cr.xr_line(sc, fn, req, "tl1", "tl2", cc.mutate(rng, b) if sc.sanity else b[:rng.below(len(b) + 1)]))
                    # TL2 results in non-minimal forms and malformed, whatever the request says about sizes
                    v = g2.value(fn["resultTy"])
                    w = cr.wrap2(g2, fn["resultTy"], v, t2.Style(rng.fork(), p=rng.choice([3, 6])) if rng.chance(1, 2) else None)
                    for dst in ("tl1", "json"):
                        extra2.append(cr.xr_line(sc, fn, req, "tl2", dst, w))
                        extra2.append(cr.xr_line(sc, fn, req, "tl2", dst, t2.mutate2(rng, w)))
            for _ in range(max(1, per_val // 2)):
                rnd.append(("codec.xrr %s %d %s %s %d" % (sc.sid, fn["idx"], fn["tlname"], hx(req), rng.below(2 ** 40)), fn, req))
            # a request the function's reader rejects
            extra1.append(cr.xr_line(sc, fn, req[:rng.below(len(req))] if len(req) > 4 else b"\x01\x02\x03\x04", "tl1", "json", b"\x00" * 8))
    for (l, fn, req), a in zip(rnd, cr.impl_only(sc, [l for l, _, _ in rnd])):
        c.count("codec.xrr:" + a.split(" ")[0])
        if a.startswith("ok ") and a != "ok werr":
            b = cr.unhex(a[3:])
            cases.append(Case(fn, req, b, len(b), "fillrandom"))
        elif a in ("panic", "CRASH", "TIMEOUT"):
            c.count("fillrandom-result-dies:" + fn["tlname"])      # FillRandom's own defects are C18's subject: no value obtained
    cases += witnesses(sc)
    for l in replay:
        f = l.split(" ")
        if f[0] == "codec.xr" and f[1] == sc.sid and len(f) == 8:
            fn = I[int(f[2])]
            if f[5] == "tl1" and f[4] != "-":
                cases.append(Case(fn, cr.unhex(f[4]), cr.unhex(f[7]), None, "replay"))
            (extra1 if f[5] == "tl1" else extra2).append(l)
    fails, a1, a2 = evaluate(c, sc, model, cases, "rt", extra1, extra2)
    # JSON inputs in alternative / invalid forms (the documented rewrites of C06 applied to what the implementation wrote)
    rw = cj.Rewriter(sc, rng.fork())
    l3 = []
    seen_fn = {}
    for cs in cases:
        if seen_fn.get(cs.fn["idx"], 0) >= (6 if c.thorough else 3):
            continue
        d = cr.parse(a1.get(cs.key(sc, "json"), "?"))
        if d["status"] != "ok" or d["out"].startswith("!"):
            continue
        seen_fn[cs.fn["idx"]] = seen_fn.get(cs.fn["idx"], 0) + 1
        try:
            tree = cj.parse_dump(d["out"])
            na = cs_na(sc, cs)
            rs = rw.walk(cs.fn["resultTy"], na, tree)
        except Exception as e:      # the rewriter is a generator aid: a shape it does not know is skipped, not judged
            c.count("rewriter-skip")
            continue
        rng.shuffle(rs)
        for rule, expect, t in rs[:(8 if c.thorough else 4)]:
            if rule.endswith("_legacy_mode") or not isinstance(t, tuple):
                continue
            text = cj.to_text(t, rng if rng.chance(1, 3) else None)
            l3.append(cr.xr_line(sc, cs.fn, cs.req, "json", "tl1", text))
            if tl2_of(sc, cs.fn):
                l3.append(cr.xr_line(sc, cs.fn, cs.req, "json", "tl2", text))
            c.count("json-rule:" + rule)
    for fn in fns:
        if not fn["originTL2"]:
            for text in (b"", b"{", b"nul", b"[1,", b"{}", b"[]", b"0", b"\"\"", b"true"):
                l3.append(cr.xr_line(sc, fn, fn["tag"].to_bytes(4, "little") + b"\x00" * 64, "json", "tl1", text))
    if l3:
        tie(c, sc, model, "json-forms", l3)
    if fails:
        classify(c, sc, model, cases, fails)
    if origin2:
        explore_tl2_origin(c, sc, model, rng, origin2, per_req * per_val)
    return len(cases)


def cs_na(sc, cs):
    """nat arguments of the result, recomputed from the request bytes (requests hold `#` fields at fixed offsets only when every
    earlier field is a `#` too; otherwise the rewriter gets zeros, which only makes its size-dependent rules miss)"""
    fn = cs.fn
    I = sc.desc["instances"]
    vals, pos = [], 4
    for f in fn.get("fields") or []:
        t = I[f["ty"]]
        if t["kind"] == "prim" and t["prim"] in ("uint32", "int32") and not f.get("mask") and pos is not None and pos + 4 <= len(cs.req):
            vals.append(int.from_bytes(cs.req[pos:pos + 4], "little"))
            pos += 4
        else:
            vals.append(0)
            pos = None
    res = []
    for a in fn.get("resultNatArgs") or []:
        res.append(a["v"] if a["k"] == "num" else (vals[a["v"]] if a["k"] == "field" and a["v"] < len(vals) else 0))
    return res


def explore_tl2_origin(c, sc, model, rng, fns, per):
    """TL2-origin functions: no TL1 result code (every TL1 transcoder must fail); O6 on TL2 <-> JSON"""
    g2 = cr.Gen2Plain(sc, rng.fork(), big=c.thorough)
    l1, start = [], []
    for fn in fns:
        for _ in range(per):
            v = g2.value(fn["resultTy"])
            st = t2.Style(rng.fork(), p=rng.choice([3, 6])) if rng.chance(1, 2) else None
            if fn.get("isResultAlias"):
                w = g2.enc(fn["resultTy"], v, False, st) or b""
            else:
                w = cr.wrap2(g2, fn["resultTy"], v, st)
            ln = cr.xr_line(sc, fn, None, "tl2", "json", w)
            l1.append(ln)
            start.append((fn, ln))
            l1.append(cr.xr_line(sc, fn, None, "tl2", "json", t2.mutate2(rng, w)))
            l1.append(cr.xr_line(sc, fn, None, "tl2", "tl1", w))
            l1.append(cr.xr_line(sc, fn, None, "tl1", "json", w))
            l1.append(cr.xr_line(sc, fn, None, "tl1", "tl2", w))
    a1 = tie(c, sc, model, "o2-tl2-json", l1)
    for l, a in a1.items():
        f = l.split(" ")
        if "tl1" in (f[5], f[6]) and a.startswith("ok"):
            c.oracle_fail(l, "a TL1 result transcoder of a TL2-origin function succeeds", l)
    chain = {}
    for fn, ln in start:
        d = cr.parse(a1.get(ln, "?"))
        if d["status"] == "ok" and "raw" in d and not d["out"].startswith("!"):
            chain[ln] = {"fn": fn, "j1": d["out"], "l2": cr.xr_line(sc, fn, None, "json", "tl2", cr.unhex(d["raw"]))}
        elif d["status"] == "ok":
            c.oracle_fail(ln, "JSON written by ReadResultTL2WriteResultJSON is not valid JSON", ln)
    a2 = tie(c, sc, model, "o2-json-tl2", [s["l2"] for s in chain.values()])
    for ln, s in chain.items():
        d = cr.parse(a2.get(s["l2"], "?"))
        if d["status"] != "ok":
            c.oracle_fail(ln, "O6: JSON written by ReadResultTL2WriteResultJSON is rejected by ReadResultJSONWriteResultTL2 (%s)" % cr.canon(a2.get(s["l2"], "?"))[:40], ln)
            continue
        s["w2"] = d["out"]
        s["l3"] = cr.xr_line(sc, s["fn"], None, "tl2", "json", cr.unhex(d["out"]))
    a3 = tie(c, sc, model, "o2-tl2-json-again", [s["l3"] for s in chain.values() if "l3" in s])
    l4 = {}
    for ln, s in chain.items():
        if "l3" not in s:
            continue
        d = cr.parse(a3.get(s["l3"], "?"))
        if d["status"] != "ok" or d["out"] != s["j1"]:
            c.oracle_fail(ln, "O6: TL2 -> JSON -> TL2 -> JSON changes the JSON: %s became %s" % (s["j1"][:80], d.get("out", d["status"])[:80]), ln)
        elif "raw" in d:
            l4[cr.xr_line(sc, s["fn"], None, "json", "tl2", cr.unhex(d["raw"]))] = (ln, s["w2"])
    a4 = tie(c, sc, model, "o2-json-tl2-again", list(l4))
    for l, (ln, w2) in l4.items():
        d = cr.parse(a4.get(l, "?"))
        if d["status"] != "ok" or d["out"] != w2:
            c.oracle_fail(ln, "O6: JSON -> TL2 is not stable after one TL2 -> JSON -> TL2 round: %s became %s" % (w2[:80], d.get("out", d["status"])[:80]), ln)


def run(c):
    c.lean(MODULES, THEOREMS, sources=SOURCES)
    model, schemas = cr.setup(c)
    rng = c.rng
    per_req, per_val = (6, 6) if c.thorough else (3, 3)
    replay = [l for l in cj.replay_lines(c) if isinstance(l, str)]
    ncases = 0
    for sc in schemas:
        big = len(cr.functions(sc)) > 40
        ncases += explore(c, sc, model, rng, max(1, per_req // 2) if big else per_req, per_val, replay)
    c.extra.pop("_mismatch", None)
    c.extra["result_cases"] = ncases
    c.extra["schemas"] = [{"sid": s.sid, "tl2": s.tl2, "sanity": s.sanity, "functions": len(cr.functions(s))} for s in schemas]
    cj.debug_dump(c)
    c.extra["rule"] = ("per function of every schema: requests (type-directed; `#` fields that shape the result kept small) x result values (type-directed TL1 at the "
                       "result type with the nat arguments of the request, in and — one third — outside the float guard; FillRandomResultTL1 of the generated code; "
                       "fixed witnesses of the inherited findings); every value goes TL1->JSON, TL1->TL2 and back through all four other transcoders; malformed stream: "
                       "mutated TL1/TL2 results, TL2 results in admissible non-minimal forms and of sizes contradicting the request, JSON in the documented alternative "
                       "and invalid forms, broken JSON texts, rejected requests. distinct = distinct case line")
    c.assumptions += ["the JSON text layer is tied, not proved: the implementation's JSON text is compared as a token tree (encoding/json tokenizer) with the model's tree; "
                      "the model reads JSON texts with its own parser (JsonText.parseJson)",
                      "[]byte variants of the generated code, long-ID adapters and `!`-wrapped fetchers are not covered",
                      "per-schema statements are 'for every schema explored in this run'"]
