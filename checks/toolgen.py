"""Shared helpers of the `tool` family checks (C14, C15, C16, C24): CLI builds, hex text, small schema generators.
Helper module (not part of vlib); every random choice comes from the SplitMix64 passed in."""
import os
import subprocess

from vlib.core import REPO, goenv, run, run_lines, Lock

FILE_MARKER = "//--file--\n"


def hxt(s):
    return s.encode().hex() if s else "-"


def build_clis(c):
    """Build cmd/tl2gen and cmd/tlgen from the working tree under verification. Returns env additions."""
    bindir = os.path.join(c.workdir, "bin")
    os.makedirs(bindir, exist_ok=True)
    res = {}
    for name in ("tl2gen", "tlgen"):
        out = os.path.join(bindir, name)
        if os.path.exists(out):
            os.remove(out)
        rc, o = run(["go", "build", "-o", out, "./cmd/" + name], cwd=REPO, env=goenv())
        if rc != 0:
            c.build_failed(name, o)
        res["VERIF_" + name.upper()] = out
    return res


def overlays():
    """In-package hooks every build of the htool harness needs."""
    from vlib.core import ROOT
    return {"internal/puregen/gengo/verif_hooks.go": os.path.join(ROOT, "go", "htool", "overlay", "gengo_verif_hooks.go")}


def harness_env(c, extra=None):
    e = goenv()
    tmp = os.path.join(c.workdir, "tmp")
    os.makedirs(tmp, exist_ok=True)
    e["VERIF_TMP"] = tmp
    e["VERIF_REPO_DIR"] = REPO
    if extra:
        e.update(extra)
    return e


def replay_lines(c):
    out = []
    if c.replay:
        for f in c.replay.get("failures", []):
            if f.get("input"):
                out.append(f["input"])
        for t in c.replay.get("broken_ties", []):
            out.append(t["line"])
    return out


def helper(impl, lines, env, jobs=None):
    """Run harness lines that have no model counterpart (helper queries / exploration)."""
    return run_lines(impl, lines, env=env, jobs=jobs)
