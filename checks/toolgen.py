"""Shared helpers of the `tool` family checks (C14, C15, C16, C24): CLI builds, hex text, small schema generators.
Helper module (not part of vlib); every random choice comes from the SplitMix64 passed in."""
import os
import subprocess

from vlib.core import REPO, goenv, run, run_lines, Lock

FILE_MARKER = "//--file--\n"


def hxt(s):
    return s.encode().hex() if s else "-"


def build_clis(c):
    """Build cmd/tl2gen and cmd/tlgen from the working tree under verification. Returns env additions."""
    bindir = os.path.join(c.workdir, "bin")
    os.makedirs(bindir, exist_ok=True)
    res = {}
    for name in ("tl2gen", "tlgen"):
        out = os.path.join(bindir, name)
        if os.path.exists(out):
            os.remove(out)
        rc, o = run(["go", "build", "-o", out, "./cmd/" + name], cwd=REPO, env=goenv())
        if rc != 0:
            c.build_failed(name, o)
        res["VERIF_" + name.upper()] = out
    return res


def overlays():
    """In-package hooks every build of the htool harness needs."""
    from vlib.core import ROOT
    return {"internal/puregen/gengo/verif_hooks.go": os.path.join(ROOT, "go", "htool", "overlay", "gengo_verif_hooks.go"),
            "internal/tlcodegen/verif_htool_hooks.go": os.path.join(ROOT, "go", "htool", "overlay", "tlcodegen_verif_hooks.go")}


def harness_env(c, extra=None):
    e = goenv()
    tmp = os.path.join(c.workdir, "tmp")
    os.makedirs(tmp, exist_ok=True)
    e["VERIF_TMP"] = tmp
    e["VERIF_REPO_DIR"] = REPO
    if extra:
        e.update(extra)
    return e


def replay_lines(c):
    out = []
    if c.replay:
        for f in c.replay.get("failures", []):
            if f.get("input"):
                out.append(f["input"])
        for t in c.replay.get("broken_ties", []):
            out.append(t["line"])
    return out


def helper(impl, lines, env, jobs=None):
    """Run harness lines that have no model counterpart (helper queries / exploration)."""
    return run_lines(impl, lines, env=env, jobs=jobs)


def scratch_module(c):
    """Scratch Go module for building generated code: `replace github.com/VKCOM/tl => $VERIF_REPO`, go.sum copied from the
    repository; GOFLAGS=-mod=mod is set only for go commands run inside this module."""
    import shutil
    sc = os.path.join(c.workdir, "scratch")
    shutil.rmtree(sc, ignore_errors=True)
    os.makedirs(sc)
    gover = "1.24.0"
    for l in open(os.path.join(REPO, "go.mod")):
        if l.startswith("go "):
            gover = l.split()[1]
    req = []
    inreq = False
    for l in open(os.path.join(REPO, "go.mod")):
        s = l.strip()
        if s.startswith("require ("):
            inreq = True
            continue
        if inreq and s == ")":
            inreq = False
            continue
        if inreq and s:
            req.append(s)
        elif s.startswith("require "):
            req.append(s[len("require "):])
    with open(os.path.join(sc, "go.mod"), "w") as f:
        f.write("module verif.local/h\n\ngo %s\n\nrequire github.com/VKCOM/tl v0.0.0\n\n" % gover)
        if req:
            f.write("require (\n" + "".join("\t%s\n" % r for r in req) + ")\n\n")
        f.write("replace github.com/VKCOM/tl => %s\n" % REPO)
    if os.path.exists(os.path.join(REPO, "go.sum")):
        shutil.copy(os.path.join(REPO, "go.sum"), os.path.join(sc, "go.sum"))
    return sc
