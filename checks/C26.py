"""C26 — TLO output describes the schema faithfully (DESIGN.md §4 C26)."""
from vlib.core import hx, run_lines

from checks.tlomig_lib import sx_parse, sx_str, unhex, repo_schemas, random_schema, mutate_text

MODULES = ["TLVerif.Props.C26"]
THEOREMS = ["TLVerif.Props.C26." + t for t in [
    "counts_and_timestamps", "constructors_listed_once", "functions_listed_once", "functions_sorted", "constructor_tag_name",
    "types_listed_once", "type_entry_faithful", "type_param_kinds", "type_name_is_xor_of_tags",
    "tlo_roundtrip", "tlo_types_decode_back", "tlo_bytes_decode_back",
    "type_name_xor_fails_for_Type", "builtin_tag_fails_at"]]

BUILTIN = {"int": 0xa8509bda, "long": 0x22076cba, "float": 0x824dab22, "double": 0x2210c154, "string": 0xb5286e24}

PLANTED = [
    # (name, text)
    ("type-named-Type", "foo = Type;\nbar#00000005 x:Type = Bar;\n"),
    ("builtin-nonstandard-tag", "int#deadbeef ? = Int;\nfoo x:int = Foo;\n"),
    ("xor-collision", "int#a8509bda ? = Int;\na.x#00000001 = a.T;\na.y#00000002 = a.T;\nb.z#00000003 = b.U;\n"),
    ("enum-and-union", "int#a8509bda ? = Int;\ncolorRed = Color;\ncolorGreen = Color;\ncolorBlue x:int = Color;\n"),
    ("many-targs", "int#a8509bda ? = Int;\nwide " + " ".join("{a%d:%s}" % (i, "#" if i % 3 == 0 else "Type") for i in range(70)) +
     " x:int = Wide " + " ".join("a%d" % i for i in range(70)) + ";\n"),
    ("nat-scopes", "int#a8509bda ? = Int;\nscope {n:#} a:# b:a*[c:# d:c*[int] e:n*[int]] f:# g:f.1?b:[int] = Scope n;\n"),
    ("func-result-var", "int#a8509bda ? = Int;\n---functions---\n@read f1 n:# x:n*[int] = Int;\n@write f0 = Int;\n@any f2 y:int = Int;\n"),
    ("reqresult", "int#a8509bda ? = Int;\nreqError#b527877d error_code:int = ReqResult X;\n"),
    ("interleaved-unions", "int#a8509bda ? = Int;\nshapeCircle r:int = Shape;\npointT x:int = PointT;\nshapeSquare a:int = Shape;\n"
     "---functions---\n@read getShape = Shape;\n---types---\ncolorRed = Color;\nshapeNone = Shape;\ncolorBlue = Color;\nboxT {t:Type} v:t = BoxT t;\n"),
    ("empty", ""),
    ("only-builtins", "int#a8509bda ? = Int;\nlong#22076cba ? = Long;\nstring#b5286e24 ? = String;\n"),
]


def parse_ast(ast):
    """[(is_function, name, tag, targs[(name,isnat)], n_fields, type_name, type_args, any_excl)]"""
    out = []
    for k in sx_parse(ast):
        assert k[0] == "K"
        targs = [(sx_str(t[0]), t[1] == "1") for t in k[5]]
        excl = any(f[3] == "1" for f in k[6])
        out.append({"fn": k[1] == "1", "name": sx_str(k[2]), "tag": int(k[3]), "targs": targs, "nfields": len(k[6]),
                    "tname": sx_str(k[7]), "targs_decl": [sx_str(a) for a in k[8]], "excl": excl})
    return out


def oracle(c, line, ts, ast, out):
    """the property statement, evaluated on what the implementation produced (decoded with tltls)"""
    p = out.split(" ")
    if len(p) != 3 or p[0] != "ok" or not p[2].startswith("("):
        if out.startswith("ok "):
            c.oracle_fail(line, "TLO bytes do not decode back to the generated description: " + " ".join(p[2:3]), line)
        return
    try:
        combs = parse_ast(ast)
        s = sx_parse(p[2])
    except Exception as e:  # malformed dump = harness problem, visible as tie failure
        c.oracle_fail(line, "unparseable dump: %r" % e, line)
        return
    _, version, date, tnum, types, cnum, ctors, fnum, funs = s
    if int(tnum) != len(types) or int(cnum) != len(ctors) or int(fnum) != len(funs):
        c.oracle_fail(line, "types_num/constructor_num/functions_num differ from the list lengths", line)
    if int(version) != ts or (ts != 0 and int(date) != ts):
        c.oracle_fail(line, "version/date are not the requested timestamp", line)
    # constructors and functions exactly once with tag and name
    exp_c = [(x["tag"], x["name"]) for x in combs if not x["fn"] or x["name"] in BUILTIN]
    exp_f = [(x["tag"], x["name"]) for x in combs if x["fn"] and x["name"] not in BUILTIN]
    got_c = [(int(k[1]), unhex(k[2]).decode("utf-8", "replace")) for k in ctors]
    got_f = [(int(k[1]), unhex(k[2]).decode("utf-8", "replace")) for k in funs]
    if sorted(got_c) != sorted(exp_c):
        miss = sorted(set(exp_c) - set(got_c))[:3]
        c.oracle_fail(line, "constructors are not listed exactly once with their tag and name (e.g. %s)" % (miss,), line)
    if sorted(got_f) != sorted(exp_f):
        c.oracle_fail(line, "functions are not listed exactly once with their tag and name", line)
    # types
    decl = {}
    for x in combs:
        if not x["fn"]:
            decl.setdefault(x["tname"], []).append(x)
    got_t = {}
    for t in types:
        tid = unhex(t[2]).decode("utf-8", "replace")
        if tid in got_t:
            c.oracle_fail(line, "type %s listed twice" % tid, line)
        got_t[tid] = t
    for tn, cs in decl.items():
        t = got_t.get(tn)
        if t is None:
            c.oracle_fail(line, "type %s is not listed" % tn, line)
            continue
        x = 0
        for k in cs:
            x ^= k["tag"]
        if int(t[1]) != x:
            c.oracle_fail(line, "type %s: name %08x is not the XOR of its constructor tags %08x" % (tn, int(t[1]), x), line)
        if int(t[3]) != len(cs):
            c.oracle_fail(line, "type %s: constructors_num %s != %d" % (tn, t[3], len(cs)), line)
        if int(t[5]) != len(cs[0]["targs_decl"]):
            c.oracle_fail(line, "type %s: arity %s != %d" % (tn, t[5], len(cs[0]["targs_decl"])), line)
        pt = 0
        for i, (_, nat) in enumerate(cs[0]["targs"]):
            if nat and i < 64:
                pt |= 1 << i
        if int(t[6]) != pt:
            c.oracle_fail(line, "type %s: params_type %s != %d" % (tn, t[6], pt), line)
    for tid in got_t:
        if tid not in decl and tid not in ("#", "Type"):
            c.oracle_fail(line, "type %s listed but not declared" % tid, line)


def run(c):
    c.facts(["Prim", "Tlomig"])
    c.lean(MODULES, THEOREMS, sources=["TLVerif.Tlomig.Sexp", "TLVerif.Tlomig.Ast", "TLVerif.Tlomig.Tls", "TLVerif.Tlomig.GenTlo",
                                       "TLVerif.Tlomig.TlsWf", "TLVerif.Tlomig.TlsLemmas", "TLVerif.Tlomig.GenTloLemmas"])
    model = c.model_exe()
    impl = c.harness("htlomig", overlays=OVERLAYS())
    rng = c.rng
    c.trusted += ["go/htlomig harness (AST dump of kernel.TL1() after Compile, tltls decoding, canonical dump); factgen constant/tag extraction",
                  "modelled, not verified: Go slices/maps/sort, the TL1 parser and Kernel.Compile (the model starts from the parsed AST)"]
    c.assumptions += ["the model takes the parsed TL1 AST (dumped by the harness from kernel.TL1()) as input; parser faithfulness is C19/C21",
                      "function ids are unique after Kernel.Compile (sort.Slice is unstable on equal ids)"]

    # ---------------- schemas
    schemas = []
    for name, txt in repo_schemas():
        schemas.append(("repo:" + name, txt))
    for name, txt in PLANTED:
        schemas.append(("planted:" + name, txt))
    nrand = 400 if c.thorough else 60
    for i in range(nrand):
        g = rng.fork()
        txt = random_schema(g, "tlo")
        schemas.append(("rand", txt))
        if rng.chance(1, 4):
            schemas.append(("mut", mutate_text(g, txt)))
    replay_lines = []
    if c.replay:
        for f in c.replay.get("failures", []):
            if f.get("input"):
                replay_lines.append(f["input"])
        for t in c.replay.get("broken_ties", []):
            replay_lines.append(t["line"])

    # ---------------- phase 1 (implementation only): AST as gentlo.Generate sees it
    ast_lines = ["tlomig.ast " + hx(txt.encode()) for _, txt in schemas]
    asts = run_lines(impl, ast_lines)
    lines = [l for l in replay_lines if l.startswith("tlomig.tlo ")]
    meta = {}
    for (kind, txt), a in zip(schemas, asts):
        c.count("schema:" + kind.split(":")[0] + ":" + a.split(" ")[0] + ("" if a.startswith("ok") else " " + a.split(" ")[-1]))
        if not a.startswith("ok "):
            continue
        ast = a[3:]
        tss = [301822800, 0, 1] if kind.startswith("repo") else [rng.choice([0, 1, 77, 2**31 - 1, 2**31, 2**32 - 1, rng.below(2**32)])]
        if kind.startswith("planted"):
            tss = [5, 0]
        for ts in tss:
            ln = "tlomig.tlo %d %s %s" % (ts, ast, hx(txt.encode()))
            lines.append(ln)
    for ln in lines:
        p = ln.split(" ")
        meta[ln] = (int(p[1]), p[2])

    # ---------------- phase 2: generator model vs gentlo.Generate (+ tltls decoding), oracle on the implementation
    res = c.tie("tlo", lines, impl, model, nontrivial=lambda l, a: a.startswith("ok "))
    rt_lines = [l for l in replay_lines if l.startswith("tlomig.tlsrt ")]
    expect = {}
    for l, a, _ in res:
        ts, ast = meta[l]
        oracle(c, l, ts, ast, a)
        p = a.split(" ")
        if len(p) == 3 and p[0] == "ok" and p[2].startswith("("):
            data = unhex(p[1])
            ln = "tlomig.tlsrt " + p[1]
            rt_lines.append(ln)
            desc = p[2] if ts != 0 else None
            expect[ln] = (len(data), p[1], desc, l)
            # malformed stream: truncations, byte flips, count inflation
            for _ in range(6 if c.thorough else 3):
                k = rng.below(6)
                m = bytearray(data)
                if k == 0 and len(m) > 4:
                    m = m[:rng.below(len(m))]
                elif k == 1:
                    m[rng.below(len(m))] ^= 1 << rng.below(8)
                elif k == 2:
                    i = rng.below(max(1, len(m) // 4)) * 4
                    m[i:i + 4] = rng.bytes(4)
                elif k == 3:
                    m += rng.bytes(rng.range(1, 9))
                elif k == 4:
                    i = rng.below(max(1, len(m) // 4)) * 4
                    m[i:i + 4] = (2**32 - 1 - rng.below(3)).to_bytes(4, "little")
                else:
                    i = rng.below(len(m))
                    m[i:i + 1] = b""
                rt_lines.append("tlomig.tlsrt " + hx(bytes(m)))
    # ---------------- phase 3: tls reader/writer model vs generated tltls package
    res3 = c.tie("tlsrt", rt_lines, impl, model)
    for l, a, _ in res3:
        e = expect.get(l)
        if e:
            n, h, desc, src = e
            p = a.split(" ")
            if len(p) != 4 or p[0] != "ok" or int(p[1]) != n or p[2] != h or (desc is not None and p[3] != desc):
                c.oracle_fail(src, "TLO bytes do not decode back to the same description / do not re-encode to the same bytes", src)
        elif a.startswith("ok "):
            # any accepted byte string must re-encode to the consumed prefix (reader accepts only what the writer writes)
            p = a.split(" ")
            data = unhex(l.split(" ")[1])
            if unhex(p[2]) != data[:int(p[1])]:
                c.oracle_fail(l, "tltls reader accepted bytes that are not the encoding of the decoded value", l)
    c.extra["rule"] = ("schemas: every TL1 schema file set of the repository, %d planted edge cases, %d random schemas from the type-directed "
                       "generator (+1/4 single-edit mutants); each accepted schema x timestamps {fixed, 0, boundary, random}; "
                       "distinct = distinct line text, non-trivial = TLO produced; then every produced TLO and 3-6 byte-level mutants "
                       "through the tltls reader/writer and its model" % (len(PLANTED), nrand))


def OVERLAYS():
    import os
    from vlib.core import ROOT
    d = os.path.join(ROOT, "go", "htlomig", "overlay")
    return {"internal/pure/onthefly/verif_hooks.go": os.path.join(d, "onthefly_verif.go"),
            "internal/pure/verif_hooks.go": os.path.join(d, "pure_verif.go")}
