"""C16 — Output directory management is exact and safe (DESIGN.md §4 C16)."""
import itertools

from checks.toolgen import hxt, build_clis, harness_env, replay_lines, helper, overlays

MODULES = ["TLVerif.Props.C16"]
THEOREMS = ["TLVerif.Props.C16." + t for t in [
    "refused_iff", "refused_leaves_fs_unchanged", "after_success_exact", "relative_files_after_success",
    "outside_only_code_keys", "written_iff", "unchanged_not_rewritten", "changed_is_rewritten", "deleted_iff",
    "writes_only_under_outdir_or_basictl", "counts", "second_run_touches_nothing", "protected_forever",
    "history_exact", "refusal_full_fails_at", "basictl_rel_path_shape", "next_generation_accepted",
    "each_file_written_at_most_once", "pruning_only_removes_collected",
    "legacy_refused_iff", "legacy_failed_leaves_fs_unchanged", "legacy_after_success_exact", "legacy_generated_file_wins",
    "legacy_exempt_stale_survives", "legacy_deleted_iff", "legacy_written_iff", "legacy_next_generation_not_refused",
    "legacy_exact_fails_at", "legacy_marker_fact"]]

MARKER = "meta/meta.go"
# keys form a consistent tree: no key is a directory of another key, none collides with DIRS
KEYS = [MARKER, "a/x.go", "a/y.go", "a/b/z.go", "c/q.h", "c/r.cpp", "w.txt", "internal/i.go", "d/e/f/g.txt",
        "../../pkg/basictl/basictl.go", "../sib/s.go"]
FOREIGN = ["zz.txt", "a/zz.go", "n/e/w.txt", "e/f/h.txt", "../out2/o.txt", "c/q.h", "a/x.go"]
DIRS = ["e", "e/f", "a/emp", "k/l/m"]
IDS = ["c1", "c2", "c3", "u4", "f4", "t5", "s5", "b6"]

# Known defect class (known_findings.d/C16.json): an output directory that contains only (possibly nested) empty
# directories counts as empty: the generation is not refused and the foreign directories are removed.
WITNESS_EMPTYDIRS = "tool.outdir %s d:e;g:%s=c1" % (MARKER, MARKER)


def fmt_ids(key, cid):
    if cid.startswith("u") and key.endswith(".go"):
        return "f" + cid[1:]
    if cid.startswith("t") and (key.endswith(".h") or key.endswith(".cpp")):
        return "s" + cid[1:]
    return cid


def outside(k):
    return k.startswith("..")


def ancestors(k):
    parts = k.split("/")[:-1]
    return ["/".join(parts[:i + 1]) for i in range(len(parts))]


def parse_code(s):
    return [] if s == "-" else [tuple(w.split("=")) for w in s.split(",")]


def parse_set(s):
    return set() if s == "-" else set(s.split(","))


LEGACY_MARKER = "tlgen2_version.txt"
# Known defect classes of the legacy writer (known_findings.d/C16.json), reported under fixed witness lines:
#  * `cppFilterFile` exempts every stale path ending in `.o` from deletion (documented build artefacts, by design): after a
#    successful cpp generation the output directory does NOT hold exactly the files of that generation;
#  * same "only empty directories" hole as OutDir.Write.
WITNESS_LEGACY_O = "tool.loutdir cpp g:a/x.h=c1;p:x.o=zz;g:a/x.h=c1"
WITNESS_LEGACY_EMPTYDIRS = "tool.loutdir cpp d:e;g:a/x.h=c1"


def fmt_cpp(key, cid):
    if cid.startswith("t") and (key.endswith(".h") or key.endswith(".cpp")):
        return "s" + cid[1:]
    return cid


def oracle(c, line, out, cli, legacy=False):
    """Property C16 evaluated on the implementation's observations, step by step (independent of the Lean model).
    legacy=True: the legacy writer (*Gen2).WriteToDir: fixed marker added by the writer itself; for cpp the documented
    exemption (stale paths ending in `.o` are kept) is tolerated as a known finding, nothing else may survive."""
    f = line.split(" ")
    marker, steps = f[1], f[2].split(";")
    lang = None
    if legacy:
        lang = "cpp" if cli else f[1]
        marker = LEGACY_MARKER
    if out in ("panic", "CRASH", "crash", "bad-op"):
        c.oracle_fail(line, "generator crashed / panicked while writing the output directory (%s)" % out, line)
        return
    results = [] if out == "none" else out.split(" ", 1)[1].split("|")
    files, dirs = {}, set()
    ri = 0
    if cli:
        fmt = lambda k, v: v
    elif legacy:
        fmt = fmt_cpp if lang == "cpp" else (lambda k, v: v)
    else:
        fmt = fmt_ids
    tag = "legacy:" if legacy else ""
    for st in steps:
        p = st.split(":")
        if p[0] == "p":
            k, v = p[1].split("=")
            files[k] = v
            if not outside(k):
                dirs.update(ancestors(k))
        elif p[0] == "d":
            dirs.update(ancestors(p[1]) + [p[1]])
        elif p[0] == "r":
            files.pop(p[1], None)
        elif p[0] == "g":
            if ri >= len(results):
                c.oracle_fail(line, "missing result for generation step", line)
                return
            r = dict(w.split("=", 1) if "=" in w else ("o", w) for w in results[ri].split(";"))
            ri += 1
            code = dict(parse_code(p[1]))
            inside_before = {k for k in files if not outside(k)}
            T = dict(parse_code(r["T"]))
            D = parse_set(r["D"])
            w, x = parse_set(r["w"]), parse_set(r["x"])
            nonempty_files = bool(inside_before)
            must_refuse = nonempty_files and marker not in inside_before
            twice = legacy and not cli and marker in code
            if r["o"] in ("ref", "dup"):
                c.count("oracle:%s%s" % (tag, "refused" if r["o"] == "ref" else "twice"))
                if r["o"] == "ref" and not must_refuse:
                    c.oracle_fail(line, "generation refused although the output directory is empty or has the marker", line)
                if r["o"] == "dup" and (must_refuse or not twice):
                    c.oracle_fail(line, "generation failed although nothing is wrong with the request", line)
                if T != files or D != dirs or w or x:
                    c.oracle_fail(line, "refused / failed generation modified the output directory (or something outside it)", line)
            else:
                c.count("oracle:%sok" % tag)
                if must_refuse:
                    c.oracle_fail(line, "non-empty output directory without the marker file was not refused", line)
                elif twice:
                    c.oracle_fail(line, "code map that already contains the marker was written", line)
                elif not nonempty_files and dirs and marker not in inside_before:
                    # only directories: known finding class
                    c.oracle_fail(WITNESS_LEGACY_EMPTYDIRS if legacy else WITNESS_EMPTYDIRS,
                                  "output directory holding only empty directories is not refused and the directories are removed", line)
                if legacy and not cli:
                    code[marker] = "mk"     # the legacy writer adds its marker to the generation itself
                want_inside = {k: fmt(k, v) for k, v in code.items() if not outside(k)}
                got_inside = {k: v for k, v in T.items() if not outside(k)}
                # the only tolerated survivors: for legacy cpp, stale paths ending in ".o" (object files), untouched
                kept = {}
                if legacy and lang == "cpp":
                    kept = {k: files[k] for k in inside_before if k not in code and k.endswith(".o")}
                    if kept and all(got_inside.get(k) == v for k, v in kept.items()):
                        c.oracle_fail(WITNESS_LEGACY_O, "legacy cpp writer keeps stale *.o files (cppFilterFile): the output directory "
                                      "does not hold exactly the files of the generation", line)
                want_all = dict(want_inside)
                want_all.update(kept)
                if got_inside != want_all:
                    extra = sorted(set(got_inside) - set(want_all))
                    c.oracle_fail(line, "after a successful generation the output directory does not hold exactly this generation's files"
                                  + (" (stale files survived: %s)" % ",".join(extra[:4]) if extra else ""), line)
                for k, v in files.items():
                    if outside(k) and k not in code and T.get(k) != v:
                        c.oracle_fail(line, "a file outside the output directory that is not part of the generation was modified: " + k, line)
                for k in T:
                    if outside(k) and k not in code and k not in files:
                        c.oracle_fail(line, "a file outside the output directory was created: " + k, line)
                for k, v in code.items():
                    same = (not outside(k)) and files.get(k) == fmt(k, v)
                    if same and k in w:
                        c.oracle_fail(line, "unchanged file was rewritten: " + k, line)
                    if not same and k not in w:
                        c.oracle_fail(line, "changed / new file was not written: " + k, line)
                if not w <= set(code):
                    c.oracle_fail(line, "a file that is not part of the generation was written: %s" % sorted(w - set(code)), line)
                if x != inside_before - set(code) - set(kept):
                    c.oracle_fail(line, "deleted files are not exactly the stale files", line)
                for d in D:
                    if not any(k.startswith(d + "/") for k in got_inside):
                        c.oracle_fail(line, "empty directory left behind: " + d, line)
            files, dirs = T, D


# ---------------------------------------------------------------- legacy writer (cmd/tlgen, cpp / php)
LKEYS = ["svc/types/svc.objectId.h", "svc/headers/svc.open.h", "svc/functions/svc.openFile.h", "a/x.h", "a/y.cpp", "details/n.cpp",
         "Makefile", "info.json", "obj/gen.o", "a.o.h", "svc/details.cpp", "../sib/s.h"]
LFOREIGN = ["x.o", "a/x.o", "x.o.d", "a.old.h", "svc/types/y.o", "zz.txt", "lib.so", "a/b.o/c.txt", "svc/types/svc.objectId.h", "q.obj", "main.oo"]
LIDS = ["c1", "c2", "c3", "t5", "s5", "u4"]


def legacy_history(rng, nsteps):
    steps = []
    for i in range(nsteps):
        k = rng.below(10)
        if k < 6 or i == 0:
            pool = list(LKEYS)
            rng.shuffle(pool)
            ks = pool[:rng.range(0, 6)]
            if rng.chance(1, 25):
                ks.append(LEGACY_MARKER)
            steps.append("g:" + (",".join("%s=%s" % (key, rng.choice(LIDS)) for key in ks) or "-"))
        elif k < 8:
            steps.append("p:%s=%s" % (rng.choice(LFOREIGN), rng.choice(["zz", "c1", "s5"])))
        elif k == 8:
            steps.append("d:" + rng.choice(["e", "e/f", "svc/emp", "k.o"]))
        else:
            steps.append("r:" + rng.choice([LEGACY_MARKER, LEGACY_MARKER, "a/x.h", "x.o"]))
    return ";".join(steps)


LPRE = "int#a8509bda ? = Int;\nlong#22076cba ? = Long;\nstring#b5286e24 ? = String;\n"
LSCHEMAS = [
    LPRE + "svc.objectId id:long = svc.ObjectId;\nsvc.open x:int name:string = svc.Open;\nother.thing o:svc.objectId = other.Thing;\n"
           "---functions---\n@read svc.openFile id:svc.objectId = svc.Open;\n",
    LPRE + "svc.point x:int y:int = svc.Point;\nother.thing o:svc.point = other.Thing;\n",
    LPRE + "svc.objectId id:long = svc.ObjectId;\nsvc.other x:int = svc.Other;\n---functions---\n@read svc.origin id:svc.objectId = svc.Other;\n",
    LPRE + "orders.order id:long = orders.Order;\n---functions---\n@read orders.open id:long = orders.Order;\n",
]


def history(rng, nsteps):
    steps = []
    planted_dirs = set()
    for i in range(nsteps):
        k = rng.below(10)
        if k < 6 or i == 0:
            n = rng.range(0, 6)
            ks = [MARKER] if rng.chance(9, 10) else []
            pool = [x for x in KEYS if x != MARKER]
            rng.shuffle(pool)
            ks += pool[:n]
            steps.append("g:" + (",".join("%s=%s" % (key, rng.choice(IDS)) for key in ks) or "-"))
        elif k < 8:
            steps.append("p:%s=%s" % (rng.choice(FOREIGN), rng.choice(["zz", "c1", "f4", "s5"])))
        elif k == 8:
            steps.append("d:" + rng.choice(DIRS))
        else:
            steps.append("r:" + rng.choice([MARKER, MARKER, "a/x.go", "zz.txt"]))
    return ";".join(steps)


SCHEMAS = [
    "foo x:int = Foo;\n",
    "foo x:int = Foo;\nbar y:string z:long = Bar;\n",
    "ns.foo x:int = ns.Foo;\nbar y:string = Bar;\n@read getBar x:int => Bar;\n",
    "a = U;\nb x:int = U;\nbaz u:U = Baz;\n",
]


def run(c):
    c.facts(["ToolLegacy"])
    c.lean(MODULES, THEOREMS)
    model = c.model_exe()
    impl = c.harness("htool", overlays=overlays())
    env = harness_env(c, build_clis(c))
    rng = c.rng
    c.trusted += ["go/htool harness: sandbox tree dump, mtime-based write detection (all mtimes are reset to 2001 before each generation)",
                  "modelled, not verified: os/filepath semantics (Join/Clean of clean relative keys), go/format (abstracted by content identifiers)"]
    c.assumptions += ["code-map keys are clean relative paths forming a consistent tree; no file/directory type clashes with the existing tree; "
                      "the directory of every `..` key exists; no I/O errors",
                      "no name inside the output directory starts with `..`"]
    lines = replay_lines(c)
    # exhaustive: all histories of length <= 4 (quick) / 5 (thorough) over a 6-letter alphabet
    A = "g:%s=c1,a/x.go=c1" % MARKER
    B = "g:%s=c1,a/y.go=u4,../sib/s.go=c2" % MARKER
    alpha = [A, B, "g:a/x.go=c1", "p:zz.txt=zz", "r:" + MARKER, "d:e/f"]
    for n in range(1, (6 if c.thorough else 5)):
        for combo in itertools.product(alpha, repeat=n):
            if any(s.startswith("g:") for s in combo):
                lines.append("tool.outdir %s %s" % (MARKER, ";".join(combo)))
    for _ in range(6000 if c.thorough else 1500):
        lines.append("tool.outdir %s %s" % (rng.choice([MARKER, MARKER, "w.txt"]), history(rng, rng.range(2, 6))))
    lines.append(WITNESS_EMPTYDIRS)
    res = c.tie("outdir", lines, impl, model, env=env)
    for l, a, _ in res:
        oracle(c, l, a, False)

    # basictl location derived from the package paths (prepareOptions)
    rel_lines = relpath_lines(rng, 600 if c.thorough else 200)
    res = c.tie("relpath", rel_lines, impl, model, env=env)
    for l, a, _ in res:
        relpath_oracle(c, l, a)

    # real tl2gen generations into one directory
    combos = [(o, s) for o in range(5) for s in range(len(SCHEMAS))]
    lists = helper(impl, ["tool.genlist %d %s" % (o, hxt(SCHEMAS[s])) for o, s in combos], env, jobs=10)
    gl = {}
    for (o, s), out in zip(combos, lists):
        if not out.startswith("ok "):
            c.oracle_fail("tool.genlist %d %s" % (o, hxt(SCHEMAS[s])), "tl2gen failed on a trivial schema: " + out)
            continue
        gl[(o, s)] = out.split(" ")[1]
    cli_lines = []
    for _ in range(96 if c.thorough else 20):
        steps = []
        o = rng.below(5)
        for i in range(rng.range(2, 4)):
            if rng.chance(1, 4):
                o = rng.below(5)
            s = rng.below(len(SCHEMAS))
            if (o, s) not in gl:
                continue
            k = rng.below(8)
            if k == 0:
                steps.append("p:%s=%s" % (rng.choice(["zz.txt", "internal/zz.go", "n/e/w.txt", "../../../pkg/zz.txt"]), "zq1"))
            elif k == 1:
                steps.append("d:" + rng.choice(["e/f", "internal/emp"]))
            elif k == 2 and i > 0:
                steps.append("r:" + MARKER)
            steps.append("g:%s:%d:%s" % (gl[(o, s)], o, hxt(SCHEMAS[s])))
        if steps:
            cli_lines.append("tool.outcli %s %s" % (MARKER, ";".join(steps)))
    res = c.tie("outcli", cli_lines, impl, model, env=env, jobs=16)
    for l, a, _ in res:
        oracle(c, l, a, True)
    # ---- legacy writer (*Gen2).WriteToDir, in-process with abstract code maps
    llines = [l for l in lines if l.startswith("tool.loutdir")]
    LA = "g:a/x.h=c1,svc/types/svc.objectId.h=c2"
    LB = "g:a/x.h=t5,svc/headers/svc.open.h=c3"
    lalpha = [LA, LB, "p:x.o=zz", "p:x.o.d=zz", "r:" + LEGACY_MARKER, "d:e/f"]
    for n in range(1, (5 if c.thorough else 4)):
        for combo in itertools.product(lalpha, repeat=n):
            if any(s.startswith("g:") for s in combo):
                llines.append("tool.loutdir cpp %s" % ";".join(combo))
    for _ in range(4000 if c.thorough else 900):
        llines.append("tool.loutdir %s %s" % (rng.choice(["cpp", "cpp", "cpp", "php"]), legacy_history(rng, rng.range(2, 6))))
    llines += [WITNESS_LEGACY_O, WITNESS_LEGACY_EMPTYDIRS]
    res = c.tie("legacy-outdir", llines, impl, model, env=env)
    for l, a, _ in res:
        oracle(c, l, a, False, legacy=True)
    # ---- legacy writer through the real `tlgen -language=cpp` binary
    lcombos = [(o, s) for o in range(3) for s in range(len(LSCHEMAS))]
    llists = helper(impl, ["tool.lgenlist %d %s" % (o, hxt(LSCHEMAS[s])) for o, s in lcombos], env, jobs=12)
    lgl = {}
    for (o, s), out in zip(lcombos, llists):
        if not out.startswith("ok "):
            c.oracle_fail("tool.lgenlist %d %s" % (o, hxt(LSCHEMAS[s])), "tlgen -language=cpp failed on a trivial schema: " + out)
            continue
        lgl[(o, s)] = out.split(" ")[1]
    lcli = [l for l in lines if l.startswith("tool.loutcli")]
    for i in range(60 if c.thorough else 14):
        steps = []
        o = rng.below(3)
        prev = None
        for j in range(rng.range(2, 3)):
            s_ = rng.below(len(LSCHEMAS))
            if s_ == prev:
                s_ = (s_ + 1) % len(LSCHEMAS)
            prev = s_
            if (o, s_) not in lgl:
                continue
            k = rng.below(6) if j > 0 else 9
            if k == 0:
                steps.append("p:%s=zq1" % rng.choice(["x.o", "svc/types/y.o", "x.o.d", "a.old.h", "svc/zz.txt"]))
            elif k == 1:
                steps.append("p:x.o=zq1")
                steps.append("p:%s=zq2" % rng.choice(["x.o.d", "a.old.h"]))
            elif k == 2 and j > 0:
                steps.append("r:" + LEGACY_MARKER)
            elif k == 3:
                steps.append("d:" + rng.choice(["e/f", "svc/emp"]))
            steps.append("g:%s:%d:%s" % (lgl[(o, s_)], o, hxt(LSCHEMAS[s_])))
        if steps:
            lcli.append("tool.loutcli cpp %s" % ";".join(steps))
    res = c.tie("legacy-outcli", lcli, impl, model, env=env, jobs=16)
    for l, a, _ in res:
        oracle(c, l, a, True, legacy=True)
    c.extra["rule"] = ("tool.outdir: every history of length <= %d over {gen A, gen B, gen without marker, plant foreign file, remove marker, "
                       "plant empty dir} + random histories of 2-6 steps over 11 keys (incl. two outside the output directory), 8 content "
                       "ids (gofmt-unformatted / tab-expanded / unparsable variants), foreign files and directories, marker removal, run "
                       "in-process through puregen.OutDir.Write; tool.outcli: 2-4 real tl2gen --language=go runs (4 schemas x 5 option sets incl. "
                       "basictl written outside / inside / not at all, --split-internal) into one directory with planted files, directories "
                       "and marker removal; tool.relpath: package path pairs; distinct = distinct line text" % (5 if c.thorough else 4))


# ---------------------------------------------------------------- basictl relative path
def relpath_lines(rng, n):
    comps = ["github.com", "VKCOM", "tl", "pkg", "basictl", "gen", "x", "y", ""]
    out = []
    fixed = [("verif.local/h/gen/tl", "github.com/VKCOM/tl/pkg/basictl"), ("github.com/VKCOM/tl/o1/o2/out/tl", "github.com/VKCOM/tl/pkg/basictl"),
             ("verif.local/h/gen/tl", ""), ("", "github.com/VKCOM/tl/pkg/basictl"), ("a/b", "x/basictl"), ("a/b/c", "basictl"),
             ("a/b/c/", "a/b/basictl"), ("github.com/VKCOM/tl/pkg/tl", "github.com/VKCOM/tl/pkg/basictl"),
             ("github.com/VKCOM/tl/tl", "github.com/VKCOM/tl/pkg/basictl"), ("github.com/VKCOM/tl/a//tl", "github.com/VKCOM/tl/pkg/basictl"),
             (" github.com/VKCOM/tl/a/tl ", "github.com/VKCOM/tl/pkg/basictl"), ("github.com/VKCOM/tl/a/b/c/d/tl", "github.com/VKCOM/tl/a/b/q/basictl")]
    for a, b in fixed:
        out.append("tool.relpath %s %s" % (hxt(a), hxt(b)))
    for _ in range(n):
        k = rng.range(0, 7)
        a = [rng.choice(comps[:3]) if i < 3 and rng.chance(3, 4) else rng.choice(comps) for i in range(k)]
        if rng.chance(2, 3):
            pre = a[:rng.range(0, len(a))]
            b = pre + [rng.choice(comps) for _ in range(rng.range(0, 3))] + [rng.choice(["basictl", "basictl", "x"])]
        else:
            b = [rng.choice(comps) for _ in range(rng.range(0, 5))]
        out.append("tool.relpath %s %s" % (hxt("/".join(a)), hxt("/".join(b))))
    return out


def relpath_oracle(c, line, out):
    """The only keys outside the output directory are derived from the package paths: `../`^k + rest of basicPkgPath."""
    if out in ("panic", "CRASH", "bad-op"):
        c.oracle_fail(line, "prepareOptions panicked", line)
        return
    if not out.startswith("ok "):
        c.count("relpath:err")
        return
    rel = bytes.fromhex(out.split(" ")[1]).decode() if out.split(" ")[1] != "-" else ""
    c.count("relpath:" + ("none" if rel == "" else "inside" if not rel.startswith("..") else "outside"))
    f = line.split(" ")
    basic = bytes.fromhex(f[2]).decode() if f[2] != "-" else ""
    pkg = bytes.fromhex(f[1]).decode() if f[1] != "-" else ""
    pkg = pkg.strip()
    if pkg.endswith("/"):
        pkg = pkg[:-1]
    if pkg == "":
        pkg = "github.com/VKCOM/tl/internal/tlcodegen/output/tl"
    outdir_elems = pkg.split("/")[:-1]
    if rel.startswith(".."):
        comps = [x for x in rel.split("/") if x != ""]
        ups = 0
        while ups < len(comps) and comps[ups] == "..":
            ups += 1
        rest = comps[ups:]
        # going `ups` levels up from the output package and down `rest` must land exactly on --basicPkgPath
        ne = lambda l: [x for x in l if x != ""]
        if ups > len(outdir_elems) or ne(outdir_elems[:len(outdir_elems) - ups]) + rest != ne(basic.split("/")):
            c.oracle_fail(line, "runtime library location outside the output directory does not resolve to --basicPkgPath: " + rel, line)
        elif outdir_elems[:3] != basic.split("/")[:3] or len(outdir_elems) < 3:
            # "github.com / user / repo": never write into a directory that belongs to another repository
            c.oracle_fail(line, "runtime library would be written outside the output directory although --pkgPath and --basicPkgPath "
                          "are in different repositories: " + rel, line)
