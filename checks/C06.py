"""C06 — JSON reader accepts documented alternative forms and rejects invalid ones (DESIGN.md §4 C06)."""
from checks import codec_common as cc
from checks import codec_json as cj
from vlib.core import hx

MODULES = []
THEOREMS = []


def run(c):
    if MODULES:
        c.lean(MODULES, THEOREMS)
    model, scs = cj.setup(c)
    rng = c.rng
    per = 12 if c.thorough else 4
    cap = 60 if c.thorough else 40
    for sc in scs:
        items = cc.link_items(sc)
        g = cj.GenJ(sc, rng.fork(), big=False)
        lines = []
        for inst, it in items:
            for _ in range(per):
                bts = g.value(inst["idx"], False, [], 0)
                lines.append("codec.xj %s %d %s 1 %s" % (sc.sid, inst["idx"], inst["tlname"], hx(bts)))
        lines = sorted(set(lines))
        pre = [sc.desc_line()]
        res = c.tie("xj:" + sc.sid, lines, sc.impl, model, prefix=pre)
        rw = cj.Rewriter(sc, rng.fork())
        cases = cj.build_c06_cases(c, sc, rw, res, rng, cap)
        l2 = sorted({l for cs in cases for l in cs["lines"]})
        res2 = c.tie("rj:" + sc.sid, l2, sc.impl, model, prefix=pre)
        ans = {l: a for l, a, _ in res2}
        cj.oracle_c06(c, cases, ans)
    cj.debug_dump(c)
    c.extra["rule"] = ("phase 1: JSON written by the implementation for type-directed values (codec.xj); phase 2: every documented alternative "
                       "spelling and every invalid mutation of that JSON, generated type-directed from the descriptor (codec.rj): alternative forms "
                       "must decode to the canonical result, invalid forms must be rejected; distinct = distinct case line")
