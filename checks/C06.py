"""C06 — JSON reader accepts documented alternative forms and rejects invalid ones (DESIGN.md §4 C06)."""
from checks import codec_common as cc
from checks import codec_json as cj
from vlib.core import hx, load_known

MODULES = ['TLVerif.Props.C06']
SOURCES = ["TLVerif.Codec.Json", "TLVerif.Codec.JsonPrim", "TLVerif.Codec.JsonText", "TLVerif.Codec.JsonTextLemmas", "TLVerif.Codec.JsonLemmas", "TLVerif.Codec.JsonAlt",
           "TLVerif.Codec.Ops.Json"]
THEOREMS = ["TLVerif.Props.C06.omitted_is_empty_prim", "TLVerif.Props.C06.omitted_is_empty_member", "TLVerif.Props.C06.omitted_is_empty_prim_value", "TLVerif.Props.C06.omitted_is_empty_struct", "TLVerif.Props.C06.omitted_is_empty_maybe", "TLVerif.Props.C06.omitted_tuple_nonzero_rejected", "TLVerif.Props.C06.number_as_string_int", "TLVerif.Props.C06.number_as_string_float", "TLVerif.Props.C06.union_as_string", "TLVerif.Props.C06.union_value_first", "TLVerif.Props.C06.maybe_forms", "TLVerif.Props.C06.maybe_without_ok", "TLVerif.Props.C06.masked_field_sets_local_bits_step", "TLVerif.Props.C06.masked_field_sets_local_bits", "TLVerif.Props.C06.external_mask_zero_rejected", "TLVerif.Props.C06.external_mask_accepted", "TLVerif.Props.C06.true_false_with_bit_set_rejected", "TLVerif.Props.C06.unknown_key_rejected", "TLVerif.Props.C06.duplicate_key_rejected", "TLVerif.Props.C06.array_len_must_match_nat", "TLVerif.Props.C06.maybe_okfalse_value_rejected", "TLVerif.Props.C06.dict_as_pairs_rejected", "TLVerif.Props.C06.alt_equiv", "TLVerif.Props.C06.struct_member_congruence"]


def run(c):
    c.lean(MODULES, THEOREMS, sources=SOURCES)
    model, scs = cj.setup(c)
    rng = c.rng
    per = 8 if c.thorough else 3
    cap = 50 if c.thorough else 30
    for sc in scs:
        items = cc.link_items(sc)
        g = cj.GenJ(sc, rng.fork(), big=False)
        pre = [sc.desc_line()]
        if getattr(sc, "origin_tl2", False):
            res = cj.tl2_origin_roundtrip(c, sc, model, cj.tl2_origin_values(c, sc, items, rng, per))
            rw = cj.Rewriter(sc, rng.fork())
            cases = cj.build_c06_cases(c, sc, rw, res, rng, cap)
            l2 = sorted({l for cs in cases for l in cs["lines"]})
            cj.oracle_c06(c, cases, {l: a for l, a, _ in c.tie("rj:" + sc.sid, l2, sc.impl, model, prefix=pre)})
            continue
        # types whose reader/writer pair panics on `{}` (finding F3, reported by C05) are left out
        c05_known = {k["key"] for k in load_known().get("findings", []) if k.get("property") == "C05"}
        n0 = len(c.tie_failures)
        skip = {l.split(" ")[3] for l, a, _ in c.tie("probe:" + sc.sid, cj.probe_lines(sc, items), sc.impl, model, prefix=pre) if a == "panic"}
        for t in c.tie_failures[n0:]:
            if t["line"] in c05_known:
                t["explained"] = True   # reported (and listed as known finding) under C05
        rw = cj.Rewriter(sc, rng.fork())
        mp = cj.mask_probe_lines(sc, rw, [x for x in items if x[0]["tlname"] not in skip])
        for l, a, mo in c.tie("maskprobe:" + sc.sid, sorted(mp), sc.impl, model, prefix=pre):
            if a != "panic" and a != mo:
                c.oracle_fail(l + " [probe answer]", "mask probe: implementation answers %s, model %s" % (a[:100], mo[:100]), l)
            if a == "panic":
                rw.skip_fields.add(mp[l])
                c.oracle_fail(l, "documented form 'mask bit set, field omitted = empty value' is accepted by ReadJSON but the value makes WriteJSON panic "
                                 "(nil pointer for the recursive field)", l)
        # replay: structured inputs of earlier failures first
        rcases, rplain = [], set()
        for x in cj.replay_lines(c):
            if isinstance(x, dict) and x.get("line", "").split(" ")[1:2] == [sc.sid]:
                ls = {x["line"], x["canon"]} | ({x["other"]} if x.get("other") else set())
                rcases.append({"xj": x["line"], "tl2": x.get("tl2", bool(sc.tl2)), "canon": x["canon"],
                               "checks": [(x["rule"], x["expect"], x["line"], x.get("other"))], "lines": ls})
            elif isinstance(x, str) and x.split(" ")[1:2] == [sc.sid]:
                rplain.add(x)   # a line of a broken tie: re-run for the model/implementation comparison only
        if rcases or rplain:
            rl = sorted({l for cs in rcases for l in cs["lines"]} | rplain)
            cj.oracle_c06(c, rcases, {l: a for l, a, _ in c.tie("replay:" + sc.sid, rl, sc.impl, model, prefix=pre)})
        lines = []
        for inst, it in items:
            if inst["tlname"] in skip:
                c.count("skipped-type:" + inst["tlname"])
                continue
            for _ in range(per):
                bts = g.value(inst["idx"], False, [], 0)
                lines.append("codec.xj %s %d %s 1 %s" % (sc.sid, inst["idx"], inst["tlname"], hx(bts)))
        lines = sorted(set(lines))
        res = c.tie("xj:" + sc.sid, lines, sc.impl, model, prefix=pre)
        cases = cj.build_c06_cases(c, sc, rw, res, rng, cap)
        l2 = sorted({l for cs in cases for l in cs["lines"]})
        res2 = c.tie("rj:" + sc.sid, l2, sc.impl, model, prefix=pre)
        ans = {l: a for l, a, _ in res2}
        cj.oracle_c06(c, cases, ans)
    cj.debug_dump(c)
    c.extra["rule"] = ("phase 1: JSON written by the implementation for type-directed values (codec.xj); phase 2: every documented alternative "
                       "spelling and every invalid mutation of that JSON, generated type-directed from the descriptor (codec.rj): alternative forms "
                       "must decode to the canonical result, invalid forms must be rejected; distinct = distinct case line")
