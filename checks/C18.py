"""C18 — random value generation yields valid, reproducible values (DESIGN.md §4 C18)."""
import os
from checks import codec_common as cc
from checks import codec_randacc as ra
from vlib.core import ROOT, run_lines

MODULES = ["TLVerif.Props.C18"]
THEOREMS = ["TLVerif.Props.C18." + t for t in [
    "fill_terminates", "fill_preserves_depth", "fill_valid", "fill_functional", "increase_decrease_neutral",
    "leak_shape_guard", "leak_shape_terminates",
    "fill_diverges_nonproductive", "fill_diverges_union", "loop_never_fills", "peano_never_fills",
    "weights_cumulative", "depth_range", "limit_pow2", "letters_count", "increase_sites", "newRG_depth"]]
SOURCES = ["TLVerif.Codec.Random", "TLVerif.Codec.RandomLemmas", "TLVerif.Codec.RandomTerm", "TLVerif.Codec.Ops.Rand"]

# known findings, identified by call site; the predicate that attributes a diverging run to one of them is the exact
# negation of a guard of `fill_terminates` (evaluated by the model on the exported descriptor, `codec.rcert`)
K_LOOP = "L8:FillRandom-unbounded-recursion-on-non-productive-type:kernel.go-FindCycle-result-discarded"
K_UNION = "C18-union:FillRandom-of-a-union-never-calls-IncreaseDepth:qt_union.qtpl"
# former known finding, repaired in the repository (IncreaseDepth no longer saturates): not listed any more, so a diverging run
# of this class (productive, ranked, but the recursion that remains at the depth limit is not finite / the depth leaks again)
# is a VIOLATION with its input
K_LEAK = "C18-leak:DecreaseDepth-after-saturated-IncreaseDepth-lowers-the-depth:basictl.go-IncreaseDepth/DecreaseDepth"


def witness_schemas():
    # fo: optional (field-mask) recursive pointers next to vectors of the same type, mutual cycles, two optional recursive
    # fields: shapes where every absent optional recursive field must leave the generator depth alone; all pass the guard of
    # fill_terminates, so any divergence there is a violation
    return [cc.Schema("fo", [os.path.join(ROOT, "schemas", "fillopt.tl")], tl2="", sanity=True),
            cc.Schema("fr", [os.path.join(ROOT, "schemas", "fillrec.tl")], tl2="", sanity=True),
            cc.Schema("fl", [os.path.join(ROOT, "schemas", "fillloop.tl")], tl2="", sanity=True)]


def rcerts(c, model, sc):
    lines = ["codec.rcert %s %d" % (sc.sid, inst["idx"]) for inst, it in sc.items]
    out = run_lines(model, lines, prefix=ra.prefix(sc))
    res = {}
    tot = c.extra.setdefault("certificates", {"evaluated": 0, "closed": 0, "ranked": 0, "satok": 0, "termination_guard": 0, "validity_guard": 0, "productive": 0})
    for (inst, it), a in zip(sc.items, out):
        if not a.startswith("ok "):
            c.proof_failures.append({"stage": "certificate", "schema": sc.sid, "type": inst["tlname"], "detail": a})
            continue
        r = {k: v == "1" for k, v in (p.split("=") for p in a.split(" ")[1:])}
        res[inst["idx"]] = r
        tot["evaluated"] += 1
        tot["closed"] += r["closed"]
        tot["ranked"] += r["ranked"] and r["bounded"]
        tot["satok"] += r["satok"]
        tot["termination_guard"] += r["guard"] and r["closed"]
        tot["validity_guard"] += r["fillok"] and r["closed"]
        tot["productive"] += r["productive"]
    return res


def run(c):
    c.facts(["Rand"])
    c.lean(MODULES, THEOREMS, sources=SOURCES)
    corpus = cc.corpus(c) if c.thorough else cc.corpus(c, small=True)[:1]
    only = os.environ.get("C18_ONLY")          # development aid: restrict the schema set
    schemas = [s for s in corpus + witness_schemas() if not only or s.sid in only.split(",")]
    model, hcodec, schemas = cc.prepare(c, schemas)
    hginfo = ra.build_hginfo(c)
    rng = c.rng
    per = 40 if c.thorough else 8
    reproduced = set()
    # the RandGenerator primitives themselves (RandomUint weight table, RandomSize/LimitValue, RandomFieldMask, Int/Long/Uint64,
    # Float/Double bits, Byte, String, Increase/DecreaseDepth incl. saturation) on a fixed schedule
    if schemas:
        sc0 = schemas[0]
        plines = ["codec.rgp %s %d %d" % (sc0.sid, rng.below(2 ** 63), rng.choice([12, 60, 600, 6000, 24000])) for _ in range(400 if c.thorough else 120)]
        for l, a, b in c.tie("rgp", plines, sc0.impl, model, prefix=[sc0.desc_line()]):
            o = dict(p.split("=") for p in a.split(" ")[1:] if "=" in p)
            if not a.startswith("ok ") or int(o.get("maxsize", "0")) >= 1024:
                c.oracle_fail(l, "RandomSize exceeds the LimitValue bound (1023) or the primitive schedule failed: " + a[:80], l)
    for sc in schemas:
        if not ra.export_ginfo(c, hginfo, sc):
            continue
        certs = rcerts(c, model, sc)
        witness = sc.sid in ("fr", "fl")
        if sc.sid == "fr":
            for inst, it in sc.items:
                if inst["tlname"] in ("fr.leak", "fr.ok") and not certs.get(inst["idx"], {}).get("guard", False):
                    c.proof_failures.append({"stage": "certificate", "schema": "fr", "type": inst["tlname"],
                                             "detail": "the guard of fill_terminates is expected to hold for this shape (leak_shape_guard)"})
        if sc.sid == "fo":
            for inst, it in sc.items:
                if inst["tlname"].startswith("fo.") and not certs.get(inst["idx"], {}).get("guard", False):
                    c.proof_failures.append({"stage": "certificate", "schema": "fo", "type": inst["tlname"],
                                             "detail": "the guard of fill_terminates is expected to hold for this shape"})
        lines = []
        for inst, it in sc.items:
            n = per
            if sc.sid == "fl":
                n = 1                         # every run of it ends in a fatal stack overflow (slow)
            elif inst["tlname"] == "fr.leak":
                n = 600 if c.thorough else 100          # the shape of the repaired depth leak: must terminate and be tied
            elif witness:
                n = 2 * per
            elif sc.sid == "fo":
                n = (600 if c.thorough else 200) if inst["tlname"].startswith("fo.") else 2
            for _ in range(n):
                lines.append("codec.rnd %s %d %s %d" % (sc.sid, inst["idx"], inst["tlname"], rng.below(2 ** 63)))
        res = c.tie("rnd:" + sc.sid, lines, sc.impl, model, prefix=ra.prefix(sc), canon=ra.canon_rnd,
                    nontrivial=lambda l, a: a.startswith("ok ") and not a.startswith("ok n=1 "))
        for l, a, b in res:
            ty = int(l.split(" ")[2])
            if ra.canon_rnd(a) == "diverge":
                if b.startswith("big "):
                    c.count("rnd:budget-exceeded-but-finite")      # the model completed the run: large, not unbounded
                    continue
                ce = certs.get(ty, {})
                key = None
                if not ce.get("productive", True):
                    key = K_LOOP
                elif not (ce.get("ranked", True) and ce.get("bounded", True)):
                    key = K_UNION
                elif not ce.get("satok", True):
                    key = K_LEAK
                if key:
                    c.oracle_failures.append({"key": key, "what": key.split(":")[0], "input": l})
                    c.count("known:" + key.split(":")[0])
                    reproduced.add(key)
                else:
                    c.oracle_fail(l, "FillRandom does not terminate although the guards of fill_terminates hold (more than 200000 words drawn / stack exhausted)", l)
                continue
            if not a.startswith("ok "):
                c.oracle_fail(l, "FillRandom harness answered " + a[:80], l)
                continue
            o = cc.outputs("ok " + a)
            if o.get("w1b") == "werr" or o.get("res") == "werr" or o.get("w2") not in ("ok", "n/a") or o.get("wj") != "ok":
                c.oracle_fail(l, "a writer refuses the randomly filled value: " + " ".join("%s=%s" % (k, o.get(k, "?")[:12]) for k in ("w1b", "res", "w2", "wj")), l)
            if o.get("again") != "same" or o.get("dirty") != "same":
                c.oracle_fail(l, "same seed gave a different value (again=%s, into a used object=%s)" % (o.get("again"), o.get("dirty")), l)
    c.extra["known_findings_reproduced"] = sorted(k.split(":")[0] for k in reproduced)
    for k in (K_LOOP, K_UNION):
        if k not in reproduced and not only:
            c.notes.append("known finding not reproduced in this run: " + k)
    c.extra["rule"] = ("every factory item of every schema × seeds: FillRandom over a counting splitmix64 Rand; compared: number of Rand calls, boxed TL1 "
                       "bytes of the value, divergence (>200000 words or stack exhausted ↔ model out of recursion budget); oracle on the implementation: "
                       "TL1/TL2/JSON writers accept the value, a second fresh object and a previously filled object give identical bytes, termination; "
                       "distinct = distinct case line whose run drew more than the maxDepth word")
    c.trusted += ["go/hginfo + overlay: exports gengo's per-field `recursive` flag and pure's GetNatFieldUsage after genGo.compile()",
                  "harness Rand: splitmix64, one word per Rand call; NormFloat64 restricted to multiples of 1/8 in [-125, 125] (exact float bits without float arithmetic)"]
    c.assumptions += ["TL2-origin structs (RandomInt&1 per optional field) are not modelled: no TL1 form to compare; none occurs in the corpus",
                      "RandGenerator SizeHandler/FieldMaskHandler hooks at their defaults (identity)",
                      "FillRandomResultTL1 of functions is tied (bytes of the result) but not covered by fill_valid"]
