"""C18 — random value generation yields valid, reproducible values (DESIGN.md §4 C18)."""
import os
from checks import codec_common as cc
from checks import codec_randacc as ra
from vlib.core import ROOT

MODULES = ["TLVerif.Props.C18"]
THEOREMS = []
SOURCES = ["TLVerif.Codec.Random"]


def run(c):
    c.facts(["Rand"])
    if THEOREMS:
        c.lean(MODULES, THEOREMS, sources=SOURCES)
    schemas = cc.corpus(c)
    only = os.environ.get("C18_ONLY")
    if only:
        schemas = [s for s in schemas if s.sid in only.split(",")]
    model, hcodec, schemas = cc.prepare(c, schemas)
    hginfo = ra.build_hginfo(c)
    rng = c.rng
    per = 40 if c.thorough else 6
    for sc in schemas:
        if not ra.export_ginfo(c, hginfo, sc):
            continue
        lines = []
        for inst, it in sc.items:
            for _ in range(per):
                lines.append("codec.rnd %s %d %s %d" % (sc.sid, inst["idx"], inst["tlname"], rng.below(2 ** 63)))
        res = c.tie("rnd:" + sc.sid, lines, sc.impl, model, prefix=ra.prefix(sc), canon=ra.canon_rnd)
        for l, a, b in res:
            if ra.canon_rnd(a) == "diverge":
                c.oracle_fail(l, "FillRandom does not terminate (process killed by unbounded recursion / timeout)", l)
                continue
            if not a.startswith("ok "):
                c.oracle_fail(l, "FillRandom harness answered " + a[:80], l)
                continue
            o = cc.outputs("ok " + a)
            if o.get("w1b") == "werr" or o.get("w2") not in ("ok", "n/a") or o.get("wj") != "ok":
                c.oracle_fail(l, "a writer refuses the randomly filled value: " + " ".join("%s=%s" % (k, o[k][:12]) for k in ("w1b", "w2", "wj")), l)
            if o.get("again") != "same" or o.get("dirty") != "same":
                c.oracle_fail(l, "same seed gave a different value (again=%s, into a used object=%s)" % (o.get("again"), o.get("dirty")), l)
