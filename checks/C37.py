"""C37 — UDP acknowledgement bookkeeping is exact (DESIGN.md §4 C37)."""
import os

MODULES = ["TLVerif.Props.C37"]
THEOREMS = ["TLVerif.Props.C37." + t for t in []]
HERE = os.path.dirname(os.path.dirname(os.path.abspath(__file__)))


def run(c):
    c.facts(["Acks"])
    model = c.model_exe()
    impl = c.harness("hacks", overlays={"pkg/rpc/udp/verif_acks.go": os.path.join(HERE, "go", "hacks", "overlay", "verif_acks.go")})
    lines = ["acks.seq 0 5:7,1:1,0:0,9:9,8:8", "acks.seq 3 -", "acks.seq 0 0:4294967295", "acks.seq 0 5:4294967295,7:7"]
    c.tie("smoke", lines, impl, model)
