"""C37 — UDP acknowledgement bookkeeping is exact (DESIGN.md §4 C37).

Case line:  acks.seq <prefix0> <from>:<to>,<from>:<to>,...      (`-` = no operation)
Result:     `ok ` + one observation for the initial state and one after every AddAckRange, joined by ` ; `:
            p=<ackPrefix> r=<ranges> e=<checkInvariantsCommon errors> ap=<AckPrefix> ar=<AckFrom:AckTo> as=<AckSet> n=<resend ranges>

The oracle below is evaluated on every implementation output whose history satisfies the wrap-free guard
(from <= to < 2^32-1 for every recorded range): it recomputes the union of the recorded ranges with plain
interval arithmetic (independent of the Lean model) and checks the four clauses of the property on it.
"""
import bisect
import os
import re

MODULES = ["TLVerif.Props.C37"]
THEOREMS = ["TLVerif.Props.C37." + t for t in [
    "maxAckSet_pos", "inv_meaning", "invariant_preserved", "add_set", "invariant_after_history", "set_eq_union",
    "buildAck_sound", "buildAck_exact", "buildAck_set_bound", "buildAck_complete",
    "buildNack_sound", "buildNack_exact", "buildNack_bound", "buildNack_complete", "checkInvariants_silent",
    "state_determined_by_set", "order_irrelevant", "duplicate_irrelevant", "prefix_monotone", "haveHoles_exact",
    "heap_refines", "heap_wellformed",
    "guard_needed_set", "guard_needed_inv", "guard_needed_nack"]]
SOURCES = ["TLVerif.Acks.Acks", "TLVerif.Acks.AcksLemmas", "TLVerif.Acks.AcksBuildLemmas", "TLVerif.Acks.AcksCanonLemmas",
           "TLVerif.Acks.Heap", "TLVerif.Acks.HeapLemmas", "TLVerif.Acks.Driver"]
HERE = os.path.dirname(os.path.dirname(os.path.abspath(__file__)))
M32 = 2**32 - 1  # the guard: to < M32


# ---------------------------------------------------------------- reference: union of recorded ranges
def add_interval(iv, f, t):
    """iv: sorted list of disjoint, non-adjacent inclusive intervals; returns the same with [f,t] added."""
    out = []
    placed = False
    for (a, b) in iv:
        if b + 1 < f:
            out.append((a, b))
        elif t + 1 < a:
            if not placed:
                out.append((f, t))
                placed = True
            out.append((a, b))
        else:
            f, t = min(f, a), max(t, b)
    if not placed:
        out.append((f, t))
    return out


def covered(iv, starts, f, t):
    """[f,t] (f<=t) is a subset of the union."""
    i = bisect.bisect_right(starts, f) - 1
    return i >= 0 and iv[i][0] <= f and t <= iv[i][1]


def touches(iv, starts, f, t):
    """[f,t] (f<=t) intersects the union."""
    i = bisect.bisect_right(starts, t) - 1
    return i >= 0 and iv[i][1] >= f


def parse_pairs(s):
    if s == "-":
        return []
    out = []
    for p in s.split(","):
        ft = p.split(":")
        if len(ft) != 2 or not ft[0].isdigit() or not ft[1].isdigit():
            raise ValueError(p)
        out.append((int(ft[0]), int(ft[1])))
    return out


NONTRIV = re.compile(r"r=\d")
OBS = re.compile(r"^p=(\d+) r=(\S+) e=(-?\d+) ap=(\S+) ar=(\S+) as=(\S+) n=(\S+)$")


def guard_ok(p0, ops):
    return p0 <= M32 and all(f <= t < M32 for f, t in ops)


def bucket(n):
    return str(n) if n <= 3 else "4-9" if n <= 9 else "10-49" if n <= 49 else "50+"


def oracle(c, line, out, max_ack_set, stats):
    """Evaluate the property on one implementation output. Returns True when the guard held (property applicable)."""
    w = line.split(" ")
    if len(w) != 3 or w[0] != "acks.seq":
        return False
    try:
        if not w[1].isdigit():
            return False
        p0 = int(w[1])
        ops = parse_pairs(w[2])
    except ValueError:
        return False
    if not guard_ok(p0, ops):
        return False
    steps = out[3:].split(" ; ")
    if not out.startswith("ok ") or len(steps) != len(ops) + 1:
        c.oracle_fail(line, "implementation gave no observation for a wrap-free history (%s)" % out[:60], line)
        return True
    iv = [(0, p0 - 1)] if p0 > 0 else []
    for i, st in enumerate(steps):
        if i > 0:
            iv = add_interval(iv, ops[i - 1][0], ops[i - 1][1])
        where = "after %d of %d operations" % (i, len(ops))
        m = OBS.match(st)
        if not m:
            c.oracle_fail(line, "unparseable observation %s: %s" % (where, st[:80]), line)
            return True
        try:
            p = int(m.group(1))
            rs = parse_pairs(m.group(2))
            errs = int(m.group(3))
            ap = None if m.group(4) == "-" else int(m.group(4))
            ar = None if m.group(5) == "-" else parse_pairs(m.group(5))[0]
            aset = [] if m.group(6) == "-" else [int(x) for x in m.group(6).split(",")]
            nack = parse_pairs(m.group(7))
        except (ValueError, IndexError):
            c.oracle_fail(line, "unparseable observation %s: %s" % (where, st[:80]), line)
            return True
        starts = [a for a, _ in iv]
        for key in ("obs:total", "obs:ranges=" + bucket(len(rs)), "obs:prefix>0" if p > 0 else "obs:prefix=0"):
            stats[key] = stats.get(key, 0) + 1
        if len(aset) == max_ack_set:
            stats["obs:ackset-at-cap"] = stats.get("obs:ackset-at-cap", 0) + 1
        if len(nack) == max_ack_set:
            stats["obs:nack-at-cap"] = stats.get("obs:nack-at-cap", 0) + 1
        if len(rs) > max_ack_set:
            stats["obs:ranges>MaxAckSet"] = stats.get("obs:ranges>MaxAckSet", 0) + 1
        # (1) kept as a prefix plus sorted, disjoint, non-adjacent ranges
        shape = True
        lo = p
        for k, (f, t) in enumerate(rs):
            if not (f <= t) or (k == 0 and not p < f) or (k > 0 and not lo + 1 < f):
                shape = False
            lo = t
        if not shape:
            c.oracle_fail(line, "not a prefix plus sorted, disjoint, non-adjacent ranges %s: p=%d r=%s" % (where, p, m.group(2)[:80]), line)
        if errs != 0:
            c.oracle_fail(line, "checkInvariantsCommon reports %d error(s) %s" % (errs, where), line)
        # (2) the set equals the union of the recorded ranges (canonical form is unique, so compare forms when the shape is right,
        #     otherwise compare the sets by normalising the implementation's own intervals)
        mine = [(0, p - 1)] if p > 0 else []
        try:
            for f, t in rs:
                if f <= t:
                    mine = add_interval(mine, f, t)
        except Exception:
            mine = None
        if mine != iv:
            c.oracle_fail(line, "acknowledgement set differs from the union of recorded ranges %s: p=%d r=%s, union=%s" % (
                where, p, m.group(2)[:60], ",".join("%d:%d" % x for x in iv[:8])), line)
        # (3) the acknowledgement header never acknowledges an unrecorded number
        if ap is not None and not covered(iv, starts, 0, ap):
            c.oracle_fail(line, "ack header prefix %d acknowledges an unrecorded number %s" % (ap, where), line)
        if ar is not None and (ar[0] > ar[1] or not covered(iv, starts, ar[0], ar[1])):
            c.oracle_fail(line, "ack header range %d..%d acknowledges an unrecorded number %s" % (ar[0], ar[1], where), line)
        bad = [x for x in aset if not covered(iv, starts, x, x)]
        if bad:
            c.oracle_fail(line, "ack set acknowledges unrecorded number %d %s" % (bad[0], where), line)
        if len(aset) > max_ack_set:
            c.oracle_fail(line, "ack set has %d entries > MaxAckSet=%d %s" % (len(aset), max_ack_set, where), line)
        if "EMPTY-SET-FLAGGED" in st or "HAVEHOLES-DIFFERS" in st:
            c.oracle_fail(line, "inconsistent header flags %s" % where, line)
        # (4) the resend request never requests a recorded number
        for (f, t) in nack:
            if f > t:
                c.oracle_fail(line, "resend range %d..%d is inverted (a receiver iterating it wraps through recorded numbers) %s" % (f, t, where), line)
            elif touches(iv, starts, f, t):
                c.oracle_fail(line, "resend range %d..%d requests a recorded number %s" % (f, t, where), line)
        if len(nack) > max_ack_set:
            c.oracle_fail(line, "resend request has %d ranges > MaxAckSet=%d %s" % (len(nack), max_ack_set, where), line)
    return True


# ---------------------------------------------------------------- generators
def fmt(p0, ops):
    return "acks.seq %d %s" % (p0, ",".join("%d:%d" % o for o in ops) if ops else "-")


def exhaustive(dom, length, p0=0):
    rng_all = [(f, t) for f in range(dom) for t in range(f, dom)]
    out = []

    def rec(prefix):
        if len(prefix) == length:
            out.append(fmt(p0, prefix))
            return
        for r in rng_all:
            prefix.append(r)
            rec(prefix)
            prefix.pop()
    rec([])
    return out


def rand_range(rng, base, dom, maxlen):
    f = base + rng.below(dom)
    k = rng.below(8)
    if k < 4:
        ln = 0
    elif k < 7:
        ln = rng.below(maxlen + 1)
    else:
        ln = rng.below(dom + 1)
    t = min(f + ln, base + dom - 1)
    return (f, max(f, t))


def random_seq(rng, dom, n, maxlen, base=0):
    p0 = 0
    if base == 0 and rng.chance(1, 4):
        p0 = rng.below(dom // 2 + 1)
    elif base > 0 and rng.chance(1, 2):
        p0 = base - rng.below(3)
    return fmt(p0, [rand_range(rng, base, dom, maxlen) for _ in range(n)])


def span_cases(rng, k):
    """k separated singles/short ranges in random order, then ranges spanning several of them (the delete-and-continue branch)."""
    step = rng.range(2, 4)
    pts = [(1 + i * step, 1 + i * step + rng.below(step - 1)) for i in range(k)]
    rng.shuffle(pts)
    ops = list(pts)
    for _ in range(rng.range(1, 4)):
        a = rng.below(k * step + 2)
        b = rng.range(a, k * step + 2)
        ops.append((a, b))
    return fmt(0, ops)


def window_protocol(rng, n, base):
    """What Transport.goWrite feeds: packet numbers from a sliding window with loss, reordering, duplicates; batches as (first,last)."""
    ops = []
    nxt = base
    pending = []
    for _ in range(n):
        k = rng.below(10)
        if k < 6:
            cnt = 1 if rng.chance(2, 3) else rng.range(2, 6)
            pending.append((nxt, nxt + cnt - 1))
            nxt += cnt
            if rng.chance(1, 5):
                nxt += rng.range(1, 3)  # lost for now
                pending.append((nxt - 1, nxt - 1)) if rng.chance(1, 2) else None
        if pending and k >= 3:
            i = rng.below(len(pending)) if rng.chance(1, 3) else 0
            ops.append(pending.pop(i))
        if ops and rng.chance(1, 8):
            ops.append(ops[rng.below(len(ops))])  # duplicate
        if rng.chance(1, 10) and nxt > base + 2:
            f = rng.range(base, nxt - 1)
            ops.append((f, min(nxt - 1, f + rng.below(4))))  # resend fills a hole
    ops += pending
    return fmt(0 if base == 0 or rng.chance(1, 2) else base, ops)


def cap_cases(rng, k, stride, width):
    """k separated ranges (every stride-th number, `width` wide) in random order: more than MaxAckSet ranges / singles."""
    pts = [(2 + i * stride, 2 + i * stride + width - 1) for i in range(k)]
    rng.shuffle(pts)
    return fmt(rng.below(2), pts)


def unguarded(rng):
    """Outside the property's domain (wrap / inverted ranges): tie only, the model mirrors uint32 arithmetic."""
    kind = rng.below(4)
    ops = []
    n = rng.range(1, 7)
    for _ in range(n):
        if kind == 0:  # near 2^32
            f = 2**32 - 1 - rng.below(10)
            t = 2**32 - 1 - rng.below(10)
            ops.append((min(f, t), max(f, t)))
        elif kind == 1:  # inverted
            f = rng.below(12)
            t = rng.below(12)
            ops.append((f, t))
        elif kind == 2:  # anything
            ops.append((rng.below(2**32), rng.below(2**32)))
        else:  # mix of small and the last number
            ops.append(rng.choice([(0, 2**32 - 1), (5, 2**32 - 1), (7, 7), (2**32 - 1, 2**32 - 1), (3, 4), (0, 0), (2**32 - 2, 2**32 - 2), (6, 2**32 - 2)]))
    return fmt(rng.choice([0, 0, 1, 2**32 - 1, 2**32 - 2]), ops)


def run(c):
    c.facts(["Acks"])
    c.lean(MODULES, THEOREMS, sources=SOURCES)
    model = c.model_exe()
    impl = c.harness("hacks", overlays={"pkg/rpc/udp/verif_acks.go": os.path.join(HERE, "go", "hacks", "overlay", "verif_acks.go")})
    rng = c.rng
    c.trusted += ["go/hacks harness + in-package overlay driver (copies unexported fields and header fields out)",
                  "factgen `fileconst` extraction of MaxAckSet",
                  "modelled, not verified: Go heap of ackRange nodes as an array of (from, to, next-index) records (pointer = index, "
                  "new node = push; the executed model keeps prevRange/tmpRange cursors and in-place mutation, and is proved to "
                  "refine the list-level model: heap_refines); uint32 arithmetic as Nat modulo 2^32; BuildAck/BuildNegativeAck/"
                  "checkInvariantsCommon traversals (read-only) are modelled on the list view; generated EncHeader setters only set "
                  "the flag bit and the field"]
    c.assumptions += ["theorems hold under the explicit guard from <= to < 2^32-1 for every recorded range and initial prefix <= 2^32-1 "
                      "(guard_needed_* prove it is tight); histories outside the guard are tied (model mirrors the wrap) but the property is not claimed there",
                      "headers are built on fresh EncHeader/ResendRequest values, as Transport.buildDatagram does"]
    try:
        txt = open(os.path.join(HERE, "lean", "TLVerif", "Generated", "AcksFacts.lean")).read()
        max_ack_set = int(re.search(r"def maxAckSet : \w+ := (-?\d+)", txt).group(1))
    except Exception:
        max_ack_set = 50
    c.extra["MaxAckSet"] = max_ack_set

    lines = []
    if c.replay:
        for f in c.replay.get("failures", []):
            if f.get("input"):
                lines.append(f["input"])
        for t in c.replay.get("broken_ties", []):
            lines.append(t["line"])
    # witnesses for the theorems' side conditions / the guard-tightness examples
    lines += ["acks.seq 0 -", "acks.seq 0 0:4294967295", "acks.seq 0 5:4294967295,7:7", "acks.seq 0 5:7,1:1,0:0,9:9,8:8",
              "acks.seq 0 5:7,1:1,9:9", "acks.seq 4294967295 -", "acks.seq 4294967295 0:4294967294", "acks.seq 0 0:4294967294",
              "acks.seq 0 4294967294:4294967294,4294967292:4294967292,0:4294967290,4294967291:4294967291"]
    # exhaustive small histories: every sequence over domain 0..7 (36 non-empty ranges); observations cover every prefix
    ex_len = 4 if c.thorough else 3
    lines += exhaustive(8, ex_len)
    for p0 in (1, 2, 3, 5, 8):
        lines += exhaustive(8, 2, p0)
    if c.thorough:
        lines += exhaustive(10, 3)
        lines += exhaustive(5, 5)
    else:
        lines += exhaustive(4, 4)
    n_ex = len(lines)
    # random histories on growing domains
    scale = 6 if c.thorough else 1
    for dom, n, maxlen, cnt in [(8, 6, 3, 3000), (12, 8, 4, 3000), (20, 12, 5, 2000), (40, 25, 6, 800), (100, 60, 8, 200),
                                (400, 150, 10, 40), (3000, 300, 40, 10)]:
        for _ in range(cnt * scale):
            lines.append(random_seq(rng, dom, rng.range(1, n), maxlen))
    for _ in range(1500 * scale):
        lines.append(span_cases(rng, rng.range(2, 7)))
    for _ in range(300 * scale):
        lines.append(window_protocol(rng, rng.range(5, 60), rng.choice([0, 0, 1000, 2**31, 2**32 - 400])))
    for _ in range(200 * scale):  # near the top of the wrap-free domain
        lines.append(random_seq(rng, 30, rng.range(1, 12), 5, base=2**32 - 1 - 30))
    for k in [max_ack_set - 1, max_ack_set, max_ack_set + 1, max_ack_set + 2, max_ack_set + 20] * (2 if c.thorough else 1):
        if k > 0:
            lines.append(cap_cases(rng, k + 1, 2, 1))        # singles: both caps
            lines.append(cap_cases(rng, k // 3 + 2, 5, 3))   # 3-wide ranges: the ack-set cap falls inside a range
            lines.append(cap_cases(rng, k // 7 + 2, 10, 7))
    n_guarded = len(lines)
    for _ in range(1500 * scale):
        lines.append(unguarded(rng))
    lines += ["acks.seq", "acks.seq 0", "acks.seq x 1:2", "acks.seq 0 1:2:3", "acks.seq 0 1", "acks.seq 4294967296 -", "acks.seq 0 1:4294967296",
              "acks.seq 0 1:2,", "acks.nop 0 -", "acks.seq -1 -", "acks.seq 0 1:-2"]

    lines = list(dict.fromkeys(lines))
    res = c.tie("histories", lines, impl, model,
                nontrivial=lambda l, a: NONTRIV.search(a) is not None)
    applicable = 0
    stats = {}
    for l, a, _ in res:
        if oracle(c, l, a, max_ack_set, stats):
            applicable += 1
            k = "history-length:" + bucket(l.count(":"))
            stats[k] = stats.get(k, 0) + 1
    c.count("oracle:applicable(wrap-free)", applicable)
    c.count("oracle:outside-guard(tie only)", len(lines) - applicable)
    for k, v in sorted(stats.items()):
        c.count(k, v)
    c.extra["rule"] = ("lines: every history of length %d over the 36 non-empty ranges of 0..7 (observed after every step, so all shorter ones too), "
                       "all of length 2 from initial prefixes 1,2,3,5,8, %s; random histories over domains 8..3000 (up to 300 operations), "
                       "separated-ranges-then-spanning-range cases, a sliding-window arrival simulation (loss, reordering, duplicates, batches) at bases "
                       "0, 1000, 2^31, 2^32-400, histories just below 2^32-1, and histories with MaxAckSet-1..MaxAckSet+20 separated ranges (caps of both headers); "
                       "plus histories outside the guard (wrap, inverted ranges) and malformed lines that are only tied. %d exhaustive, %d wrap-free in total. "
                       "distinct = distinct line text; non-trivial = some observation has at least one range" % (
                           ex_len, "length 3 over 0..9 and length 5 over 0..4" if c.thorough else "length 4 over 0..3", n_ex, n_guarded))
