"""C25 — Canonical schema listing is faithful to the schema (DESIGN.md §4 C25)."""
import os
import re
import subprocess
from concurrent.futures import ThreadPoolExecutor

from vlib.core import hx, run_lines, goenv, REPO, run as vrun
from checks import syntaxgen as sg

LEVEL = "exploration"
MODULES = ["TLVerif.Props.C25"]
THEOREMS = ["TLVerif.Props.C25." + t for t in ["listing_line_count", "listing_line_has_tag", "listing_header_fixed", "sortMods_perm",
                                              "tag_print_parse", "line_flattens_applications"]]

BUILTIN_NAMES = ("int", "long", "float", "double", "string")
HEADER = [b"int#a8509bda ? = Int", b"long#22076cba ? = Long", b"float#824dab22 ? = Float", b"double#2210c154 ? = Double",
          b"string#b5286e24 ? = String"]
WITNESS = "syntax.listing d " + hx(b"foo x:(pair int (pair int int)) y:!%int = Foo;")


def unhex(s):
    return b"" if s in ("-", "") else bytes.fromhex(s)


# ---------------------------------------------------------------- parser of the syntax-tree dump (see lean/TLVerif/Syntax/Dump.lean)
class P:
    def __init__(self, s):
        self.s, self.i = s, 0

    def peek(self):
        return self.s[self.i] if self.i < len(self.s) else ""

    def take(self, ch):
        assert self.s[self.i] == ch, (self.s[:self.i], ch)
        self.i += 1

    def until(self, stops):
        j = self.i
        while j < len(self.s) and self.s[j] not in stops:
            j += 1
        r = self.s[self.i:j]
        self.i = j
        return r

    def typeref(self):
        bare = False
        if self.peek() == "%":
            bare = True
            self.i += 1
        name = self.until("<>,|};")
        args = []
        if self.peek() == "<":
            self.i += 1
            while True:
                if self.peek() == "=":
                    self.i += 1
                    a = self.until(",>")
                    args.append(("arith", int(a.split("=")[1])))
                else:
                    args.append(self.typeref())
                if self.peek() == ",":
                    self.i += 1
                    continue
                self.take(">")
                break
        return ("type", bare, name, args)

    def fields(self, close):
        res = []
        while self.peek() != close:
            if self.peek() == ",":
                self.i += 1
            self.take("{")
            name = self.until("|")
            self.take("|")
            mask = self.until("|")
            self.take("|")
            excl = self.until("|")
            self.take("|")
            if self.peek() == "R":
                self.i += 1
                sc = self.until("[")
                if sc.startswith("a:"):
                    sc = "a:" + sc.split("=")[1]
                self.take("[")
                inner = self.fields("]")
                self.take("]")
                body = ("rep", sc, inner)
            else:
                self.take("T")
                body = self.typeref()
            self.take("|")
            self.until("}")
            self.take("}")
            res.append({"name": name, "mask": mask, "excl": excl == "!", "body": body})
        return res


def parse_comb(d):
    assert d.startswith("C[")
    p = P(d)
    p.i = 2
    flags = p.until(";")
    p.take(";")
    mods = p.until(";")
    p.take(";")
    cname = p.until(";")
    p.take(";")
    targs = p.until(";")
    p.take(";")
    fields = p.fields(";")
    p.take(";")
    assert p.s[p.i:p.i + 2] == "t:"
    p.i += 2
    tdecl = p.until(";")
    p.take(";")
    p.i += 2
    fdecl = p.typeref()
    name, tag = cname.split("#")
    return {"builtin": flags[0] == "B", "fn": flags[1] == "F", "mods": mods, "name": name, "tag": tag[:8], "explicit": tag[8] == "e",
            "targs": targs, "fields": fields, "tdecl": tdecl, "fdecl": fdecl}


def lowbare(t):
    return t[1] and t[2][:1].islower()


def guard_rep(fs):
    """inside brackets fields are printed by Field.String() (faithful) except nested repetitions"""
    for f in fs:
        if f["body"][0] == "rep":
            if f["mask"] or f["excl"] or not guard_rep(f["body"][2]):
                return False
    return True


def guard(c):
    """decidable guard under which the listing line is claimed to re-parse to the same combinator"""
    for f in c["fields"]:
        if f["excl"]:
            return "excl"
        b = f["body"]
        if b[0] == "type":
            if b[3]:
                return "applied-type"
            if lowbare(b):
                return "bare-lowercase"
        elif not guard_rep(b[2]):
            return "nested-repeat"
    if c["fn"]:
        r = c["fdecl"]
        if lowbare(r):
            return "bare-lowercase"
        for a in r[3]:
            if a[0] == "type" and (a[3] or lowbare(a)):
                return "nested-result"
    return None


def core_of(c):
    res = c["fdecl"] if c["fn"] else c["tdecl"]
    return (c["name"], c["tag"], c["targs"], repr(c["fields"]), repr(res), c["builtin"])


def overlay():
    return os.path.join(os.path.dirname(os.path.dirname(os.path.abspath(__file__))), "go", "hsyntax", "overlay", "verif_hooks.go")


def build_tl2gen(c):
    binp = os.path.join(c.workdir, "bin", "tl2gen")
    os.makedirs(os.path.dirname(binp), exist_ok=True)
    if os.path.exists(binp):
        os.remove(binp)
    rc, out = vrun(["go", "build", "-o", binp, "./cmd/tl2gen"], cwd=REPO, env=goenv())
    if rc != 0:
        c.build_failed("tl2gen", out)
    return binp


def run_cli(tl2gen, workdir, idx, files):
    d = os.path.join(workdir, "cli", str(idx))
    os.makedirs(d, exist_ok=True)
    paths = []
    for k, data in enumerate(files):
        p = os.path.join(d, "f%d.tl" % k)
        open(p, "wb").write(data)
        paths.append(p)
    outp = os.path.join(d, "out.tl")
    if os.path.exists(outp):
        os.remove(outp)
    p = subprocess.run([tl2gen, "--language=canonical", "--outfile=" + outp] + paths, stdout=subprocess.PIPE, stderr=subprocess.STDOUT, timeout=120)
    if p.returncode != 0 or not os.path.exists(outp):
        return None
    lines = open(outp, "rb").read().split(b"\n")
    if lines and lines[-1] == b"":
        lines.pop()
    res = []
    for i, l in enumerate(lines):
        if i >= 5:
            m = re.match(rb"^(.*) //  (\S+)$", l)
            if not m:
                return [b"BAD-LINE " + l]
            l = m.group(1)
        res.append(l)
    return res


def check_listing(c, key, lines_out, parsed_inputs, reparse, kernel_accepted=False):
    """the property's oracle: lines_out = listing lines (bytes) of the implementation, parsed_inputs = combinator dumps of the
    input schema(s) as parsed by the implementation, reparse(line, fn) = implementation's parse of the terminated line"""
    combs = [parse_comb(d) for d in parsed_inputs]
    listed = [x for x in combs if x["name"] not in BUILTIN_NAMES]
    if lines_out[:5] != HEADER:
        c.oracle_fail(key, "listing does not start with the five builtin lines", key)
        return
    body = lines_out[5:]
    if len(body) != len(listed):
        c.oracle_fail(key, "listing has %d lines for %d constructors/functions" % (len(body), len(listed)), key)
        return
    for x in combs:
        if x["name"] in BUILTIN_NAMES and kernel_accepted:
            hl = [h for h in HEADER if h.startswith(x["name"].encode() + b"#")][0]
            if hl.split(b"#")[1][:8].decode() != x["tag"]:
                c.oracle_fail(key, "builtin %s has tag %s in the schema but the listing prints %s" % (x["name"], x["tag"], hl.decode()), key)
    for line, x in zip(body, listed):
        if (b" " + x["name"].encode() + b"#" + x["tag"].encode() + b" ") not in (b" " + line):
            c.oracle_fail(key, "line %r does not carry the effective tag %s of %s" % (line, x["tag"], x["name"]), key)
            continue
        g = guard(x)
        c.count("line:" + (g or "comparable"))
        r = reparse(line, x["fn"])
        if r is None:
            continue
        if not r.startswith("ok"):
            if g is None:
                c.oracle_fail(key, "terminated line %r does not parse: %s" % (line, r[:60]), key)
            continue
        rc = [parse_comb(d) for d in r.split(" ") if d.startswith("C[")]
        if len(rc) != 1:
            if g is None:
                c.oracle_fail(key, "terminated line %r parses to %d combinators" % (line, len(rc)), key)
            continue
        if g is None and core_of(rc[0]) != core_of(x):
            c.oracle_fail(key, "terminated line %r parses to a different combinator: %r vs %r" % (line, core_of(rc[0]), core_of(x)), key)


def run(c):
    c.facts(["Syntax"])
    c.lean(MODULES, THEOREMS, sources=["TLVerif.Syntax.Printer", "TLVerif.Syntax.PrinterLemmas"])
    model = c.model_exe()
    impl = c.harness("hsyntax", overlays={"internal/tlast/verif_hooks.go": overlay()})
    tl2gen = build_tl2gen(c)
    rng = c.rng
    T = c.thorough
    c.trusted += ["go/hsyntax harness; tl2gen built from the working tree (go build ./cmd/tl2gen) and run as a process",
                  "modelled, not verified: quicktemplate writer, sort.Slice on fewer than 12 modifiers (stable), fmt %08x"]
    c.assumptions += ["'terminated' = the line without its trailing `//  <file>` comment followed by ';' (a function line is parsed after a "
                      "---functions--- header)",
                      "re-parse equality is claimed only under the decidable guard `guard` (plain field types, no '!', no '%' on lower-case "
                      "names, no masked nested repetition, function results without nested applications): outside it the listing flattens "
                      "applications and the line cannot parse back (known finding, fixed witness); the line count and the tag of every "
                      "line are checked for all schemas",
                      "the tl2gen path needs schemas the kernel accepts: repository schemas and a generator of valid schemas; syntactic "
                      "random schemas go through tlast.Generate2TL in-process only"]
    # ------------------------------------------------------------ in-process listing
    lines = []
    if c.replay:
        for f in c.replay.get("failures", []):
            if f.get("input") and f["input"].startswith("syntax."):
                lines.append(f["input"])
        for t in c.replay.get("broken_ties", []):
            if t["line"].startswith("syntax."):
                lines.append(t["line"])
    texts = []
    for f in sg.corpus_files():
        texts.append(open(f, "rb").read())
    for (_, _, ch) in sg.corpus_chunks(10):
        texts.append(ch)
    g = sg.Gen(rng)
    for _ in range(3000 if T else 500):
        texts.append(sg.layout(sg.schema_tokens(g.schema(), rng), rng))
    valid = [sg.valid_schema(rng) for _ in range(400 if T else 60)]
    texts += valid
    for t in texts:
        if len(t) < 60000 or T:
            lines.append("syntax.listing d %s" % hx(t))
    lines.append(WITNESS)
    res1 = c.tie("listing", lines, impl, model)
    # parse the inputs and re-parse every listed line (both sides, tied)
    lines2 = set()
    for l, a, _ in res1:
        if a.startswith("ok"):
            lines2.add("syntax.parse d " + l.split(" ")[2])
            for h in a.split(" ")[1:]:
                lines2.add("syntax.parse d " + hx(unhex(h) + b";"))
                lines2.add("syntax.parse d " + hx(b"---functions---\n" + unhex(h) + b";"))
        elif a in ("panic", "CRASH"):
            c.oracle_fail(l, "listing panicked", l)
    # ------------------------------------------------------------ tl2gen path
    repo_sets = []
    tls = os.path.join(REPO, "internal/tlcodegen/test/tls")
    gm = [os.path.join(tls, x) for x in ("goldmaster.tl", "goldmaster2.tl", "goldmaster3.tl")]
    if all(os.path.exists(x) for x in gm):
        repo_sets.append([open(x, "rb").read() for x in gm])
    for f in sg.corpus_files():
        if os.path.basename(f) not in ("goldmaster2.tl", "goldmaster3.tl", "goldmaster_canonical.tl"):
            repo_sets.append([open(f, "rb").read()])
    sets = repo_sets + [[v] for v in valid]
    with ThreadPoolExecutor(8) as ex:
        cli_out = list(ex.map(lambda kv: run_cli(tl2gen, c.workdir, kv[0], kv[1]), enumerate(sets)))
    for fs, o in zip(sets, cli_out):
        for t in fs:
            lines2.add("syntax.parse d " + hx(t))
            lines2.add("syntax.listing d " + hx(t))
        if o:
            for ln in o[5:]:
                lines2.add("syntax.parse d " + hx(ln + b";"))
                lines2.add("syntax.parse d " + hx(b"---functions---\n" + ln + b";"))
    lines2 = sorted(lines2)
    res2 = c.tie("reparse", lines2, impl, model)
    out = {l: a for l, a, _ in res2}
    mout = {l: b for l, _, b in res2}

    def reparse(line, fn):
        return out.get("syntax.parse d " + hx((b"---functions---\n" if fn else b"") + line + b";"))

    for l, a, _ in res1:
        if not a.startswith("ok"):
            continue
        pin = out.get("syntax.parse d " + l.split(" ")[2], "")
        if not pin.startswith("ok"):
            continue
        lo = [unhex(h) for h in a.split(" ")[1:]]
        if l == WITNESS:
            x = [parse_comb(d) for d in pin.split(" ") if d.startswith("C[")][0]
            r = reparse(lo[5], False)
            rc = [parse_comb(d) for d in r.split(" ") if d.startswith("C[")] if r.startswith("ok") else []
            if len(rc) != 1 or core_of(rc[0]) != core_of(x):
                c.oracle_fail(l, "the listing line %r of `foo x:(pair int (pair int int)) y:!%%int = Foo;` does not parse back to the "
                              "same fields (applications are flattened, '!' and '%%' dropped)" % lo[5], l)
            continue
        check_listing(c, l, lo, [d for d in pin.split(" ") if d.startswith("C[")], reparse)
    ncli = 0
    for k, (fs, o) in enumerate(zip(sets, cli_out)):
        key = "cli " + " ".join(hx(t) for t in fs)
        c.evaluations += 1
        if o is None:
            c.count("cli:rejected-by-kernel")
            if k < len(repo_sets):
                c.oracle_fail(key, "tl2gen --language=canonical failed on a repository schema", key)
            continue
        ncli += 1
        c.count("cli:ok")
        c.distinct.add(str(hash(key)))
        # expected from the model: header + listing lines of every file
        exp = list(HEADER)
        dumps = []
        bad = False
        for t in fs:
            m = mout.get("syntax.listing d " + hx(t), "")
            pi = out.get("syntax.parse d " + hx(t), "")
            if not m.startswith("ok") or not pi.startswith("ok"):
                bad = True
                break
            exp += [unhex(h) for h in m.split(" ")[1:]][5:]
            dumps += [d for d in pi.split(" ") if d.startswith("C[")]
        if bad:
            c.tie_failures.append({"tie": "cli", "line": key[:2000], "impl": "ok (tl2gen accepted)", "model": "model rejects an input file"})
            continue
        if o != exp:
            d = next((i for i, (x, y) in enumerate(zip(o, exp)) if x != y), min(len(o), len(exp)))
            c.tie_failures.append({"tie": "cli", "line": key[:2000], "impl": repr(o[d:d + 1]), "model": repr(exp[d:d + 1])})
        check_listing(c, key, o, dumps, reparse, kernel_accepted=True)
    c.extra["cli_runs_accepted"] = ncli
    c.extra["rule"] = ("in-process: Generate2TL on every repository .tl (whole and 10-line windows), random syntactic schemas and random valid "
                       "schemas; CLI: tl2gen --language=canonical built from the working tree on the goldmaster trio, every repository "
                       "schema and the random valid schemas; every listed line is terminated and parsed again by the Go parser and the "
                       "model; distinct = distinct case line / file set; non-trivial = accepted schemas with at least one listed line")
