"""C09 — decoding into a reused object equals decoding into a fresh one (DESIGN.md §4 C09).

Proof (TL1): lean/TLVerif/Codec/Reuse.lean is a memory-level model of the generated readers (storage of masked-out fields,
stale union variants, slice elements between len and cap, dirty state after a failed read, nil pointers);
Props/C09.lean proves that the observation of a read into ANY old object is the fresh read, for every descriptor.
Tie: the model driver threads ONE such object through every history (codec.seq / codec.reset / the TL1 and Reset steps of
codec.seqx), the harness does the same with ONE generated Go object.  TL2 and JSON steps are tie-only."""
from checks import codec_common as cc
from vlib.core import hx

LEVEL = "proof"
MODULES = ["TLVerif.Props.C09"]
THEOREMS = ["TLVerif.Props.C09." + t for t in [
    "read_into_any_eq_fresh", "read_into_any_eq_fresh_except", "history_independent", "history_last", "reset_eq_fresh",
    "fresh_shaped", "reset_shaped", "read_into_shaped", "history_shaped", "dirty_example",
    "struct_else_branch_resets", "struct_reset_resets", "vector_reslices", "dict_cleared", "union_index_assigned"]]
SOURCES = ["TLVerif.Codec.Reuse", "TLVerif.Codec.ReuseLemmas", "TLVerif.Codec.Ops.Misc", "TLVerif.Codec.Ops.Reuse"]


def run(c):
    c.facts(["Reuse"])
    c.lean(MODULES, THEOREMS, sources=SOURCES)
    model, hcodec, schemas = cc.prepare(c)
    rng = c.rng
    for sc in schemas:
        g = cc.Gen1(sc, rng.fork(), big=c.thorough)
        lines = []
        for inst, it in sc.items:
            for boxed in (0, 1):
                if inst["kind"] == "union" and not boxed:
                    continue
                for _ in range(8 if c.thorough else 3):
                    steps = []
                    for _ in range(rng.range(2, 6)):
                        b = g.value(inst["idx"], not boxed, [], 0)
                        k = rng.below(5)
                        if k == 0:
                            b = b[:rng.below(len(b) + 1)]          # truncated: error leaves a dirty object behind
                        elif k == 1 and sc.sanity:
                            b = cc.mutate(rng, b)
                        steps.append(hx(b))
                    lines.append("codec.seq %s %d %s %d %s" % (sc.sid, inst["idx"], inst["tlname"], boxed, " ".join(steps)))
                    b = g.value(inst["idx"], not boxed, [], 0)
                    lines.append("codec.reset %s %d %s %d %s" % (sc.sid, inst["idx"], inst["tlname"], boxed, hx(b)))
            lines.append("codec.z1 %s %d %s" % (sc.sid, inst["idx"], inst["tlname"]))
        pre = [sc.desc_line()]
        res = c.tie("reuse:" + sc.sid, lines, sc.impl, model, prefix=pre)
        # oracle on the implementation alone: each step of a sequence equals the same input decoded into a fresh object
        fresh = {}
        for l, a, _ in res:
            f = l.split(" ")
            if f[0] == "codec.seq":
                for h, part in zip(f[5:], a.split(" | ")):
                    fresh.setdefault("codec.x1 %s %s %s %s %s" % (f[1], f[2], f[3], f[4], h), []).append((l, part))
        fl = sorted(fresh)
        res2 = c.tie("fresh:" + sc.sid, fl, sc.impl, model, prefix=pre)
        for l, a, _ in res2:
            for (src, part) in fresh[l]:
                if part != a:
                    c.oracle_fail(src, "decoding into a reused object differs from decoding into a fresh one (input %s: reused %s, fresh %s)" % (l.split(" ")[5][:40], part[:60], a[:60]), src)
        zero = {}
        for l, a, _ in res:
            f = l.split(" ")
            if f[0] == "codec.z1":
                zero[(f[1], f[2])] = a
        for l, a, _ in res:
            f = l.split(" ")
            if f[0] == "codec.reset" and a != zero.get((f[1], f[2])) and a != "no-reset":
                c.oracle_fail(l, "Reset does not make the object equal to a fresh one", l)
        # mixed-encoding histories (TL1 / TL2 / JSON / Reset) into one object, for schemas with TL2 code
        if sc.tl2:
            from vlib.core import run_lines
            prep = []
            for inst, it in sc.items:
                if inst["kind"] == "union" and False:
                    continue
                for k in range(10 if c.thorough else 5):
                    g.zero_bias = (0, 50, 90, 90, 97)[k % 5]        # dense and sparse objects: stale data shows when a sparse one follows a dense one
                    b = g.value(inst["idx"], False, [], 0)
                    prep.append((inst, hx(b)))
                g.zero_bias = 0
            tl2s = run_lines(sc.impl, ["codec.x2 %s %d %s 1 %s" % (sc.sid, i["idx"], i["tlname"], h) for i, h in prep], prefix=pre, mem_limit=c.impl_mem_limit)
            jts = run_lines(sc.impl, ["codec.jtext %s %d %s 1 %s" % (sc.sid, i["idx"], i["tlname"], h) for i, h in prep], prefix=pre, mem_limit=c.impl_mem_limit)
            pool = {}
            for (inst, h), a2, aj in zip(prep, tl2s, jts):
                enc = [("1", h)]
                if a2.startswith("ok "):
                    w2 = dict(p.split("=", 1) for p in a2.split(" ")[1:] if "=" in p).get("w2")
                    if w2 and w2 not in ("n/a", "panic", "werr"):
                        enc.append(("2", w2))
                if aj.startswith("ok "):
                    t = aj.split(" ")[1] if len(aj.split(" ")) > 1 else None
                    if t and t != "-":
                        enc.append(("j", t))
                pool.setdefault(inst["idx"], (inst, []))[1].extend(enc)
            mixed = []
            for idx, (inst, encs) in pool.items():
                for _ in range(6 if c.thorough else 3):
                    steps = []
                    for _ in range(rng.range(2, 6)):
                        k, h = rng.choice(encs)
                        r = rng.below(8)
                        if r == 0 and h != "-":
                            h = h[:2 * rng.below(len(h) // 2 + 1)] or "-"     # truncated input: a failed decode leaves a dirty object
                        elif r == 1:
                            steps.append("r:-")
                        steps.append(k + ":" + h)
                    mixed.append("codec.seqx %s %d %s %s" % (sc.sid, inst["idx"], inst["tlname"], " ".join(steps)))
            resm = c.tie("reuse-mixed:" + sc.sid, mixed, sc.impl, model, prefix=pre)
            # oracle on the implementation alone: the same step decoded into a fresh object
            single = {}
            for l, a, _ in resm:
                f = l.split(" ")
                for st, part in zip(f[4:], a.split(" | ")):
                    single.setdefault("codec.seqx %s %s %s %s" % (f[1], f[2], f[3], st), []).append((l, part))
            sl = sorted(single)
            ress = c.tie("fresh-mixed:" + sc.sid, sl, sc.impl, model, prefix=pre)
            for l, a, _ in ress:
                for src, part in single[l]:
                    if part != a:
                        c.oracle_fail(src, "decoding into a reused object differs from decoding into a fresh one (step %s: reused %s, fresh %s)" % (l.split(" ")[4][:50], part[:70], a[:70]), src)
    c.extra["rule"] = ("histories of 2–6 decodes (valid, truncated, mutated inputs) into ONE object per factory item and bare/boxed form, "
                       "Reset after a decode, mixed TL1/TL2/JSON/Reset histories for schemas with TL2 code; the model side threads one "
                       "Reuse.Mem object through the same history (readInto/resetMem, printed through abs); oracle on the implementation: "
                       "every step equals the same input decoded into a fresh object, Reset equals a fresh object; a case is one history line")
    c.trusted += ["ghost presence flag of a struct field in Reuse.Mem (outcome of the last mask test; Go recomputes it from the stored # values)"]
    c.assumptions += ["TL2 and JSON readers have no memory-level model: their steps in mixed histories are tie-only",
                      "bytes-version (slice-backed) dictionaries are not exercised by the harness; the model has map dictionaries only"]
