"""C09 — decoding into a reused object equals decoding into a fresh one (DESIGN.md §4 C09); TL1 part (TL2/JSON parts: see C03/C05 builders)."""
from checks import codec_common as cc
from vlib.core import hx

LEVEL = "translation_validation"
MODULES = []
THEOREMS = []


def run(c):
    if MODULES:
        c.lean(MODULES, THEOREMS)
    model, hcodec, schemas = cc.prepare(c)
    rng = c.rng
    for sc in schemas:
        g = cc.Gen1(sc, rng.fork(), big=c.thorough)
        lines = []
        for inst, it in sc.items:
            for boxed in (0, 1):
                if inst["kind"] == "union" and not boxed:
                    continue
                for _ in range(8 if c.thorough else 3):
                    steps = []
                    for _ in range(rng.range(2, 6)):
                        b = g.value(inst["idx"], not boxed, [], 0)
                        k = rng.below(5)
                        if k == 0:
                            b = b[:rng.below(len(b) + 1)]          # truncated: error leaves a dirty object behind
                        elif k == 1 and sc.sanity:
                            b = cc.mutate(rng, b)
                        steps.append(hx(b))
                    lines.append("codec.seq %s %d %s %d %s" % (sc.sid, inst["idx"], inst["tlname"], boxed, " ".join(steps)))
                    b = g.value(inst["idx"], not boxed, [], 0)
                    lines.append("codec.reset %s %d %s %d %s" % (sc.sid, inst["idx"], inst["tlname"], boxed, hx(b)))
            lines.append("codec.z1 %s %d %s" % (sc.sid, inst["idx"], inst["tlname"]))
        pre = [sc.desc_line()]
        res = c.tie("reuse:" + sc.sid, lines, sc.impl, model, prefix=pre)
        # oracle on the implementation alone: each step of a sequence equals the same input decoded into a fresh object
        fresh = {}
        for l, a, _ in res:
            f = l.split(" ")
            if f[0] == "codec.seq":
                for h, part in zip(f[5:], a.split(" | ")):
                    fresh.setdefault("codec.x1 %s %s %s %s %s" % (f[1], f[2], f[3], f[4], h), []).append((l, part))
        fl = sorted(fresh)
        res2 = c.tie("fresh:" + sc.sid, fl, sc.impl, model, prefix=pre)
        for l, a, _ in res2:
            for (src, part) in fresh[l]:
                if part != a:
                    c.oracle_fail(src, "decoding into a reused object differs from decoding into a fresh one (input %s: reused %s, fresh %s)" % (l.split(" ")[5][:40], part[:60], a[:60]), src)
        zero = {}
        for l, a, _ in res:
            f = l.split(" ")
            if f[0] == "codec.z1":
                zero[(f[1], f[2])] = a
        for l, a, _ in res:
            f = l.split(" ")
            if f[0] == "codec.reset" and a != zero.get((f[1], f[2])) and a != "no-reset":
                c.oracle_fail(l, "Reset does not make the object equal to a fresh one", l)
    c.extra["rule"] = "histories of 2–6 decodes (valid, truncated, mutated) into one object per factory item; Reset after a decode; fresh-object baseline"
