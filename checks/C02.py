"""C02 — TL1 readers accept only canonical encodings (DESIGN.md §4 C02)."""
from checks import codec_common as cc
from vlib.core import hx

MODULES = ["TLVerif.Props.C02"]
THEOREMS = ["TLVerif.Props.C02." + t for t in [
    "tl1_canonical_on", "tl1_canonical", "tl1_canonical_dict_partial_on", "tl1_canonical_dict_partial", "tl1_read_prefix",
    "tl1_canonical_fails_at_dict", "tl1_canonical_fails_at_bit", "rejects_unknown_tag", "rejects_wrong_struct_tag", "rejects_bad_bool",
    "string_only_canonical"]]


def run(c):
    if MODULES:
        c.lean(MODULES, THEOREMS, sources=["TLVerif.Codec.TL1", "TLVerif.Codec.TL1Canon", "TLVerif.Codec.TL1Wf"])
    model, hcodec, schemas = cc.prepare(c, cc.corpus(c) + cc.random_schemas(c, 2 if not c.thorough else 8))
    rng = c.rng
    for sc in schemas:
        cc.certificates(c, model, sc)
        lines = cc.x1_lines(sc, rng, 25 if c.thorough else 6, big=c.thorough, mutants=4, valid=True)
        # pure random byte strings as well
        # valid shapes whose strings are written in non-minimal length forms or with non-zero padding: must be rejected
        g = cc.Gen1(sc, rng.fork(), big=True, noncanon=True)
        must_reject = set()
        for inst, it in sc.items:
            if "prim" not in cc.reach_kinds(sc, inst["idx"]):
                continue
            for _ in range(12 if c.thorough else 4):
                boxed = 1 if (inst["kind"] == "union" or rng.chance(1, 2)) else 0
                g.bad = 0
                b = g.value(inst["idx"], not boxed, [], 0)
                ln = "codec.x1 %s %d %s %d %s" % (sc.sid, inst["idx"], inst["tlname"], boxed, hx(b))
                lines.append(ln)
                if g.bad:
                    must_reject.add(ln)
        for inst, it in (sc.items if sc.sanity else []):   # without --checkLengthSanity a random count is a legitimate huge allocation
            for _ in range(6 if c.thorough else 2):
                boxed = 1 if (inst["kind"] == "union" or rng.chance(1, 2)) else 0
                lines.append("codec.x1 %s %d %s %d %s" % (sc.sid, inst["idx"], inst["tlname"], boxed, hx(rng.bytes(rng.below(40)))))
        pre = [sc.desc_line()]
        res = c.tie("tl1-malformed:" + sc.sid, lines, sc.impl, model, prefix=pre)
        # oracle: accepted prefix must be reproduced by the writer (dict-containing types: re-reading the re-written bytes is a fixpoint)
        again = {}
        for l, a, _ in res:
            if l in must_reject:
                c.count("noncanonical-string:" + a.split(" ")[0])
            if not a.startswith("ok "):
                continue
            f = l.split(" ")
            data = bytes.fromhex(f[5]) if f[5] != "-" else b""
            n = int(a.split(" ")[1])
            o = cc.outputs(a)
            w = o.get("w1b" if f[4] == "1" else "w1")
            if w in (None, "n/a"):
                continue
            if w == "werr":
                c.oracle_fail(l, "reader accepted bytes whose value the writer refuses", l)
                continue
            has_dict = "dict" in cc.reach_kinds(sc, int(f[2]))
            if not has_dict:
                if w != hx(data[:n]):
                    c.oracle_fail(l, "reader accepted a non-canonical TL1 encoding: re-written bytes differ from the consumed prefix", l)
            else:
                wl = 0 if w == "-" else len(w) // 2
                if wl > n:
                    c.oracle_fail(l, "re-written dictionary encoding is longer than the consumed prefix", l)
                again["codec.x1 %s %s %s %s %s" % (f[1], f[2], f[3], f[4], w)] = w
        res2 = c.tie("tl1-canon-fix:" + sc.sid, sorted(again), sc.impl, model, prefix=pre)
        for l, a, _ in res2:
            w = again[l]
            f = l.split(" ")
            o = cc.outputs(a) if a.startswith("ok ") else {}
            if o.get("w1b" if f[4] == "1" else "w1") != w:
                c.oracle_fail(l, "canonical (sorted, de-duplicated) dictionary encoding is not a fixpoint of read∘write", l)
    c.extra["rule"] = ("valid type-directed TL1 encodings, 4 single mutations of each (truncation, bit flip, byte set, word overwrite incl. huge counts, "
                       "append, word swap, delete, insert), random byte strings; oracle: accepted ⇒ re-written = consumed prefix (dict types: fixpoint)")
