"""C38 — RPC calls receive exactly their own responses (DESIGN.md §4 C38).

Proof: Lean theorems over the model of the clientConn call bookkeeping (lean/TLVerif/Rpccalls/ClientConn.lean).
Tie: in-package differential run on a bare clientConn (real setupCall / cancelCall / handlePacket+finishCall /
sendLoop / continueRunningImpl / massCancelRequestsLocked / close), histories exhaustive-small + random.
Search (exploration, not proof): end-to-end client/server runs over TCP and Unix sockets, with and without
encryption, under the race detector (go/hrpccalls_e2e).
"""
from checks.rpccalls_common import inpkg_harness, replay_lines, product, parse_steps, compress_dist
from checks import rpccalls_e2e

MODULES = ["TLVerif.Props.C38"]
THEOREMS = ["TLVerif.Props.C38." + t for t in [
    "reach_iff_run", "finish_delivers_own", "response_goes_to_its_query", "cancel_returns_own",
    "completions_le_setups", "at_most_once", "completed_is_unregistered",
    "inFlight_eq_sentCount", "inFlight_panic_unreachable", "no_panic", "inFlight_eq_sentCount_trace", "no_panic_trace",
    "unsent_never_written", "written_was_set_up", "request_written_at_most_once", "shutdown_closes_when_drained",
    "shutdown_drained_is_closed", "shutdown_open_has_sent_call", "reconnect_sends_queued", "early_response_panics",
    "no_panic_unguarded_fails", "qid_reuse_panics", "close_completes_all", "disconnect_completes_sent",
    "closed_rejects_setup", "request_written_only_when_pending", "panic_sites_modelled"]]

ALPHA = ["s1:-", "s2:-", "s1:f", "s2:p", "s1:c", "x1", "x2", "r1:7", "r2:8", "e1:3", "F", "S", "C", "D", "d0", "d1", "G", "X", "B", "W"]


def gen_random(rng, n, wild):
    ops = []
    nextq = 1
    pend = {}  # qid -> 'u' | 's'
    conn = False
    used = []
    for _ in range(n):
        r = rng.below(100)
        if r < 26:
            if used and wild and rng.chance(1, 6):
                q = rng.choice(used)
            else:
                q = nextq
                nextq += 1 + (rng.below(3) if rng.chance(1, 5) else 0)
            fl = ""
            if rng.chance(1, 6):
                fl += "f"
            x = rng.below(6)
            if x == 0:
                fl += "p"
            elif x == 1:
                fl += "u"
            if rng.chance(1, 4):
                fl += "c"
            ops.append("s%d:%s" % (q, fl or "-"))
            used.append(q)
            pend[q] = "u"
        elif r < 40:
            ops.append("S")
            if conn:
                for q in pend:
                    pend[q] = "s"
        elif r < 49:
            ops.append("C")
            conn = True
        elif r < 70:
            sent = [q for q in pend if pend[q] == "s"]
            if wild and rng.chance(1, 5):
                q = rng.choice(used) if used and rng.chance(3, 4) else rng.below(nextq + 3)
            elif sent:
                q = rng.choice(sent)
            else:
                continue
            if rng.chance(3, 4):
                ops.append("r%d:%d" % (q, rng.below(10 ** 18) if rng.chance(1, 10) else q * 1000 + rng.below(1000)))
            else:
                ops.append("e%d:%d" % (q, rng.below(2 ** 31) if rng.chance(1, 10) else rng.below(100)))
            pend.pop(q, None)
        elif r < 81:
            if pend and not (wild and rng.chance(1, 5)):
                q = rng.choice(sorted(pend))
            elif used:
                q = rng.choice(used)
            else:
                continue
            ops.append("x%d" % q)
            pend.pop(q, None)
        elif r < 85:
            ops.append("F")
        elif r < 88:
            ops.append("D")
            conn = False
        elif r < 93:
            ops.append(rng.choice(["d0", "d1"]))
            conn = False
            pend = {q: v for q, v in pend.items() if v == "u"}
        elif r < 95:
            ops.append("G")
        elif r < 97:
            ops.append("X")
            conn = False
        elif r < 98:
            ops.append("B")
        elif r < 99:
            ops.append("W")
            conn = True
            pend = {q: "s" for q in pend}
        else:
            ops.append("U")
    return ops


def gen_shutdown(rng):
    """graceful shutdown: calls in flight, the server's FIN, calls queued after it, the in-flight calls end one by one —
    by response, RPC error, explicit cancel or local deadline (a cancel of a call whose deadline has passed) —
    then the connect loop runs (W) and the story may go on on the new connection"""
    ops = ["C"]
    q = 0
    inflight, queued = [], []

    def setup():
        nonlocal q
        q += 1
        fl = rng.choice(["-", "-", "p", "p", "u", "c", "pc", "f", "uc"])
        ops.append("s%d:%s" % (q, fl))
        return q
    for _ in range(rng.range(1, 3)):
        inflight.append(setup())
    ops.append("S")
    if rng.chance(1, 3):
        queued.append(setup())
    if rng.chance(1, 8):
        ops.append("B")
    ops.append("F")
    for rnd in range(rng.range(1, 3)):
        todo = list(inflight)
        rng.shuffle(todo)
        while todo or rng.chance(1, 4):
            r = rng.below(10)
            if r < 5 and todo:
                x = todo.pop()
                inflight.remove(x)
                how = rng.below(4)
                ops.append("x%d" % x if how < 2 else ("r%d:%d" % (x, 100 + x) if how == 2 else "e%d:%d" % (x, x)))
            elif r < 7:
                queued.append(setup())
            elif r < 8:
                ops.append("S")
            elif r < 9:
                ops.append(rng.choice(["W", "F", "x%d" % rng.range(1, q + 1)]))
            else:
                ops.append(rng.choice(["S", "B", "r%d:9" % rng.range(1, q + 1)]))
        ops.append("W")
        inflight, queued = queued, []
        if rng.chance(1, 2):
            ops.append("F")
        if not inflight:
            break
    if rng.chance(1, 3):
        ops += rng.choice([["X", "G"], ["D", "W"], ["S"], ["W"]])
    return ops


def oracle_cc(c, line, out):
    """The property evaluated on the implementation's observation of one history."""
    ops = line.split(" ")[1].split(",") if line.split(" ")[1] != "-" else []
    steps, tail = parse_steps(out)
    if tail in ("bad-op", "CRASH") or any(t in out for t in ("WRONGRESP", "okBADBODY", "other", "pBADLEN", "pTRAIL", "p?", "perr", "ret9")):
        c.oracle_fail(line, "clientConn history not executable / foreign result object or corrupt packet observed: %s" % out[-120:], line)
        return
    owner_q = {}  # owner -> qid given at setup
    setup_q = []
    completed = {}  # owner -> completion event
    sent_pkts = {}
    prev_calls = {}
    fresh = True
    wellbehaved = True
    loop_protocol = True
    prev_flags = "000001"
    owner = 0
    for i, op in enumerate(ops):
        k = op[0]
        if k == "s":
            owner += 1
            q = int(op[1:].split(":")[0])
            if q in setup_q:
                fresh = False
            setup_q.append(q)
            cur_owner = owner
        if k in "re":
            q = int(op[1:].split(":")[0])
            if prev_calls.get(q, (0, "s"))[1] == "u":
                wellbehaved = False  # a response for a request that was never written to the connection
        if i >= len(steps):
            if tail == "panic" and i == len(steps):
                if fresh and wellbehaved:
                    c.oracle_fail(line, "clientConn panicked (inFlight<0 / double sent / wrong request) on a history with fresh query ids "
                                  "and responses only for sent requests, at op %d (%s)" % (i, op), line)
            else:
                c.oracle_fail(line, "observation shorter than the history", line)
            return
        evs, st = steps[i]
        if k == "s" and "ret0" in evs:
            owner_q[cur_owner] = q
        calls = {}
        for ent in (st.get("c") or "").split("+"):
            if ent:
                cq, co, cs = ent.split(".")
                calls[int(cq)] = (int(co), cs)
        for e in evs:
            if e[0] == "d":
                o, cb, dq, res = e[1:].split(":")
                o, dq = int(o), int(dq)
                if o in completed:
                    c.oracle_fail(line, "call %d completed twice (%s then %s)" % (o, completed[o], e), line)
                completed[o] = e
                if owner_q.get(o) != dq:
                    c.oracle_fail(line, "result delivered to call %d carries query id %d, its own is %s" % (o, dq, owner_q.get(o)), line)
                if res.startswith("ok") or res.startswith("re"):
                    want = ("r%d:%s" % (dq, res[2:])) if res.startswith("ok") else ("e%d:%s" % (dq, res[2:]))
                    if op != want:
                        c.oracle_fail(line, "call %d (query %d) received %s but the packet of this step was %s: not its own response" % (o, dq, res, op), line)
                elif k not in ("d", "G", "W"):
                    c.oracle_fail(line, "connection-closed result %s delivered by step %s" % (e, op), line)
                elif res == "se" and prev_calls.get(dq, (0, "?"))[1] != "s":
                    c.oracle_fail(line, "side-effect error for a request that was not sent", line)
                elif res in ("ns", "dl") and prev_calls.get(dq, (0, "?"))[1] != "u":
                    c.oracle_fail(line, "no-side-effect/deadline error for a request that was sent", line)
                if dq in calls and calls[dq][0] == o:
                    c.oracle_fail(line, "call %d still registered after its result was delivered" % o, line)
            elif e[0] == "x":
                o, xq, us = e[1:].split(":")
                o, xq = int(o), int(xq)
                if o in completed:
                    c.oracle_fail(line, "call %d completed twice (%s then %s)" % (o, completed[o], e), line)
                completed[o] = e
                if owner_q.get(o) != xq or op != "x%d" % xq:
                    c.oracle_fail(line, "cancel %s returned call %d with query id %d (own %s)" % (op, o, xq, owner_q.get(o)), line)
            elif e.startswith("pr"):
                pq = int(e[2:])
                if pq in sent_pkts and fresh:
                    c.oracle_fail(line, "request %d written to the connection twice" % pq, line)
                sent_pkts[pq] = True
                if pq not in prev_calls:
                    c.oracle_fail(line, "request %d written although its call is not pending" % pq, line)
        # inFlight = number of sent-not-finished calls
        n = int(st.get("n", "0"))
        nsent = sum(1 for v in calls.values() if v[1] == "s")
        if wellbehaved and fresh and n != nsent:
            c.oracle_fail(line, "inFlight=%d but %d sent calls are pending after op %d (%s)" % (n, nsent, i, op), line)
        if n < 0:
            c.oracle_fail(line, "inFlight negative", line)
        # closing / disconnecting completes calls
        flags = st.get("f", "000000")
        if k == "d" or (k == "G" and flags[5] == "0") or (op == "W" and prev_flags[3] == "0"):
            for q, (o, us) in prev_calls.items():
                if us == "s" and o not in completed:
                    c.oracle_fail(line, "sent call %d still pending after the connection was torn down (%s)" % (o, op), line)
                if flags[5] == "0" and o not in completed:
                    c.oracle_fail(line, "call %d still pending after the client was closed (%s)" % (o, op), line)
            if flags[5] == "0" and calls:
                c.oracle_fail(line, "calls remain registered after close", line)
        if k == "s" and flags[5] == "0" and "ret0" in evs:
            c.oracle_fail(line, "call accepted by a closed client connection", line)
        # graceful shutdown: goConnect enters run()/setClientConn only after continueRunningImpl reset isShutdown
        if k == "C" and prev_flags[0] == "1":
            loop_protocol = False
        if loop_protocol and flags[0] == "1" and flags[3] == "1" and n == 0:
            stuck = sorted(o for (o, us) in calls.values() if us == "u")
            c.oracle_fail(line, "after op %d (%s) the connection is in graceful shutdown (server FIN processed), nothing is in flight and it "
                          "is still open: nobody will close it, so calls queued on it%s are never sent and never complete, and the "
                          "server's CloseWait waits for ever" % (i, op, (" (calls %s)" % stuck) if stuck else ""), line)
        if op == "W" and loop_protocol and flags[5] == "1" and n == 0 and any(us == "u" for (_, us) in calls.values()):
            o = min(o for (o, us) in calls.values() if us == "u")
            c.oracle_fail(line, "call %d never completes: after a full turn of the connect loop (bounded wait) it is still queued unsent, "
                          "nothing is in flight and the client is open" % o, line)
        prev_calls = calls
        prev_flags = flags


def run(c):
    c.facts(["Rpccalls"])
    c.lean(MODULES, THEOREMS)
    model = c.model_exe()
    impl = inpkg_harness(c)
    rng = c.rng
    c.trusted += ["go/hrpccalls overlay driver (sequentialises the critical sections; reads sync.Cond waiter counts by reflection "
                  "to detect that sendLoop is parked); factgen panic-site / map-range census",
                  "modelled, not verified: Go mutex/cond/channel semantics, map iteration order (normalised), time (deadlines pinned past/future)"]
    c.assumptions += ["each model step is one pc.mu critical section; the theorems hold for every interleaving of those sections, "
                      "but sections are assumed atomic (that is what the mutex provides) — data-race freedom itself is only explored "
                      "(end-to-end runs under -race)",
                      "responses arrive only for requests that were written to the connection (protocol causality); without it the "
                      "inFlight<0 panic IS reachable (theorem early_response_panics, replayed on the real code each run)",
                      "query ids are never reused by one client (atomic counter in ClientImpl.GetRequest); with reuse the "
                      "'wrong request in queue' panic is reachable (theorem qid_reuse_panics, replayed each run)"]
    lines = replay_lines(c, "rpccalls.cc")
    # witnesses of the two guarded panics: must still be what the code does
    lines += ["rpccalls.cc s5:-,r5:1", "rpccalls.cc s1:-,x1,s1:-,C,S", "rpccalls.cc C,s1:-,s2:-,S,r2:5,r1:4,S"]
    # graceful shutdown drained by a local deadline, a call queued after the FIN, the connect loop
    lines += ["rpccalls.cc C,s1:p,S,F,s2:-,x1,W", "rpccalls.cc C,s1:p,s2:-,S,F,s3:-,r2:7,x1,W,r3:1"]
    for pre in (["C", "s1:p", "s2:-", "S", "F"], ["C", "s1:pc", "S", "F", "s2:-"], ["C", "s1:u", "s2:p", "S", "s3:p", "F"]):
        alpha3 = ["x1", "x2", "r1:7", "r2:8", "e1:3", "s8:-", "s9:p", "S", "W", "F", "D", "d1", "x3", "C", "r8:1"]
        for n in range(1, (4 if c.thorough else 3) + 1):
            for p in product(alpha3, n):
                lines.append("rpccalls.cc " + ",".join(pre + p))
    for i in range(30000 if c.thorough else 5000):
        lines.append("rpccalls.cc " + ",".join(gen_shutdown(rng)))
    maxlen = 4 if c.thorough else 3
    for n in range(0, maxlen + 1):
        for p in product(ALPHA, n):
            lines.append("rpccalls.cc " + (",".join(p) or "-"))
    # connected prefix + exhaustive tails (reaches sent states)
    for pre in (["C", "s1:-", "s2:u", "S"], ["C", "s1:c", "S", "F", "s2:-"], ["s1:-", "s2:f", "s3:p", "C", "S", "s4:c"]):
        alpha2 = ["x1", "x2", "r1:7", "r2:8", "e2:3", "F", "S", "D", "d0", "d1", "G", "X", "s9:-", "C", "x3", "r4:1"]
        for n in range(1, (4 if c.thorough else 3) + 1):
            for p in product(alpha2, n):
                lines.append("rpccalls.cc " + ",".join(pre + p))
    for i in range(60000 if c.thorough else 9000):
        n = rng.range(3, 14) if rng.chance(3, 4) else rng.range(15, 60)
        ops = gen_random(rng, n, wild=rng.chance(1, 4))
        lines.append("rpccalls.cc " + (",".join(ops) or "-"))
    for i in range(300):  # malformed stream
        ops = gen_random(rng, rng.range(1, 6), True)
        j = rng.below(len(ops) + 1)
        ops.insert(j, rng.choice(["", "s", "s1", "s1:z", "x", "xq", "r1", "r1:", "e:1", "Q", "d2", "S1", "s1:-:1", "r1:2:3"]))
        lines.append("rpccalls.cc " + ",".join(ops))
    lines = list(dict.fromkeys(lines))
    res = c.tie("clientconn", lines, impl, model, nontrivial=lambda l, a: "d" in a or "x" in a)
    compress_dist(c)
    for l, a, _ in res:
        if a == "bad-op":
            continue
        oracle_cc(c, l, a)
    # the guarded panics are facts about the code: if they disappear the guards of the theorems are obsolete
    byline = {l: a for l, a, _ in res}
    for w in ("rpccalls.cc s5:-,r5:1", "rpccalls.cc s1:-,x1,s1:-,C,S"):
        if not byline.get(w, "").endswith("panic"):
            c.notes.append("witness %r no longer panics on the implementation (guard of the theorem could be dropped)" % w)
    rpccalls_e2e.run_e2e(c, "C38")
    c.extra["rule"] = ("clientConn histories: every op sequence of length <= %d over %d symbols (2 query ids), 3 connected prefixes x every "
                       "tail of length <= %d over 16 symbols, %d random state-aware histories (length 3..60, 1/4 of them 'wild': reused "
                       "query ids, responses for unsent/unknown ids), 300 malformed lines; distinct = distinct line text; non-trivial = "
                       "at least one call completed (delivery or cancel). End-to-end: see e2e_rule." % (
                           maxlen, len(ALPHA), 4 if c.thorough else 3, 60000 if c.thorough else 9000))
