"""C04 — TL1-to-TL2 conversion preserves values (DESIGN.md §4 C04)."""
from checks import codec_common as cc, codec_tl2 as t2
import os

from vlib.core import ROOT, hx, run_lines

MODULES = ["TLVerif.Props.C04"]
THEOREMS = ["TLVerif.Props.C04." + t for t in [
    "read_tl1_sets_tl2masks", "prim_tl1_tl2_tl1", "float_empty_iff_zero_pattern", "prim_negzero_preserved", "tl1_tl2_tl1",
    "negzero_good", "tl1_tl2_tl1_negzero_at"]]

# thorough tier (goldmaster.tl): WriteJSON of an object that ReadTL2 decoded from an empty body dereferences the nil pointer of a
# non-optional recursive field (`hren next:(Maybe hren) = Hren;`)
HREN_KEY = "codec.x2 gold 80 hren 0 7b0a9327"

# Lead L2 (repaired in the generator: floats are tested with `(x != 0 || 1/x < 0)`): a non-optional float holding -0.0 used to be
# "empty" for the TL2 writer and came back as +0.0.  The former witness lines are fixed inputs that MUST pass; a -0.0 lost again is
# a violation (the failing line is the replay; the model-evaluated guard `noNegZero` only annotates what was hit).
NEGZERO = [("cases.testDictAny", 1, "db4d2b25" + "01000000" + "0000000000000080" + "07000000"),
           ("cases.testDictAny", 1, "db4d2b25" + "02000000" + "0000000000000080" + "00000000" + "0000000000000000" + "01000000"),
           ("cases.testAllDicts", 1, "a6794bec" + "00000000" + "00000000" + "01000000" + "0000000000000080" + "02000000")]


def corpus(c):
    T = cc.TLS
    s = [cc.Schema("cases", [T + "/cases.tl"], tl2="*", sanity=True, bytes_wl="cases_bytes."),
         cc.Schema("wd", [os.path.join(ROOT, "schemas", "wide.tl")], tl2="*", sanity=True, bytes_wl="wd.")]
    if c.thorough:
        s += [cc.Schema("gold", [T + "/goldmaster.tl", T + "/goldmaster2.tl", T + "/goldmaster3.tl"], tl2="*", sanity=True, split=True),
              cc.Schema("casesns", [T + "/cases.tl"], tl2="cases.,casesTL2.", sanity=False)]
    return s


def run(c):
    c.lean(MODULES, THEOREMS, sources=["TLVerif.Codec.TL2", "TLVerif.Codec.TL2Lemmas", "TLVerif.Codec.TL2RoundTrip"])
    model, schemas = t2.prepare(c, corpus(c))
    rng = c.rng
    per = 16 if c.thorough else 8
    replay = set()
    if c.replay:
        for f in c.replay.get("failures", []):
            if f.get("input"):
                replay.add(f["input"])
        for t in c.replay.get("broken_ties", []):
            replay.add(t["line"])
    for sc in schemas:
        pre = [sc.desc_line()]
        by_name = {inst["tlname"]: inst for inst, _ in sc.items}
        items = [(i, it) for i, it in t2.tl2_items(sc) if it[3]]
        g1 = cc.Gen1(sc, rng.fork(), big=c.thorough)
        lines = [l for l in replay if l.split(" ")[1] == sc.sid and l.startswith("codec.x2 ")]
        if sc.sid == "cases":
            for n, boxed, h in NEGZERO:
                lines.append("codec.x2 cases %d %s %d %s" % (by_name[n]["idx"], n, boxed, h))
        if sc.sid == "gold" and "hren" in by_name:
            lines.append("codec.x2 gold %d hren 0 7b0a9327" % by_name["hren"]["idx"])
        rnd = []
        for inst, it in items:
            for boxed in (0, 1):
                if inst["kind"] == "union" and not boxed:
                    continue
                for k in range(per):
                    # dense and sparse objects: in a sparse one nothing non-empty follows a set `true` bit / a late field
                    g1.zero_bias = (0, 0, 60, 95)[k % 4]
                    lines.append(t2.x2_line(sc, inst, boxed, g1.value(inst["idx"], not boxed, [], 0)))
            for _ in range(per // 2):
                rnd.append(("codec.rand %s %d %s %d" % (sc.sid, inst["idx"], inst["tlname"], rng.below(2 ** 32)), inst))
        for (l, inst), a in zip(rnd, t2.impl_only(sc, [l for l, _ in rnd])):
            c.count("codec.rand:" + a.split(" ")[0])
            if a.startswith("ok ") and a != "ok werr":
                lines.append(t2.x2_line(sc, inst, 1, t2.unhex(a[3:])))
        lines = sorted(set(lines))
        # step 1 (tied): R1 -> W2, and the canonical TL1 form of the decoded value
        res = c.tie("r1-w2:" + sc.sid, lines, sc.impl, model, prefix=pre)
        step2 = {}
        for l, a, _ in res:
            if a == "panic":
                c.oracle_fail(l, "generated code panics", l)
            if not a.startswith("ok "):
                continue
            o = dict(p.split("=", 1) for p in a.split(" ")[1:] if "=" in p)
            f = l.split(" ")
            step2.setdefault("codec.r2 %s %s %s %s" % (f[1], f[2], f[3], o["w2"]), []).append((l, o["w1b"]))
        # step 2 (tied): R2 of those bytes -> W1
        res2 = c.tie("r2-w1:" + sc.sid, sorted(step2), sc.impl, model, prefix=pre)
        fails = []      # (x2 line, what)
        for l2, a, _ in res2:
            for l, w1b in step2[l2]:
                if not a.startswith("ok "):
                    fails.append((l, "TL2 bytes converted from a valid TL1 value are rejected by ReadTL2 (%s)" % a))
                    continue
                o = dict(p.split("=", 1) for p in a.split(" ")[2:] if "=" in p)
                if o.get("w1b") != w1b:
                    fails.append((l, "TL1 -> TL2 -> TL1 does not give back the TL1 bytes: %s became %s (TL2 %s)" % (w1b[:80], o.get("w1b", "")[:80], l2.split(" ")[4][:80])))
        # step 3 (implementation only): the whole chain in one process, with the JSON of the value before and after
        cl = ["codec.c4 " + l.split(" ", 1)[1] for l in lines]
        for l, a in zip(cl, t2.impl_only(sc, cl)):
            c.count("codec.c4:" + a.split(" ")[0])
            if a in ("panic", "CRASH"):
                fails.append(("codec.x2 " + l.split(" ", 1)[1], "generated code panics in the chain ReadTL1 -> WriteTL2 -> ReadTL2 -> WriteTL1 / WriteJSON (%s)" % a))
            if not a.startswith("ok "):
                continue
            o = dict(p.split("=", 1) for p in a.split(" ")[1:] if "=" in p)
            x2 = "codec.x2 " + l.split(" ", 1)[1]
            if "j1" not in o:
                fails.append((x2, "ReadTL2 rejects the TL2 conversion of a valid TL1 value (%s)" % o.get("r2")))
            elif o["j1"] != o["j2"]:
                fails.append((x2, "value decoded from TL1 and value decoded from its TL2 conversion have different JSON: %s vs %s" % (
                    t2.unhex(o["j1"])[:120], t2.unhex(o["j2"])[:120])))
            elif o["w1a"] != o["w1b"]:
                fails.append((x2, "TL1 -> TL2 -> TL1 changes the TL1 bytes (in-process chain)"))
        # annotate failures with the model-evaluated predicate `noNegZero` on the decoded value: "guard 0" = the value holds a float
        # -0.0 in a position where the TL2 writer tests emptiness, i.e. the repaired defect L2 is back; every failure is a violation
        gl = sorted(set("codec.g4 " + l.split(" ", 1)[1] for l, _ in fails))
        guard = dict(zip(gl, run_lines(model, gl, prefix=pre)))
        for l, what in fails:
            g = guard.get("codec.g4 " + l.split(" ", 1)[1])
            c.count("c04-fail:" + str(g))
            if "panics in the chain" in what and l.split(" ")[1] == "gold" and l.split(" ")[3] == "hren":
                c.oracle_fail(HREN_KEY, what, l)
            elif g == "guard 0":
                c.oracle_fail(l, what + " [float -0.0 in an empty-test position: is the float emptiness test `x != 0` again?]", l)
            else:
                c.oracle_fail(l, what, l)
    c.extra["rule"] = ("valid type-directed TL1 encodings (bare and boxed) and FillRandom values of every TL1-origin TL2-enabled factory item; "
                       "tied steps R1->W2 and R2->W1, oracle: TL1 bytes after the detour equal the TL1 bytes before; implementation-only chain "
                       "`codec.c4` additionally compares the JSON of both objects. distinct = distinct case line")
    c.assumptions += ["JSON equality is evaluated on the implementation only (the JSON writer is not modelled here)",
                      "per-schema certificates are 'for every schema explored in this run'"]
