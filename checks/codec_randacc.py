"""Helpers of the C18 (random filling) and C43 (accessors) checks: export of the Go generator's per-field decisions
(go/hginfo + overlay into internal/puregen/gengo), the `codec.ext … gi` prefix line, case generators."""
import json
import os
import subprocess

from vlib.core import ROOT, goenv


def build_hginfo(c):
    return c.harness("hginfo", overlays={"internal/puregen/gengo/verif_ginfo.go": os.path.join(ROOT, "go", "hginfo", "overlay", "verif_ginfo.go")})


def gen_flags(sc):
    """the tl2gen flags codec_common.generate uses for this schema (kept in step with it; hginfo parses the same command line)"""
    cmd = ["--language=go", "--pkgPath=verif.local/h/g_%s/tl" % sc.sid, "--basicPkgPath=github.com/VKCOM/tl/pkg/basictl",
           "--generateRandomCode", "--checkLengthSanity=%s" % ("true" if sc.sanity else "false")]
    if sc.tl2:
        cmd.append("--tl2WhiteList=" + sc.tl2)
    if sc.bytes_wl:
        cmd.append("--generateByteVersions=" + sc.bytes_wl)
    if sc.split:
        cmd.append("--split-internal")
    return cmd


def export_ginfo(c, hginfo, sc):
    """sc.ginfo: {canonical name: type info}; every descriptor field gets 'go', 'rec', 'um', 'us', 'bits'."""
    p = subprocess.run(hginfo + gen_flags(sc) + sc.files, stdout=subprocess.PIPE, stderr=subprocess.PIPE, env=goenv())
    if p.returncode != 0:
        c.proof_failures.append({"stage": "generator info export", "schema": sc.sid, "detail": p.stderr.decode(errors="replace")[-1500:]})
        return False
    info = json.loads(p.stdout.decode().strip().split("\n")[-1])
    sc.ginfo = {t["name"]: t for t in info["types"]}
    missing = 0
    for i in sc.desc["instances"]:
        t = sc.ginfo.get(i["name"])
        if i["kind"] == "struct":
            fs = i.get("fields") or []
            gf = (t or {}).get("fields") or []
            if t is None or len(gf) != len(fs):
                missing += 1 if fs else 0
                gf = [{"go": "", "rec": False, "um": False, "us": False, "bits": 0}] * len(fs)
            i["goName"] = (t or {}).get("go", "")
            for f, g in zip(fs, gf):
                f["x"] = g
        elif i["kind"] == "union" and t is not None:
            i["goName"] = t.get("go", "")
            i["variantGo"] = [g["go"] for g in (t.get("fields") or [])]
    sc.ginfo_missing = missing
    return True


def ext_line(sc):
    toks = []
    for i in sc.desc["instances"]:
        if i["kind"] != "struct":
            continue
        for k, f in enumerate(i.get("fields") or []):
            x = f.get("x") or {}
            fl = (1 if x.get("rec") else 0) | (2 if x.get("um") else 0) | (4 if x.get("us") else 0)
            if fl:
                toks.append("%d.%d:%d:%d" % (i["idx"], k, fl, x.get("bits", 0)))
    return "codec.ext %s gi %s" % (sc.sid, " ".join(toks))


def prefix(sc):
    return [sc.desc_line(), ext_line(sc)]


def canon_rnd(a):
    """a process killed by unbounded recursion / a run that exhausts the model's budget are the same observation"""
    return "diverge" if a in ("CRASH", "TIMEOUT", "diverge") or a.startswith("big ") else a


# ------------------------------------------------------------------ C43: accessor cases
def has_accessor(f):
    m = f.get("mask")
    if m:
        return m["k"] != "num"
    return f.get("tl2bit") is not None


def nat_spec(top, fk, f):
    """how the external mask of field f (of the struct stored in top's field fk) is passed; '-' for local masks / none"""
    m = f.get("mask")
    if not m or m["k"] != "param" or fk is None:
        return "-"
    if m["v"] >= len(fk["natArgs"]):
        return None
    a = fk["natArgs"][m["v"]]
    if a["k"] == "field":
        return "f%d:%s" % (a["v"], top["fields"][a["v"]]["x"]["go"])
    if a["k"] == "num":
        return "n%d" % a["v"]
    return None


def acc_targets(sc, top):
    """[(path token, target struct instance, field of top holding it or None)]"""
    res = [("-", top, None)]
    I = sc.desc["instances"]
    for k, fk in enumerate(top.get("fields") or []):
        t = I[fk["ty"]]
        if fk.get("mask") or t["kind"] != "struct" or t.get("isUnwrap") or t.get("isAlias") or t.get("isTypedef") or fk["x"].get("rec"):
            continue
        if not fk["x"]["go"]:
            continue
        res.append(("%d:%s" % (k, fk["x"]["go"]), t, fk))
    return res


def acc_lines(sc, rng, per):
    from checks import codec_common as cc
    from vlib.core import hx
    g = cc.Gen1(sc, rng.fork())
    lines = []
    for top, it in sc.items:
        if top["kind"] != "struct" or top.get("isUnwrap") or top.get("isAlias") or top.get("isTypedef") or top.get("originTL2"):
            continue
        for path, tgt, fk in acc_targets(sc, top):
            fs = tgt.get("fields") or []
            accs = [(i, f) for i, f in enumerate(fs) if has_accessor(f) and f["x"]["go"]]
            specs = {i: nat_spec(top, fk, f) for i, f in accs}
            accs = [(i, f) for i, f in accs if specs[i] is not None]
            if not accs:
                continue
            report = ",".join("%d:%s:%s" % (i, f["x"]["go"], specs[i]) for i, f in accs)
            for i, f in accs:
                ops = []
                if f.get("isBit"):
                    ops = [("set", "0"), ("set", "1")] * max(1, per // 2)
                else:
                    ops = [("set", "-")] * per + [("clear", "-")] * max(1, per // 2)
                for op, arg in ops:
                    a = g.value(top["idx"], False, [], 0)
                    b = g.value(top["idx"], False, [], 0) if (op == "set" and arg == "-") else b""
                    lines.append("codec.acc %s %d %s %s %s %s %d:%s %s %s %s %s" % (
                        sc.sid, top["idx"], top["tlname"], hx(a), hx(b), path, i, f["x"]["go"], op, arg, specs[i], report))
    return lines


def acc_guards(sc, l):
    """static side conditions under which an accessor call must leave IsSet / TL1 / TL2 / JSON presence consistent
    (exactly the hypotheses of Props/C43 `set_preserves_consistent_partial`, plus the harness-level ones):
    returns (shared: bool, sized: bool)."""
    f = l.split(" ")
    I = sc.desc["instances"]
    top = I[int(f[2])]
    i = int(f[7].split(":")[0])
    if f[6] == "-":
        tgt, fk = top, None
    else:
        fk = top["fields"][int(f[6].split(":")[0])]
        tgt = I[fk["ty"]]
    fs = tgt["fields"]
    fi = fs[i]
    m = fi.get("mask")
    shared = False
    if m:
        # another field conditional on the same bit of the same mask
        shared |= any(k != i and g.get("mask") and g["mask"] == m and g["bit"] == fi["bit"] for k, g in enumerate(fs))
        # the mask is itself a conditional field (setters do not propagate to ancestors)
        if m["k"] == "field" and fs[m["v"]].get("mask"):
            shared = True
        if m["k"] == "param":
            a = fk["natArgs"][m["v"]]
            if a["k"] != "field":
                shared = True          # constant argument: the pointer handed to the setter is a temporary
            else:
                # the `#` field of the parent backing the mask reaches other fields too (as mask or nat argument)
                j = a["v"]
                for k, g in enumerate(top["fields"]):
                    if g is fk:
                        uses = sum(1 for x in g["natArgs"] if x["k"] == "field" and x["v"] == j)
                        shared |= uses > 1
                    else:
                        shared |= any(x["k"] == "field" and x["v"] == j for x in g["natArgs"])
                        shared |= bool(g.get("mask")) and g["mask"]["k"] == "field" and g["mask"]["v"] == j
                if top["fields"][j].get("mask"):
                    shared = True
    # the field is itself a mask / nat argument of other fields
    for k, g in enumerate(fs):
        if k != i:
            if g.get("mask") and g["mask"]["k"] == "field" and g["mask"]["v"] == i:
                shared = True
            if any(x["k"] == "field" and x["v"] == i for x in g["natArgs"]):
                shared = True
    sized = any(x["k"] != "num" for x in fi["natArgs"])
    return shared, sized


def canon_acc(a):
    return a.split(" | ")[0]


# ------------------------------------------------------------------ C43: accessor histories on TL2-origin structs
def acc2_lines(sc, rng, per):
    """codec.acc2 lines: random Set(true)/Set(false)/Set(value)/Clear histories on every TL2-origin factory struct that has
    fields with a presence bit of their own (`x?:T`, `x:bit`)"""
    from checks import codec_tl2 as t2
    from vlib.core import hx
    g = t2.Gen2(sc, rng.fork(), maxdepth=3)
    lines = []
    for top, it in sc.items:
        if top["kind"] != "struct" or not top.get("originTL2") or not top.get("hasTL2") or top.get("isUnwrap") or top.get("isAlias") \
                or top.get("isTypedef") or top.get("isFunction") or t2.is_enum_element(sc, top):
            continue
        fs = top.get("fields") or []
        accs = [(i, f) for i, f in enumerate(fs) if f.get("tl2bit") is not None and not f["name"].startswith("_") and f.get("x", {}).get("go")]
        if not accs:
            continue
        report = ",".join("%d:%s:%s" % (i, f["x"]["go"], f["name"]) for i, f in accs)
        for _ in range(per):
            a = g.top(top, g.value(top["idx"]))
            b = g.top(top, g.value(top["idx"]))
            ops = []
            for _ in range(rng.range(1, 6)):
                i, f = rng.choice(accs)
                if f.get("isBit"):
                    ops.append("s%d:%s:%d" % (i, f["x"]["go"], rng.below(2)))
                elif rng.chance(1, 3):
                    ops.append("c%d:%s" % (i, f["x"]["go"]))
                else:
                    ops.append("s%d:%s:v" % (i, f["x"]["go"]))
            lines.append("codec.acc2 %s %d %s %s %s %s %s" % (sc.sid, top["idx"], top["tlname"], hx(a), hx(b), ",".join(ops), report))
    return lines
