"""Helpers of the C18 (random filling) and C43 (accessors) checks: export of the Go generator's per-field decisions
(go/hginfo + overlay into internal/puregen/gengo), the `codec.ext … gi` prefix line, case generators."""
import json
import os
import subprocess

from vlib.core import ROOT, goenv


def build_hginfo(c):
    return c.harness("hginfo", overlays={"internal/puregen/gengo/verif_ginfo.go": os.path.join(ROOT, "go", "hginfo", "overlay", "verif_ginfo.go")})


def gen_flags(sc):
    """the tl2gen flags codec_common.generate uses for this schema (kept in step with it; hginfo parses the same command line)"""
    cmd = ["--language=go", "--pkgPath=verif.local/h/g_%s/tl" % sc.sid, "--basicPkgPath=github.com/VKCOM/tl/pkg/basictl",
           "--generateRandomCode", "--checkLengthSanity=%s" % ("true" if sc.sanity else "false")]
    if sc.tl2:
        cmd.append("--tl2WhiteList=" + sc.tl2)
    if sc.bytes_wl:
        cmd.append("--generateByteVersions=" + sc.bytes_wl)
    if sc.split:
        cmd.append("--split-internal")
    return cmd


def export_ginfo(c, hginfo, sc):
    """sc.ginfo: {canonical name: type info}; every descriptor field gets 'go', 'rec', 'um', 'us', 'bits'."""
    p = subprocess.run(hginfo + gen_flags(sc) + sc.files, stdout=subprocess.PIPE, stderr=subprocess.PIPE, env=goenv())
    if p.returncode != 0:
        c.proof_failures.append({"stage": "generator info export", "schema": sc.sid, "detail": p.stderr.decode(errors="replace")[-1500:]})
        return False
    info = json.loads(p.stdout.decode().strip().split("\n")[-1])
    sc.ginfo = {t["name"]: t for t in info["types"]}
    missing = 0
    for i in sc.desc["instances"]:
        t = sc.ginfo.get(i["name"])
        if i["kind"] == "struct":
            fs = i.get("fields") or []
            gf = (t or {}).get("fields") or []
            if t is None or len(gf) != len(fs):
                missing += 1 if fs else 0
                gf = [{"go": "", "rec": False, "um": False, "us": False, "bits": 0}] * len(fs)
            i["goName"] = (t or {}).get("go", "")
            for f, g in zip(fs, gf):
                f["x"] = g
        elif i["kind"] == "union" and t is not None:
            i["goName"] = t.get("go", "")
            i["variantGo"] = [g["go"] for g in (t.get("fields") or [])]
    sc.ginfo_missing = missing
    return True


def ext_line(sc):
    toks = []
    for i in sc.desc["instances"]:
        if i["kind"] != "struct":
            continue
        for k, f in enumerate(i.get("fields") or []):
            x = f.get("x") or {}
            fl = (1 if x.get("rec") else 0) | (2 if x.get("um") else 0) | (4 if x.get("us") else 0)
            if fl:
                toks.append("%d.%d:%d:%d" % (i["idx"], k, fl, x.get("bits", 0)))
    return "codec.ext %s gi %s" % (sc.sid, " ".join(toks))


def prefix(sc):
    return [sc.desc_line(), ext_line(sc)]


def canon_rnd(a):
    """a process killed by unbounded recursion / a run that exhausts the model's budget are the same observation"""
    return "diverge" if a in ("CRASH", "TIMEOUT", "diverge") else a
