"""C34 — JSON primitive writers emit valid, exactly-decodable JSON (DESIGN.md §4 C34)."""
import base64
import json
import os
import re
import struct

from vlib.core import ROOT, hx
from vlib.core import run as sh

MODULES = ["TLVerif.Props.C34"]
THEOREMS = ["TLVerif.Props.C34." + t for t in [
    "utf8_valid_iff_wellformed", "string_valid_and_denotes", "string_invalid_is_base64_object", "base64_roundtrip",
    "jlexer_unescape_sound", "string_roundtrip", "base64_form_accepted_for_any_content", "writer_loop_refines", "string_roundtrip_go", "string_writer_injective", "uint_is_json_number", "int_is_json_number",
    "uint32_roundtrip", "uint64_roundtrip", "int32_roundtrip", "int64_roundtrip", "uint_out_of_range_rejected",
    "float_special", "float_class_fields", "float_finite_roundtrip_partial", "float_writer_cases"]]
SOURCES = ["TLVerif.Jsonp." + m for m in ["Utf8", "Base64", "Writer", "Reader", "Driver", "Utf8Lemmas", "Base64Lemmas",
                                          "StringLemmas", "NumLemmas", "FloatLemmas", "Float", "FloatFiniteLemmas"]]


def unhex(s):
    return b"" if s == "-" else bytes.fromhex(s)


def is_utf8(b):
    try:
        b.decode("utf-8")
        return True
    except UnicodeDecodeError:
        return False


# RFC 8259 section 7 over the decoded text: quotation-mark *char quotation-mark
JSON_STRING = re.compile(r'"(?:[\x20-\x21\x23-\x5B\x5D-\U0010FFFF]|\\["\\/bfnrt]|\\u[0-9a-fA-F]{4})*"\Z')
JSON_FIXED = re.compile(r'-?(?:0|[1-9][0-9]*)(?:\.[0-9]+)?\Z')
JSON_INT = re.compile(r'-?(?:0|[1-9][0-9]*)\Z')


def canon(a):
    """the part of a result line that the Lean model also produces"""
    return a.split(" # ", 1)[0]


def fields(a):
    tail = a.split(" # ", 1)[1] if " # " in a else ""
    return dict(kv.split("=", 1) for kv in tail.split(" ") if "=" in kv)


# ------------------------------------------------------------------ generators
CP_CLASSES = [
    (0x00, 0x1F), (0x20, 0x7E), (0x22, 0x22), (0x5C, 0x5C), (0x7F, 0x7F), (0x80, 0x7FF), (0x800, 0xFFF), (0x1000, 0xD7FF),
    (0xD7FF, 0xD7FF), (0xE000, 0xE000), (0x2028, 0x2029), (0x2027, 0x202A), (0xFFFD, 0xFFFD), (0xFFFE, 0xFFFF), (0xE000, 0xFFFF),
    (0x10000, 0x10000), (0x10000, 0x3FFFF), (0x40000, 0xFFFFF), (0x100000, 0x10FFFF), (0x10FFFF, 0x10FFFF), (0x3C, 0x3E), (0x26, 0x26),
]


def rand_cp(rng):
    a, b = rng.choice(CP_CLASSES)
    return rng.range(a, b)


def rand_utf8(rng, n):
    return "".join(chr(rand_cp(rng)) for _ in range(n)).encode("utf-8")


def boundary_seqs():
    """lead byte x boundary continuation bytes, all lengths 1..4 (valid, overlong, surrogate, > max rune, truncated)"""
    conts = [0x00, 0x7F, 0x80, 0x8F, 0x90, 0x9F, 0xA0, 0xBF, 0xC0, 0xFF]
    leads = [0x7F, 0x80, 0xBF, 0xC0, 0xC1, 0xC2, 0xDF, 0xE0, 0xE1, 0xEC, 0xED, 0xEE, 0xEF, 0xF0, 0xF1, 0xF3, 0xF4, 0xF5, 0xF7, 0xF8, 0xFF]
    out = []
    for l in leads:
        out.append(bytes([l]))
        for a in conts:
            out.append(bytes([l, a]))
            for b in [0x7F, 0x80, 0xA8, 0xA9, 0xBF, 0xC0]:
                out.append(bytes([l, a, b]))
                for c in [0x7F, 0x80, 0xBF, 0xC0]:
                    out.append(bytes([l, a, b, c]))
    return out


def string_inputs(c, rng):
    out = [b""]
    out += [bytes([a]) for a in range(256)]
    # every 2-byte string (thorough) / every 2-byte string that starts with a lead byte + a sample of the rest (quick)
    for a in range(256):
        for b in range(256):
            if c.thorough or a >= 0xC0 or rng.chance(1, 4 if a >= 0x80 or a < 0x20 or a in (0x22, 0x5C) else 16):
                out.append(bytes([a, b]))
    bs = boundary_seqs()
    out += bs
    out += [b"ab" + x + b"cd" for x in bs[::3]]
    # every Unicode scalar value, 1024 per string
    for base in range(0, 0x110000, 1024):
        if 0xD800 <= base < 0xE000:
            continue
        out.append("".join(chr(base + i) for i in range(1024)).encode("utf-8"))
    # random valid UTF-8 of every short length, some long
    for n in list(range(1, 80)) * (4 if c.thorough else 1) + [rng.range(80, 3000) for _ in range(60 if c.thorough else 12)]:
        out.append(rand_utf8(rng, n))
    # invalid: random bytes of every length (all base64 paddings), valid text with one damaged byte, truncated text
    for n in list(range(1, 100)) * (3 if c.thorough else 1) + [rng.range(100, 4000) for _ in range(40 if c.thorough else 8)]:
        out.append(rng.bytes(n))
        out.append(bytes([0xFF]) + bytes(rng.range(0x20, 0x7E) for _ in range(n - 1)))
    for _ in range(3000 if c.thorough else 500):
        s = bytearray(rand_utf8(rng, rng.range(1, 30)))
        k = rng.below(4)
        if k == 0:
            s[rng.below(len(s))] = rng.below(256)
        elif k == 1:
            s = s[:rng.below(len(s)) + 1]
        elif k == 2:
            s.insert(rng.below(len(s) + 1), rng.range(0x80, 0xFF))
        else:
            del s[rng.below(len(s))]
        out.append(bytes(s))
    return out


def int_values(rng, bits, signed, n_random):
    vals = set()
    lim = 1 << bits
    for k in range(0, 21):
        for d in (-1, 0, 1):
            vals.add(10 ** k + d)
            vals.add(-(10 ** k) + d)
    for k in range(0, bits + 1):
        for d in (-1, 0, 1):
            vals.add((1 << k) + d)
            vals.add(-(1 << k) + d)
    for _ in range(n_random):
        v = rng.below(1 << rng.range(1, bits))
        vals.add(v)
        vals.add(-v)
    lo, hi = (-(lim >> 1), (lim >> 1) - 1) if signed else (0, lim - 1)
    return sorted(v for v in vals if lo <= v <= hi)


def float_patterns(c, rng, ebits, mbits):
    out = []
    emax = (1 << ebits) - 1
    mmax = (1 << mbits) - 1
    for e in range(0, emax + 1):
        ms = [0, 1, mmax, rng.below(mmax + 1)]
        if c.thorough or ebits == 8:
            ms += [mmax - 1, 1 << (mbits - 1), rng.below(mmax + 1)]
        if c.thorough:
            ms += [rng.below(mmax + 1) for _ in range(6)] + [(1 << rng.below(mbits)) for _ in range(3)]
        for m in ms:
            for s in (0, 1):
                out.append((s << (ebits + mbits)) | (e << mbits) | m)
    nrand = (1000000 if mbits == 52 else 200000) if c.thorough else 8000
    for _ in range(nrand):
        out.append(rng.below(1 << (1 + ebits + mbits)))
    # short decimals, integers, powers of ten and two: values people actually send
    fmt, ifmt = ("<d", "<Q") if mbits == 52 else ("<f", "<I")
    for _ in range(4000 if c.thorough else 600):
        k = rng.below(4)
        if k == 0:
            v = rng.below(10 ** rng.range(1, 17)) / 10 ** rng.below(17)
        elif k == 1:
            v = float(rng.below(1 << rng.range(1, 64)))
        elif k == 2:
            v = 10.0 ** rng.range(-40, 40)
        else:
            v = 2.0 ** rng.range(-140, 127)
        if rng.chance(1, 2):
            v = -v
        try:
            out.append(struct.unpack(ifmt, struct.pack(fmt, v))[0])
        except OverflowError:
            pass
    return out


ESCAPES = [b'\\"', b"\\\\", b"\\/", b"\\b", b"\\f", b"\\n", b"\\r", b"\\t"]


def rand_json_string_body(rng, n, evil):
    parts = []
    for _ in range(n):
        k = rng.below(12)
        if k < 3:
            parts.append(bytes([rng.range(0x20, 0x7E)]).replace(b'"', b"a").replace(b"\\", b"b"))
        elif k < 5:
            parts.append(rng.choice(ESCAPES))
        elif k == 5:
            parts.append(b"\\u%04x" % rng.choice([rng.below(0x80), rng.below(0x10000), 0x2028, 0xFFFD, rng.range(0xD800, 0xDFFF)]))
        elif k == 6:
            hi, lo = rng.range(0xD800, 0xDBFF), rng.range(0xDC00, 0xDFFF)
            parts.append((b"\\u%04X\\u%04x" % (hi, lo)) if rng.chance(3, 4) else (b"\\u%04x\\u%04x" % (lo, hi)))
        elif k == 7:
            parts.append(chr(rand_cp(rng)).encode("utf-8"))
        elif k == 8:
            parts.append(b"\\" * rng.range(1, 5) + rng.choice([b'"', b"n", b"x", b""]) if evil else b"\\\\")
        elif k == 9 and evil:
            parts.append(rng.choice([b"\\u12", b"\\uZZZZ", b"\\x41", b"\\", b"\\ud800\\u12", b"\\ud800\\n", bytes([rng.below(0x20)]),
                                     bytes([rng.range(0x80, 0xFF)]), b'"']))
        else:
            parts.append(bytes([rng.range(0x30, 0x7A)]).replace(b"\\", b"c"))
    return b"".join(parts)


WS = [b"", b"", b" ", b"\n", b"\t\r ", b"  "]


def rand_b64_text(rng):
    k = rng.below(8)
    raw = rng.bytes(rng.below(12))
    t = bytearray(base64.b64encode(raw))
    if k == 0 and t:
        t[rng.below(len(t))] = rng.choice(list(b"=-_ \n\r.A/+"))
    elif k == 1:
        t = t.rstrip(b"=")
    elif k == 2 and t:
        t.insert(rng.below(len(t) + 1), rng.choice(list(b"\n\r \n\r=")))
    elif k == 3:
        t += rng.choice([b"=", b"==", b"A", b"\n", b"\r\n", b"AA", b"AAA", b"A==="])
    elif k == 4 and t:
        del t[rng.below(len(t))]
    return bytes(t)


def json_escape_some(rng, t):
    out = bytearray()
    for ch in t:
        if ch in (10, 13):
            out += b"\\n" if ch == 10 else b"\\r"
        elif ch in (0x22, 0x5C) or ch < 0x20:
            out += b"\\u%04x" % ch
        elif rng.chance(1, 10):
            out += b"\\u%04x" % ch
        elif ch == 0x2F and rng.chance(1, 2):
            out += b"\\/"
        else:
            out.append(ch)
    return bytes(out)


def rand_string_reader_input(rng):
    k = rng.below(10)
    if k < 4:
        return rng.choice(WS) + b'"' + rand_json_string_body(rng, rng.below(10), k >= 2) + rng.choice([b'"', b'"', b'"', b""]) + \
            rng.choice([b"", b" ", b",", b'"x"', b"}", b"tail"])
    if k < 8:
        members = []
        for _ in range(rng.choice([1, 1, 1, 1, 0, 2, 3])):
            key = rng.choice([b"base64"] * 6 + [b"base65", b"Base64", b"", b"\\u0062ase64", b"base64 "])
            val = b'"' + json_escape_some(rng, rand_b64_text(rng)) + b'"'
            if rng.chance(1, 12):
                val = rng.choice([b"12", b"null", b"true", b"{}", b"[]", b'"'])
            members.append(rng.choice(WS) + b'"' + key + b'"' + rng.choice(WS) + rng.choice([b":"] * 8 + [b"", b",", b"::"]) + rng.choice(WS) + val)
        body = rng.choice([b","] * 8 + [b"", b",,", b" , "]).join(members)
        return rng.choice(WS) + rng.choice([b"{"] * 9 + [b"[", b"{{"]) + body + rng.choice(WS) + rng.choice([b""] * 9 + [b","]) + \
            rng.choice([b"}"] * 9 + [b"]", b""]) + rng.choice([b"", b" ", b"x", b"}"])
    alphabet = b'"\\{}[]:, \n\tbase64=AQu0d8nrtf/-+1.eE'
    return bytes(rng.choice(list(alphabet)) for _ in range(rng.below(14)))


def rand_number_reader_input(rng, bits, signed):
    k = rng.below(12)
    lim = 1 << bits
    edge = rng.choice([0, 1, lim - 1, lim, lim + 1, lim // 2 - 1, lim // 2, lim // 2 + 1, (1 << 64) - 1, 1 << 64, (1 << 63), (1 << 63) + 1,
                       rng.below(lim), rng.below(1 << 70), rng.below(1000)])
    txt = str(edge).encode()
    sign = rng.choice([b"", b"", b"-", b"-", b"+", b"--", b"-+"])
    if k == 0:
        txt = b"0" * rng.range(1, 3) + txt
    elif k == 1:
        txt += rng.choice([b".0", b".", b"e0", b"E+1", b"e", b"e+", b"e-2", b".5e3", b"e1e1", b"..", b"_1", b"x", b"a", b"-", b"+", b"1e"])
    elif k == 2:
        txt = bytes(rng.choice(list(b"0123456789-+.eE_ ")) for _ in range(rng.below(8)))
    body = sign + txt
    if rng.chance(1, 3):
        body = b'"' + (json_escape_some(rng, body) if rng.chance(1, 2) else body) + b'"'
    return rng.choice(WS) + body + rng.choice([b"", b"", b" ", b",", b"}", b"]", b":", b"\n", b"x", b'"', b"/", b"[", b"{"])


def rand_float_special_input(rng):
    words = [b"NaN", b"nan", b"NAN", b"nAn", b"Inf", b"inf", b"+Inf", b"-Inf", b"+inf", b"-INF", b"Infinity", b"-infinity", b"+INFINITY",
             b"infi", b"infin", b"infinit", b"infinityy", b"+nan", b"-nan", b"na", b"in", b"+", b"-", b"", b"nanx", b"+Infx", b"i", b"n",
             b"1", b"1.5", b"-0", b"1e999", b"0x1p-2", b"Inf ", b" Inf", b"+-Inf", b"I\\u006ef", b"\\u002bInf", b"-\\u0049nf", b"NaN\\n"]
    w = rng.choice(words)
    if rng.chance(1, 6):
        return rng.choice(WS) + w + rng.choice([b"", b" "])
    return rng.choice(WS) + b'"' + w + rng.choice([b'"'] * 9 + [b""]) + rng.choice([b"", b" ", b",", b"x"])


FLOAT_EDGES = [
    b"0", b"-0", b"0.0", b"1", b"1.5", b"0.1", b"0.3", b"1e0", b"1E5", b"1e+5", b"1e-5", b"123456789012345678901234567890",
    b"1.7976931348623157e308", b"1.7976931348623158e308", b"1.7976931348623159e308", b"1.797693134862315807e308", b"1e308", b"1e309",
    b"2e308", b"4.9e-324", b"5e-324", b"2.4703282292062327e-324", b"2.4703282292062328e-324", b"2.47032822920623272e-324", b"2e-324", b"3e-324",
    b"1e-400", b"2.2250738585072014e-308", b"2.2250738585072011e-308", b"2.225073858507201e-308", b"9007199254740993", b"9007199254740992",
    b"9007199254740995", b"9007199254740993.0000000000000001", b"3.4028234663852886e38", b"3.4028235e38", b"3.4028236e38", b"3.40282356e38",
    b"3.4028235677973366e38", b"3.4028235677973367e38", b"1.401298464324817e-45", b"1e-45", b"7e-46", b"7.006492321624085e-46",
    b"7.006492321624086e-46", b"1.1754943508222875e-38", b"1.17549435e-38", b"16777217", b"16777216", b"16777219", b"0.000001", b"100000000000000000000",
    b"1e23", b"8.41e21", b"2.2250738585072012e-308", b"1.00000005960464477539062500", b"1.000000059604644775390625", b"1.0000000596046447753906251",
    b"1e5000", b"1e-5000", b"0e99999", b"1e99999", b"1e-99999", b"0.5e1", b".5", b"5.", b".", b"e5", b"1e", b"1e+", b"1.2.3", b"1ee5", b"+1", b"--1", b"-",
    b"+", b"", b"1-", b"1e5-", b"00.5", b"01", b"1e05", b"1e-05",
]


def rand_float_text(rng):
    k = rng.below(10)
    if k < 2:
        t = rng.choice(FLOAT_EDGES)
    elif k < 6:
        nd = rng.choice([1, 2, 5, 9, 10, 16, 17, 18, 20, 25, 40])
        digits = "".join(str(rng.below(10)) for _ in range(rng.range(1, nd)))
        pos = rng.below(len(digits) + 1)
        t = (digits[:pos] + ("." if rng.chance(2, 3) else "") + digits[pos:]).encode()
        if rng.chance(1, 2):
            t += rng.choice([b"e", b"E"]) + rng.choice([b"", b"+", b"-"]) + str(rng.choice([rng.below(40), rng.below(400), rng.below(330)])).encode()
    elif k < 8:
        # a value next to a rounding boundary: the exact midpoint of two adjacent doubles/floats, and its neighbours in the last place
        if rng.chance(1, 2):
            b = rng.below((0x7FF << 52) - 1)
            lo, hi = struct.unpack("<d", struct.pack("<Q", b))[0], struct.unpack("<d", struct.pack("<Q", b + 1))[0]
        else:
            b = rng.below((0xFF << 23) - 1)
            lo, hi = struct.unpack("<f", struct.pack("<I", b))[0], struct.unpack("<f", struct.pack("<I", b + 1))[0]
        from fractions import Fraction
        mid = (Fraction(lo) + Fraction(hi)) / 2
        if mid == 0:
            t = b"0"
        else:
            # exact decimal expansion of the midpoint (finite: denominators are powers of two)
            den = mid.denominator
            sh = den.bit_length() - 1
            num10 = mid.numerator * 5 ** sh
            ds = str(num10)
            if rng.chance(1, 3):
                ds = str(num10 + rng.choice([-1, 1]))
            elif rng.chance(1, 3):
                ds = ds + rng.choice(["0", "1", "0000000001"])
                sh += len(ds) - len(str(num10))
            t = (ds + "e-" + str(sh)).encode()
            if len(t) > 900:
                t = FLOAT_EDGES[rng.below(20)]
    else:
        t = bytes(rng.choice(list(b"0123456789.eE+-")) for _ in range(rng.below(9)))
    if rng.chance(1, 5):
        t = rng.choice([b"-", b"+", b"-"]) + t
    if rng.chance(1, 3):
        return rng.choice(WS) + b'"' + t + b'"' + rng.choice([b"", b"x"])
    return rng.choice(WS) + t + rng.choice([b"", b"", b" ", b",", b"}", b"]", b"\n", b"x"])


# ------------------------------------------------------------------ the check
def run_check(c):
    c.facts(["Jsonp"])
    c.lean(MODULES, THEOREMS, sources=SOURCES)
    model = c.model_exe()
    gen = c.harness("hjsonpgen", srcdir=os.path.join(ROOT, "go", "hjsonp", "gen"),
                    overlays={"internal/puregen/gengo/verif_jsonp_export.go": os.path.join(ROOT, "go", "hjsonp", "overlay", "verif_jsonp_export.go")})
    rc, helpers_src = sh(gen)
    if rc != 0 or "func Json2ReadString(" not in helpers_src:
        c.build_failed("hjsonpgen (run)", helpers_src)
    hp = os.path.join(c.workdir, "helpers_gen.go")
    with open(hp, "w") as f:
        f.write(helpers_src)
    impl = c.harness("hjsonp", overlays={"internal/verifh/hjsonp/helpers/a_tlgen_helpers_code.go": hp})
    rng = c.rng
    c.trusted += ["go/hjsonp harness (+ gengo template rendered through an overlaid accessor); factgen table extraction",
                  "strconv.AppendFloat(…,'f',-1,…)/ParseFloat for finite floats: modelled as an exact-arithmetic specification "
                  "(correct rounding; shortest digits that read back), tied differentially, their source is not analysed",
                  "modelled, not verified: Go slices/append, unicode/utf8, unicode/utf16, encoding/base64, strconv integer routines, "
                  "easyjson jlexer (each is tied differentially, its source is not analysed)"]
    replay_lines = []
    if c.replay:
        for f in c.replay.get("failures", []):
            if f.get("input"):
                replay_lines.append(f["input"])
        for t in c.replay.get("broken_ties", []):
            replay_lines.append(t["line"])

    # ---------------- phase 1: writers
    lines = list(replay_lines)
    lines += ["jsonp.ws " + hx(s) for s in string_inputs(c, rng)]
    nr = 3000 if c.thorough else 400
    for op, bits, signed in (("wu32", 32, False), ("wi32", 32, True), ("wu64", 64, False), ("wi64", 64, True)):
        for v in int_values(rng, bits, signed, nr):
            lines.append("jsonp.%s %0*x" % (op, bits // 4, v & ((1 << bits) - 1)))
    for p in float_patterns(c, rng, 8, 23):
        lines.append("jsonp.wf32 %08x" % p)
    for p in float_patterns(c, rng, 11, 52):
        lines.append("jsonp.wf64 %016x" % p)
    rng.shuffle(lines)  # long strings are spread over the worker processes
    henv = dict(os.environ, GOMAXPROCS="2")   # 16 harness processes run side by side
    res1 = c.tie("writers", lines, impl, model, canon=canon, env=henv)
    for l, a, _ in res1:
        oracle_writer(c, l, a)

    # ---------------- phase 2: readers on the implementation's own output, on damaged output, and on hostile text
    lines2 = []
    expect = {}
    for l, a, _ in res1:
        f = l.split(" ")
        if f[0] == "jsonp.ws" and a.startswith("ok "):
            out = unhex(a.split(" ")[1])
            if len(out) > 400 and not rng.chance(1, 4):
                continue
            rest = rng.choice([b"", b"", b" ", b",1", b'"', b"}", b"\\", b"x"])
            ln = "jsonp.rs " + hx(out + rest)
            lines2.append(ln)
            expect[ln] = ("str", unhex(f[1]), len(out), l)
            if len(out) <= 64 or rng.chance(1, 8):
                m = bytearray(out)
                k = rng.below(4)
                if k == 0:
                    m[rng.below(len(m))] = rng.choice(list(b'"\\{}:,=\n ') + [rng.below(256)])
                elif k == 1:
                    del m[rng.below(len(m))]
                elif k == 2:
                    m.insert(rng.below(len(m) + 1), rng.choice(list(b'"\\{}:,=\n u0')))
                else:
                    m = m[:rng.below(len(m))]
                lines2.append("jsonp.rs " + hx(bytes(m)))
        elif f[0] in ("jsonp.wu32", "jsonp.wi32", "jsonp.wu64", "jsonp.wi64") and a.startswith("ok "):
            out = unhex(a.split(" ")[1])
            rop = "jsonp.r" + f[0][7:]
            bits = int(f[0][-2:])
            v = int(f[1], 16)
            if f[0][7] == "i" and v >= 1 << (bits - 1):
                v -= 1 << bits
            for form, used in ((out + rng.choice([b"", b" ", b",", b"}", b"]"]), len(out)),
                               (b'"' + out + b'"' + rng.choice([b"", b"x"]), len(out) + 2)):
                ln = "%s %s" % (rop, hx(form))
                lines2.append(ln)
                expect[ln] = ("num", v, used, l)
            # the same text through every other width: accepted iff in range
            for other, ob, osig in (("ru32", 32, False), ("ri32", 32, True), ("ru64", 64, False), ("ri64", 64, True)):
                lo, hi = (-(1 << (ob - 1)), (1 << (ob - 1)) - 1) if osig else (0, (1 << ob) - 1)
                for form, used in ((out, len(out)), (b'"' + out + b'"', len(out) + 2)):
                    ln = "jsonp.%s %s" % (other, hx(form))
                    lines2.append(ln)
                    expect[ln] = ("num", v, used, l) if lo <= v <= hi else ("rej", l)
        elif f[0] in ("jsonp.wf32", "jsonp.wf64") and a.startswith("ok "):
            out = unhex(a.split(" ")[1])
            if out.startswith(b'"'):
                ln = "jsonp.rf " + hx(out + rng.choice([b"", b" ", b","]))
                lines2.append(ln)
                expect[ln] = ("special", {b'"NaN"': "nan", b'"+Inf"': "+inf", b'"-Inf"': "-inf"}.get(out), len(out), l)
            elif rng.chance(1, 8 if c.thorough else 3):
                w = f[0][-2:]
                for form, used in ((out + rng.choice([b"", b" ", b",", b"}", b"]"]), len(out)), (b'"' + out + b'"', len(out) + 2)):
                    ln = "jsonp.rfn%s %s" % (w, hx(form))
                    lines2.append(ln)
                    expect[ln] = ("fbits", f[1], used, l)
                if w == "32" and rng.chance(1, 4):      # the float32 text through the float64 reader and back is another value: tie only
                    lines2.append("jsonp.rfn64 " + hx(out))
    n2 = 60000 if c.thorough else 9000
    for _ in range(n2):
        lines2.append("jsonp.rs " + hx(rand_string_reader_input(rng)))
    for op, bits, signed in (("ru32", 32, False), ("ri32", 32, True), ("ru64", 64, False), ("ri64", 64, True)):
        for _ in range(n2 // 6):
            lines2.append("jsonp.%s %s" % (op, hx(rand_number_reader_input(rng, bits, signed))))
    for _ in range(n2 // 6):
        lines2.append("jsonp.rf " + hx(rand_float_special_input(rng)))
    for _ in range(n2 // 3):
        lines2.append("jsonp.rfn%s %s" % (rng.choice(["32", "64"]), hx(rand_float_text(rng))))
    lines2 = list(dict.fromkeys(lines2))
    rng.shuffle(lines2)
    res2 = c.tie("readers", lines2, impl, model, env=henv)
    for l, a, _ in res2:
        if "DIFFERS" in a:
            c.oracle_fail(l, "string/[]byte (or float32/float64) reader variants differ: " + a[:160], l)
        e = expect.get(l)
        if not e:
            continue
        src = e[-1]   # the writer case this reader case was derived from: reported as the failing input (it reproduces on its own)
        via = " [via %s]" % l[:120]
        if e[0] == "str" and a != "ok %s %d" % (hx(e[1]), e[2]):
            c.oracle_fail(src, "Json2ReadString does not return the written string and stop after it (got %s)" % a[:80] + via, src)
        elif e[0] == "num" and a != "ok %d %d" % (e[1], e[2]):
            c.oracle_fail(src, "integer text written by the writer does not read back as %d (got %s)" % (e[1], a[:60]) + via, src)
        elif e[0] == "rej" and a.startswith("ok"):
            c.oracle_fail(src, "integer text out of the reader's range is accepted (got %s)" % a[:60] + via, src)
        elif e[0] == "fbits" and a != "ok %s %d" % (e[1], e[2]):
            c.oracle_fail(src, "finite float text written by the writer does not read back bit-exactly (got %s)" % a[:60] + via, src)
        elif e[0] == "special" and a != "ok %s %d" % (e[1], e[2]):
            c.oracle_fail(src, "special float string does not read back as %s (got %s)" % (e[1], a[:60]) + via, src)

    # ---------------- phase 3: the library pieces the model rebuilds (utf8, utf16, base64) on their own
    lines3 = []
    for s in [b""] + [bytes([a]) for a in range(256)] + [bytes([a, b]) for a in range(0x80 if not c.thorough else 0, 256) for b in range(256)] + boundary_seqs():
        lines3.append("jsonp.u8 " + hx(s))
    for _ in range(20000 if c.thorough else 3000):
        k = rng.below(3)
        s = rng.bytes(rng.range(1, 6)) if k == 0 else rand_utf8(rng, rng.range(1, 3)) + rng.bytes(rng.below(3)) if k == 1 else \
            bytes([rng.range(0xC0, 0xF7)] + [rng.range(0x80, 0xBF) for _ in range(rng.below(4))])
        lines3.append("jsonp.u8 " + hx(s))
    cps = set([0, 0x7F, 0x80, 0x7FF, 0x800, 0xD7FF, 0xD800, 0xDBFF, 0xDC00, 0xDFFF, 0xE000, 0xFFFD, 0xFFFF, 0x10000, 0x10FFFF, 0x110000,
               0x1FFFFF, 0x200000, 0x7FFFFFFF])
    cps |= set(range(0, 0x110100, 1 if c.thorough else 97))
    cps |= set(rng.below(1 << 31) for _ in range(2000))
    for cp in sorted(cps):
        lines3.append("jsonp.ue %08x" % cp)
    sur = [0, 0xD7FF, 0xD800, 0xD801, 0xDBFF, 0xDC00, 0xDC01, 0xDFFF, 0xE000, 0xFFFF, 0x10000]
    for a in sur + [rng.range(0xD800, 0xDFFF) for _ in range(60)]:
        for b in sur + [rng.range(0xD800, 0xDFFF) for _ in range(60)]:
            lines3.append("jsonp.u16 %08x %08x" % (a, b))
    for n in list(range(0, 40)) * 3 + [rng.range(40, 2000) for _ in range(30)]:
        lines3.append("jsonp.b64e " + hx(rng.bytes(n)))
    for _ in range(40000 if c.thorough else 6000):
        t = rand_b64_text(rng)
        if rng.chance(1, 5):
            t = bytes(rng.choice(list(b"AQg/+=\n\r -_09az")) for _ in range(rng.below(10)))
        lines3.append("jsonp.b64d " + hx(t))
    lines3 = list(dict.fromkeys(lines3))
    res3 = c.tie("library", lines3, impl, model, env=henv)
    for l, a, _ in res3:
        f = l.split(" ")
        if "DIFFERS" in a:
            c.oracle_fail(l, "string and []byte variants of a utf8 routine differ", l)
        if f[0] == "jsonp.b64e" and a != "ok " + hx(base64.b64encode(unhex(f[1]))):
            c.oracle_fail(l, "base64 encoding differs from RFC 4648", l)
        if f[0] == "jsonp.u8" and a.startswith("ok ") and (a.split(" ")[1] == "1") != is_utf8(unhex(f[1])):
            c.oracle_fail(l, "utf8.Valid disagrees with the Unicode definition of well-formed UTF-8", l)
    c.extra["rule"] = (
        "writers: every 1-byte string, 2-byte strings (%s), lead-byte x boundary-continuation sequences of length 1..4, every Unicode "
        "scalar value (1024 per line), random valid UTF-8 of each length, random/damaged invalid strings of each length; integers: 10^k±1, "
        "2^k±1, type limits, random of each bit length; floats: every exponent x {0,1,max,mid,random} mantissas x both signs, random bit "
        "patterns, short decimals; readers: the implementation's own output + random tail, damaged output, grammar-random strings with all "
        "escape kinds / surrogates / bad escapes, base64 objects with damaged keys, separators, padding and newlines, number texts at every "
        "width limit ±1 in both token forms, special-float spellings; library: utf8 on all 1/2-byte strings + boundary sequences, EncodeRune "
        "on %s, utf16 pairs, base64. distinct = distinct line text; every line is a different input (non-trivial)."
        % ("all" if c.thorough else "all that start with a byte >= 0xC0 + 1/4 of those starting with another non-plain byte + 1/16 of the rest", "every code point" if c.thorough else "every 97th code point + boundaries"))


def oracle_writer(c, l, a):
    """the property statement, evaluated on what the implementation wrote and on what independent decoders make of it"""
    f = l.split(" ")
    op = f[0]
    if not a.startswith("ok "):
        if op.startswith("jsonp.w"):
            c.oracle_fail(l, "writer did not produce a result (%s)" % a[:40], l)
        return
    if "DIFFERS" in a:
        c.oracle_fail(l, "writer variants (string/[]byte, nil/exact/spare-capacity buffer) differ: " + a[:200], l)
        return
    out = unhex(a.split(" ")[1])
    fl = fields(a)
    if op == "jsonp.ws":
        s = unhex(f[1])
        want = "ok:%s:%d" % (hx(s), len(out))
        if is_utf8(s):
            try:
                txt = out.decode("utf-8")
                ok = bool(JSON_STRING.match(txt)) and json.loads(txt) == s.decode("utf-8")
            except (UnicodeDecodeError, ValueError):
                ok = False
            if not ok:
                c.oracle_fail(l, "output for a valid UTF-8 string is not an RFC 8259 string that decodes to the same text", l)
        else:
            if out != b'{"base64":"' + base64.b64encode(s) + b'"}':
                c.oracle_fail(l, "output for a non-UTF-8 string is not the base64 object holding the same bytes", l)
        if fl.get("valid") != "1":
            c.oracle_fail(l, "encoding/json.Valid rejects the written string", l)
        if fl.get("std") != hx(s):
            c.oracle_fail(l, "encoding/json decodes the written string to different bytes (%s)" % fl.get("std", "")[:40], l)
        if fl.get("jl") != hx(s):
            c.oracle_fail(l, "jlexer decodes the written string to different bytes (%s)" % fl.get("jl", "")[:40], l)
        if fl.get("g") != want or fl.get("gb") != want:
            c.oracle_fail(l, "generated Json2ReadString/Bytes does not read the written string back exactly (%s)" % fl.get("g", "")[:40], l)
    elif op in ("jsonp.wu32", "jsonp.wi32", "jsonp.wu64", "jsonp.wi64"):
        bits = int(op[-2:])
        v = int(f[1], 16)
        if op[7] == "i" and v >= 1 << (bits - 1):
            v -= 1 << bits
        if out != str(v).encode() or not JSON_INT.match(out.decode("latin-1")):
            c.oracle_fail(l, "integer %d is not written as its canonical decimal JSON number" % v, l)
        if fl.get("valid") != "true" or fl.get("std") != str(v):
            c.oracle_fail(l, "encoding/json does not decode the written integer to %d" % v, l)
        if fl.get("g") != "ok:%d:%d" % (v, len(out)) or fl.get("gs") != "ok:%d:%d" % (v, len(out) + 2):
            c.oracle_fail(l, "generated Json2Read%s does not read %d back (number or string form)" % (op[7:], v), l)
    elif op in ("jsonp.wf32", "jsonp.wf64"):
        wide = op == "jsonp.wf64"
        ebits, mbits = (11, 52) if wide else (8, 23)
        p = int(f[1], 16)
        e = (p >> mbits) & ((1 << ebits) - 1)
        m = p & ((1 << mbits) - 1)
        neg = p >> (ebits + mbits)
        width = 16 if wide else 8
        if e == (1 << ebits) - 1:
            exp = b'"NaN"' if m else (b'"-Inf"' if neg else b'"+Inf"')
            if out != exp:
                c.oracle_fail(l, "special float is not written as its documented string", l)
            g = fl.get("g", "").split(":")
            back = int(g[1], 16) if len(g) == 3 and g[0] == "ok" else None
            if back is None or g[2] != str(len(out)):
                c.oracle_fail(l, "special float string is not read back by Json2ReadFloat", l)
            elif m:
                if (back >> mbits) & ((1 << ebits) - 1) != (1 << ebits) - 1 or back & ((1 << mbits) - 1) == 0:
                    c.oracle_fail(l, "NaN does not read back as a NaN", l)
            elif back != p:
                c.oracle_fail(l, "infinity does not read back as the same infinity", l)
            if fl.get("valid") != "true":
                c.oracle_fail(l, "encoding/json.Valid rejects the special float string", l)
        else:
            hexp = "%0*x" % (width, p)
            if not JSON_FIXED.match(out.decode("latin-1")) or fl.get("valid") != "true":
                c.oracle_fail(l, "finite float is not written as a JSON number", l)
            if fl.get("std") != hexp:
                c.oracle_fail(l, "encoding/json does not decode the written float to the same bits (%s)" % fl.get("std"), l)
            if fl.get("g") != "ok:%s:%d" % (hexp, len(out)) or fl.get("gs") != "ok:%s:%d" % (hexp, len(out) + 2):
                c.oracle_fail(l, "generated Json2ReadFloat does not read the written float back bit-exactly (%s)" % fl.get("g"), l)
            if wide:
                try:
                    pv = struct.unpack("<Q", struct.pack("<d", float(out.decode("latin-1"))))[0]
                except ValueError:
                    pv = None
                if pv != p:
                    c.oracle_fail(l, "an independent correctly-rounded parser reads the written float as different bits", l)


def run(c):
    run_check(c)
