"""C43 — generated field accessors control presence consistently (DESIGN.md §4 C43)."""
import os
from checks import codec_common as cc
from checks import codec_randacc as ra
from vlib.core import ROOT

MODULES = ["TLVerif.Props.C43"]
THEOREMS = ["TLVerif.Props.C43." + t for t in [
    "set_then_isSet", "set_emitted_tl1", "set_stores", "setFalse_then_notSet", "setFalse_absent_tl1",
    "clear_then_notSet", "clear_absent_tl1", "clear_resets",
    "set_frame_vals", "set_frame_tl2", "set_frame_params", "set_frame_maskBits",
    "clear_frame_vals", "clear_frame_tl2", "clear_frame_params", "clear_frame_maskBits",
    "set_keeps_consistent_partial", "clear_keeps_consistent_partial", "ofRead_agrees",
    "accessors_inconsistent_at_shared_bit", "accessors_inconsistent_at_mask_of_mask", "set_does_not_set_ancestor_mask", "toVal2Fields_get", "setFalse_absent_tl2origin"]]
SOURCES = ["TLVerif.Codec.Access", "TLVerif.Codec.Access2", "TLVerif.Codec.AccessLemmas", "TLVerif.Codec.Ops.Access"]
K_SHARED = "C43-shared-mask:accessors-update-only-their-own-presence-bit:qt_struct.qtpl-fieldMaskGettersAndSetters"


def tl2_schemas(c):
    from checks import codec_tl2 as t2
    s = [cc.Schema("ab", [os.path.join(ROOT, "schemas", "accbits.tl2")], tl2="*", sanity=True),
         cc.Schema("extra2", [t2.DATA + "/tl2extra.tl2"], tl2="*", sanity=True)]
    if c.thorough:
        s.append(cc.Schema("cases2", [cc.TLS + "/cases.tl2"], tl2="*", sanity=True))
    return s


def run_tl2(c, model, sc, rng, per):
    """TL2-origin structs: presence is the hidden bit alone; histories of Set(true)/Set(false)/Set(value)/Clear, observed
    through IsSet after every step, the TL2 bytes, and (oracle) TL2/JSON round trips + JSON keys of the final object"""
    lines = ra.acc2_lines(sc, rng, per)
    res = c.tie("acc2:" + sc.sid, lines, sc.impl, model, prefix=ra.prefix(sc), canon=ra.canon_acc)
    for l, a, b in res:
        if not a.startswith("ok "):
            c.count("acc2:impl-" + a.split(" ")[0])
            if a in ("panic", "CRASH", "TIMEOUT", "no-method", "bad-sig", "no-field"):
                c.oracle_fail(l, "accessor history does not run: " + a, l)
            continue
        f = l.split(" ")
        o = dict(p.split("=", 1) for p in a.replace(" | ", " ").split(" ")[1:] if "=" in p)
        steps = o["steps"].split(";")
        ops = f[6].split(",")
        probs = []
        prev = None
        for op, st in zip(ops, steps):
            cur = dict(p.split(":") for p in st.split(","))
            i = op[1:].split(":")[0]
            want = "0" if (op[0] == "c" or op.endswith(":0")) else "1"
            if cur.get(i) != want:
                probs.append("IsSet reports %s right after %s" % (cur.get(i), op))
            if prev is not None:
                ch = [j for j in cur if j != i and cur[j] != prev.get(j)]
                if ch:
                    probs.append("IsSet of other fields changed by %s: %s" % (op, ",".join(ch)))
            prev = cur
        final = dict(p.split(":") for p in o["final"].split(","))
        jk = dict(p.split(":") for p in o["jkeys"].split(","))
        bad = [j for j in final if jk.get(j) != final[j]]
        if bad and o.get("js") != "werr":
            probs.append("JSON has/lacks the key of fields whose IsSet says otherwise: " + ",".join(bad))
        if o.get("js") == "n/a":
            c.count("skipped:json-round-trip-fails-before-the-call")
        for k in ("t2", "js"):
            if o.get(k) not in ("same", "n/a"):
                probs.append("%s round trip of the final object: %s" % (k, o.get(k, "?")[:40]))
        if probs:
            c.oracle_fail(l, "TL2-origin accessors leave presence inconsistent: " + "; ".join(probs[:4]), l)


def run(c):
    c.lean(MODULES, THEOREMS, sources=SOURCES)
    corpus = cc.corpus(c) if c.thorough else cc.corpus(c, small=True)[:2]
    only = os.environ.get("C43_ONLY")
    schemas = [s for s in corpus if not only or s.sid in only.split(",")]
    model, hcodec, schemas = cc.prepare(c, schemas)
    hginfo = ra.build_hginfo(c)
    rng = c.rng
    per = 12 if c.thorough else 4
    _, _, schemas2 = cc.prepare(c, [x for x in tl2_schemas(c) if not only or x.sid in only.split(",")])
    for sc in schemas2:
        if ra.export_ginfo(c, hginfo, sc):
            run_tl2(c, model, sc, rng, 120 if c.thorough else 40)
    for sc in schemas:
        if not ra.export_ginfo(c, hginfo, sc):
            continue
        lines = ra.acc_lines(sc, rng, per)
        # field-backed external masks on fields that also have a hidden TL2 presence bit: the same call with a nil mask pointer.
        # The TL1 mask cannot follow (the caller withheld it), so there is no model tie; what the property still demands is that
        # IsSet (which takes no mask for such fields) reports the field present after Set and absent after Clear, others unchanged.
        I = sc.desc["instances"]
        zf = []
        for f in (l.split(" ") for l in lines):
            if len(f) == 12 and f[10].startswith("f") and f[6] != "-":
                tgt = I[I[int(f[2])]["fields"][int(f[6].split(":")[0])]["ty"]]
                fi = (tgt.get("fields") or [])[int(f[7].split(":")[0])] if tgt.get("fields") else None
                if fi is not None and fi.get("tl2bit") is not None and not fi.get("isBit"):
                    zf.append(" ".join(f[:10] + ["z" + f[10]] + [",".join(":".join(r.split(":")[:2] + ["z" + r.split(":", 2)[2]]) if r.split(":", 2)[2].startswith("f") else r for r in f[11].split(","))]))
        from vlib.core import run_lines
        for l, a in zip(zf, run_lines(sc.impl, zf, prefix=ra.prefix(sc), mem_limit=c.impl_mem_limit, timeout=c.impl_timeout)):
            c.evaluations += 1
            c.count("acc:nil-field-mask-pointer:" + a.split(" ")[0])
            if not a.startswith("ok "):
                if a in ("panic", "CRASH", "TIMEOUT"):
                    c.oracle_fail(l, "accessor call with a nil mask pointer does not return normally: " + a, l)
                continue
            f = l.split(" ")
            i = f[7].split(":")[0]
            o = dict(p.split("=", 1) for p in a.replace(" | ", " ").split(" ")[1:] if "=" in p)
            after = dict(p.split(":") for p in o["isset"].split(","))
            before = dict(p.split(":") for p in o["before"].split(","))
            want = "0" if f[8] == "clear" else "1"
            probs = []
            if after.get(i) != want:
                probs.append("IsSet reports %s after %s with a nil mask pointer" % (after.get(i), f[8]))
            ch = [j for j in after if j != i and after[j] != before.get(j)]
            if ch:
                probs.append("IsSet of other fields changed: " + ",".join(ch))
            if probs:
                c.oracle_fail(l, "accessor called with a nil mask pointer leaves the reported presence wrong: " + "; ".join(probs), l)
        res = c.tie("acc:" + sc.sid, lines, sc.impl, model, prefix=ra.prefix(sc), canon=ra.canon_acc)
        for l, a, b in res:
            if not a.startswith("ok "):
                c.count("acc:impl-" + a.split(" ")[0])
                if a in ("panic", "CRASH", "TIMEOUT"):
                    c.oracle_fail(l, "accessor call does not return normally: " + a, l)
                continue
            f = l.split(" ")
            i = f[7].split(":")[0]
            o = dict(p.split("=", 1) for p in a.replace(" | ", " ").split(" ")[1:] if "=" in p)
            after = dict(p.split(":") for p in o["isset"].split(","))
            before = dict(p.split(":") for p in o["before"].split(","))
            want = "0" if (f[8] == "clear" or f[9] == "0") else "1"
            probs = []
            if after.get(i) != want:
                probs.append("IsSet reports %s after %s %s" % (after.get(i), f[8], f[9]))
            ch = [j for j in after if j != i and after[j] != before.get(j)]
            if ch:
                probs.append("IsSet of other fields changed: " + ",".join(ch))
            for k in ("t1", "t2", "js"):
                if o.get(k) == "n/a" and k == "js":
                    c.count("skipped:json-round-trip-fails-before-the-call")
                if o.get(k) not in ("same", "n/a"):
                    probs.append("%s round trip: %s" % (k, o.get(k)[:40]))
            if o["w1b"] == "werr":
                probs.append("TL1 writer refuses the object")
            if not probs:
                continue
            shared, sized = ra.acc_guards(sc, l)
            if sized and all(p.startswith(("TL1 writer refuses", "t1 round", "t2 round", "js round")) for p in probs):
                c.count("skipped:value-size-depends-on-object")      # the donor value does not fit the nat sizes of this object
                continue
            if shared:
                c.oracle_failures.append({"key": K_SHARED, "what": "; ".join(probs), "input": l})
                c.count("known:C43-shared-mask")
            else:
                c.oracle_fail(l, "accessor leaves presence inconsistent: " + "; ".join(probs), l)
