"""C42 — Weighted semaphore never over-admits and never loses wakeups (DESIGN.md §4 C42).

Lean: model of internal/vkgo/pkg/semaphore/semaphore.go as an atomic-step state machine + theorems over all
histories (lean/TLVerif/Sema, lean/TLVerif/Props/C42.lean).
Tie: sequential histories driven through the real semaphore.Weighted (go/hsema, in-package overlay that reads
cur/size/queue under the semaphore's own mutex) against the compiled model; the property's own oracle (below) is
evaluated on every implementation output.  Search only: concurrent random mixes under the race detector.
"""
import os
import subprocess
import threading

from vlib import core

MODULES = ["TLVerif.Props.C42"]
THEOREMS = ["TLVerif.Props.C42." + t for t in [
    "code_shape", "admit_within_size", "admit_within_size_history", "cur_accounting", "nonforced_never_pushes_above",
    "cur_bounded_without_force",
    "no_lost_wakeup", "no_lost_wakeup_step", "over_release_guard_needed",
    "no_lost_wakeup_fails_with_strict_gt", "strict_gt_history_now_fine", "strict_gt_hanging_state", "strict_gt_gap_breaks",
    "strict_gt_differs_only_in_gap",
    "release_restores", "setSize_restores", "release_admits_front", "setSize_admits_front", "cancel_preserves",
    "cancel_not_admitted", "failed_acquire_unchanged", "reachable_wf", "acquire_returns_once",
    "queue_in_arrival_order", "fifo_admission", "fifo_history", "queue_conservation", "waitEmpty_idle_neutral", "no_overflow_bound"]]

# the case line of the lost wake-up this check found in the code before repository commit 616a0ec3 (strict `>` in the
# cancellation branch; recorded as fixed); always run, so that a regression is reported with this input
ZERO_GAP_LINE = "sema.h 1 t1,a1,a0,c0"

HERE = os.path.dirname(os.path.abspath(__file__))
ROOT = os.path.dirname(HERE)


# ----------------------------------------------------------------------------------------------------------------
# The property's oracle, evaluated on the implementation's observation words.  It is written from the property
# statement (admission bound, accounting, FIFO prefix, no fitting first waiter asleep), not from the model.
# State: (size, cur, queue=((ticket, weight),...), next_ticket, tainted)
#   tainted = a fitting first waiter is currently asleep for an already reported / excused reason
#             (over-release panic = documented misuse).

class Oracle:
    def __init__(self):
        self.cache = {}

    def step(self, st, tok, word):
        k = (st, tok, word)
        r = self.cache.get(k)
        if r is None:
            r = self._step(st, tok, word)
            if len(self.cache) < 2000000:
                self.cache[k] = r
        return r

    @staticmethod
    def _step(st, tok, word):
        """-> (new_state or None, [(kind, text)])   kind is 'fail'"""
        size, cur, queue, nxt, tainted = st
        fails = []
        p = word.split(":")
        if len(p) != 5:
            return None, [("fail", "operation %s: no observation (%s)" % (tok, word))]
        res = p[0]
        panics = 0  # WaitEmpty callers admitted during this operation whose Release(size) panicked
        if "!" in res:
            res, _, pz = res.partition("!")
            panics = int(pz) if pz.isdigit() else -1
        try:
            cur2, size2 = int(p[1]), int(p[2])
            q2 = [] if p[3] == "-" else [int(x) for x in p[3].split(".")]
            done = [] if p[4] == "-" else [int(x) for x in p[4].split(".")]
        except ValueError:
            return None, [("fail", "operation %s: malformed observation %s" % (tok, word))]
        c = tok[0]
        n = int(tok[1:]) if len(tok) > 1 else 0
        we = c == "w"  # WaitEmpty = Acquire(ctx, size) ; Release(size)
        if we:
            c, n = "a", size
        legal = {"a": ("ok", "blk", "panic") if we else ("ok", "blk", "doom", "panic"), "x": ("ok", "err", "panic"), "t": ("T", "F", "panic"),
                 "r": ("ok", "panic"), "f": ("ok", "panic"), "s": ("ok",), "c": ("err", "noop"), "o": ("ok",)}[c]
        if res not in legal:
            return None, [("fail", "operation %s returned %s" % (tok, res))]
        # --- size only moves by SetSize
        want_size = n if c == "s" else size
        if size2 != want_size:
            fails.append(("fail", "size is %d after %s (expected %d)" % (size2, tok, want_size)))
        # --- panics only where the API documents them
        if res == "panic":
            over = c == "r" and n >= 0 and cur - n < 0
            if not (n < 0 and c in "axtrf") and not over:
                fails.append(("fail", "undocumented panic in %s" % tok))
        # --- an Acquire that the size can satisfy must wait IN the queue (a caller parked outside it is never woken)
        if res == "doom" and n <= size:
            fails.append(("fail", "%s (weight %d <= size %d) is parked outside the queue: it can never be admitted" % (tok, n, size)))
        # --- queue before admissions: arrival at the back, cancelled ticket removed
        qb = list(queue)
        own = None
        cancelled_front = False
        if c in "ax":
            own = nxt
            nxt += 1
            if res == "blk":
                qb.append((own, n, we))
        if c == "c" and res == "err":
            if qb and qb[0][0] == n:
                cancelled_front = True
            qb = [e for e in qb if e[0] != n]
        direct = (c in "ax" and res == "ok") or (c == "t" and res == "T")
        if direct and queue:
            fails.append(("fail", "%s succeeded on the fast path while %d waiter(s) were queued (FIFO)" % (tok, len(queue))))
        dq = [t for t in done if t != own] if direct and c != "t" else list(done)
        if direct and c != "t" and own not in done:
            fails.append(("fail", "%s returned nil but ticket %d is not reported as done" % (tok, own)))
        # --- FIFO: the admitted tickets are exactly a prefix of the queue, the rest stays in order
        k = len(dq)
        if [e[0] for e in qb[:k]] != dq:
            fails.append(("fail", "admitted tickets %s are not the oldest waiters %s (FIFO)" % (dq, [e[0] for e in qb])))
            return None, fails
        rest = qb[k:]
        if [e[1] for e in rest] != q2:
            fails.append(("fail", "queue after %s is %s, expected %s" % (tok, q2, [e[1] for e in rest])))
            return None, fails
        # --- WaitEmpty callers admitted now run Release(size) at once, which can admit further waiters: the phases
        #     cannot be told apart from outside, so only the overall balance is checked for such operations
        kwe = sum(1 for e in qb[:k] if e[2]) + (1 if we and direct else 0)
        if panics < 0 or panics > kwe:
            fails.append(("fail", "%d panics reported but %d WaitEmpty callers were admitted" % (panics, kwe)))
        if kwe:
            run = cur + (n if direct else 0) + sum(e[1] for e in qb[:k]) - kwe * max(size2, 0)  # Release(<0) panics, subtracts nothing
            if c == "r" and n >= 0:
                run -= n
            if c == "f" and res == "ok":
                run += n
            if run != cur2:
                fails.append(("fail", "cur is %d after %s, admissions/releases (incl. %d WaitEmpty releases of %d) account for %d"
                              % (cur2, tok, kwe, size2, run)))
            asleep = bool(q2) and q2[0] <= size2 - cur2
            if asleep and not panics and not tainted:
                fails.append(("fail", "lost wake-up after %s: first waiter of weight %d fits into size-cur=%d and is asleep"
                              % (tok, q2[0], size2 - cur2)))
            return (size2, cur2, tuple(rest), nxt, asleep), fails
        # --- accounting and the admission bound (size in force = size after the op)
        run = cur
        if c == "r" and n >= 0:
            run -= n
        if c == "f" and res == "ok":
            run += n
        if direct:
            run += n
            if run > size2:
                fails.append(("fail", "%s admitted weight %d: total %d exceeds size %d" % (tok, n, run, size2)))
        for (t, w, _) in qb[:k]:
            run += w
            if run > size2:
                fails.append(("fail", "waiter %d (weight %d) admitted: total %d exceeds size %d" % (t, w, run, size2)))
        if run != cur2:
            fails.append(("fail", "cur is %d after %s, admissions/releases account for %d" % (cur2, tok, run)))
        # --- no fitting first waiter asleep
        asleep = bool(q2) and q2[0] <= size2 - cur2
        if asleep:
            restoring = (c == "r" and res == "ok") or c == "s"
            over = c == "r" and res == "panic" and n >= 0
            if over:
                pass  # documented misuse: Release of more than held
            elif tainted and not restoring:
                pass  # still the same excused situation
            elif c == "c" and cancelled_front and size2 == cur2 and q2[0] == 0 and not k:
                fails.append(("fail", "lost wake-up after %s: first waiter (weight 0) fits (size=cur=%d) but was not woken when "
                              "the front waiter was cancelled" % (tok, cur2)))
            else:
                fails.append(("fail", "lost wake-up after %s: first waiter of weight %d fits into size-cur=%d and is asleep"
                              % (tok, q2[0], size2 - cur2)))
        return (size2, cur2, tuple(rest), nxt, asleep), fails


def eval_line(orc, line, out):
    """-> list of (kind, text) for one `sema.h` case"""
    f = line.split(" ")
    if len(f) != 3:
        return []
    try:
        size0 = int(f[1])
    except ValueError:
        return []
    toks = f[2].split(",")
    if out == "bad-op":
        return []
    words = out.split(" ")
    st = (size0, 0, (), 0, False)
    res = []
    for i, tok in enumerate(toks):
        if i >= len(words):
            res.append(("fail", "no observation for operation #%d %s (%s)" % (i, tok, out[-40:])))
            break
        st, fails = orc.step(st, tok, words[i])
        res += fails
        if st is None:
            break
    return res


# ----------------------------------------------------------------------------------------------------------------
# generators

def well_formed(tok):
    if tok == "o":
        return True
    if not tok or tok[0] not in "axtrfsc":
        return False
    try:
        v = int(tok[1:])
    except ValueError:
        return False
    return not (tok[0] == "c" and (v < 0 or not tok[1:].isdigit()))


def exhaustive(sizes, length, base, max_cancel):
    """All histories of exactly `length` operations over `base` plus `c<k>` for every ticket k issued so far."""
    out = []
    for sz in sizes:
        pre = "sema.h %d " % sz

        def rec(prefix, depth, tickets):
            if depth == length:
                out.append(pre + ",".join(prefix))
                return
            for t in base:
                prefix.append(t)
                rec(prefix, depth + 1, tickets + (1 if t[0] in "axw" else 0))
                prefix.pop()
            for k in range(min(tickets, max_cancel)):
                prefix.append("c%d" % k)
                rec(prefix, depth + 1, tickets)
                prefix.pop()
        rec([], 0, 0)
    return out


class Sim:
    """Reference simulator used ONLY to steer the random generator towards mostly-valid histories."""

    def __init__(self, size):
        self.size, self.cur, self.q, self.next, self.held, self.doomed = size, 0, [], 0, [], []

    def notify(self):
        rel = 0
        while self.q and self.size - self.cur >= self.q[0][1]:
            t, w, we = self.q.pop(0)
            self.cur += w
            if we:
                rel += 1
            else:
                self.held.append(w)
        for _ in range(rel):  # WaitEmpty callers release the current size at once
            if self.size >= 0:
                self.cur -= self.size
                if self.cur >= 0:
                    self.notify()

    def do(self, tok):
        c = tok[0]
        n = int(tok[1:]) if len(tok) > 1 else 0
        if c == "w":
            t = self.next
            self.next += 1
            if self.size < 0:
                return
            if self.cur <= 0 and not self.q:
                if self.cur < 0:
                    pass  # Release panics, cur unchanged overall
            else:
                self.q.append((t, self.size, True))
        elif c in "ax":
            t = self.next
            self.next += 1
            if n < 0:
                return
            if self.size - self.cur >= n and not self.q:
                self.cur += n
                self.held.append(n)
            elif n > self.size:
                if c == "a":
                    self.doomed.append(t)
            elif c == "a":
                self.q.append((t, n, False))
        elif c == "t":
            if n >= 0 and self.size - self.cur >= n and not self.q:
                self.cur += n
                self.held.append(n)
        elif c == "r":
            if n >= 0:
                self.cur -= n
                if n in self.held:
                    self.held.remove(n)
                if self.cur >= 0:
                    self.notify()
        elif c == "f":
            if n >= 0:
                self.cur += n
                self.held.append(n)
        elif c == "s":
            self.size = n
            self.notify()
        elif c == "c":
            if any(e[0] == n for e in self.q):
                front = self.q[0][0] == n
                self.q = [e for e in self.q if e[0] != n]
                if front and self.size > self.cur:
                    self.notify()
            elif n in self.doomed:
                self.doomed.remove(n)


def random_history(rng, length, maxsize, maxw, zero_ok, wild, wait_empty=False):
    size0 = rng.range(0, maxsize)
    sim = Sim(size0)
    toks = []

    def weight():
        if wild and rng.chance(1, 25):
            return rng.choice([-1, -2, 10**9, 2**40, maxsize + 1, maxsize * 3 + 1])
        lo = 0 if zero_ok else 1
        return rng.range(lo, maxw)

    for _ in range(length):
        r = rng.below(100)
        if r < 30:
            tok = "a%d" % weight()
        elif r < 52:
            if sim.held and not (wild and rng.chance(1, 12)):
                tok = "r%d" % rng.choice(sim.held)
            else:
                tok = "r%d" % weight()
        elif r < 62:
            tok = "t%d" % weight()
        elif r < 76:
            live = [e[0] for e in sim.q] + sim.doomed
            if live and not rng.chance(1, 8):
                tok = "c%d" % (live[0] if rng.chance(1, 2) else rng.choice(live))
            else:
                tok = "c%d" % rng.below(sim.next + 2)
        elif r < 85:
            tok = "s%d" % (rng.range(0, maxsize) if not (wild and rng.chance(1, 20)) else rng.choice([-1, 2**40, 0]))
        elif r < 90:
            tok = "f%d" % weight()
        elif r < 96:
            tok = "x%d" % weight()
        else:
            tok = "o"
        if wait_empty and rng.chance(1, 8):
            tok = "w"
        toks.append(tok)
        sim.do(tok)
    return "sema.h %d %s" % (size0, ",".join(toks))


def sstep(st, tok):
    """Pure reference step on (size, cur, queue, next, doomed) — generator steering only (see Sim)."""
    size, cur, q, nxt, doomed = st
    c = tok[0]
    n = int(tok[1:]) if len(tok) > 1 else 0

    def notify(size, cur, q):
        q = list(q)
        while q and size - cur >= q[0][1]:
            cur += q.pop(0)[1]
        return cur, tuple(q)
    if c in "ax":
        t = nxt
        nxt += 1
        if n < 0:
            pass
        elif size - cur >= n and not q:
            cur += n
        elif n > size:
            if c == "a":
                doomed = doomed + (t,)
        elif c == "a":
            q = q + ((t, n),)
    elif c == "t":
        if n >= 0 and size - cur >= n and not q:
            cur += n
    elif c == "r":
        if n >= 0:
            cur -= n
            if cur >= 0:
                cur, q = notify(size, cur, q)
    elif c == "f":
        if n >= 0:
            cur += n
    elif c == "s":
        size = n
        cur, q = notify(size, cur, q)
    elif c == "c":
        if any(t == n for t, _ in q):
            front = q[0][0] == n
            q = tuple(e for e in q if e[0] != n)
            if front and size > cur:
                cur, q = notify(size, cur, q)
        elif n in doomed:
            doomed = tuple(t for t in doomed if t != n)
    return (size, cur, q, nxt, doomed)


def transition_cover(sizes, depth, base):
    """Breadth-first over the reference state space: one history per state reachable within depth-1 operations,
    extended by EVERY operation of `base` and the cancel of every live ticket: every transition out of every such state."""
    out = []
    for sz in sizes:
        pre = "sema.h %d " % sz
        st0 = (sz, 0, (), 0, ())
        seen = {st0: ""}
        frontier = [st0]
        for _ in range(depth):
            nf = []
            for st in frontier:
                h = seen[st]
                hp = h + "," if h else ""
                for op in list(base) + ["c%d" % t for t, _ in st[2]] + ["c%d" % t for t in st[4]]:
                    out.append(pre + hp + op)
                    ns = sstep(st, op)
                    if ns not in seen:
                        seen[ns] = hp + op
                        nf.append(ns)
            frontier = nf
    return out


FULL = (["a%d" % w for w in range(4)] + ["t%d" % w for w in range(4)] + ["r%d" % w for w in range(4)] +
        ["f%d" % w for w in range(4)] + ["s%d" % w for w in range(4)] + ["x%d" % w for w in range(4)] + ["o"])
NEG = ["a-1", "t-1", "r-1", "f-1", "s-1", "x-1"]
MID = ["a0", "a1", "a2", "a3", "t1", "t2", "r0", "r1", "r2", "s0", "s1", "s3", "f1", "x1"]
CORE = ["a0", "a1", "a2", "t1", "r1", "r2", "s0", "s2"]
TINY = ["a0", "a1", "a2", "r1", "s1"]
WMID = ["w", "a0", "a1", "a2", "t1", "t2", "r1", "r2", "s0", "s1", "s3", "f1"]  # with WaitEmpty


def gobuild(c, name, ov, race):
    """Same as Check.harness (go build -tags verif -overlay) but returns (argv, rc, output) instead of finishing,
    so that both harness variants can be built in the background while Lean builds."""
    import json
    srcdir = os.path.join(ROOT, "go", "hsema")
    pkg = "internal/verifh/hsema"
    m = {}
    for fn in sorted(os.listdir(srcdir)):
        if fn.endswith(".go"):
            m[os.path.join(core.REPO, pkg, fn)] = os.path.join(srcdir, fn)
    for k, v in ov.items():
        m[os.path.join(core.REPO, k)] = v
    ovf = os.path.join(c.workdir, "overlay-%s.json" % name)
    json.dump({"Replace": m}, open(ovf, "w"))
    binp = os.path.join(c.workdir, "bin", name)
    os.makedirs(os.path.dirname(binp), exist_ok=True)
    if os.path.exists(binp):
        os.remove(binp)
    cmd = ["go", "build", "-tags", "verif", "-overlay", ovf, "-o", binp] + (["-race"] if race else []) + ["./" + pkg]
    rc, out = core.run(cmd, cwd=core.REPO, env=core.goenv())
    return [binp], rc, out


def run_soak(cmd, lines, jobs):
    """Run every soak line in its own process of the -race harness; returns [(line, stdout, stderr, rc)]."""
    res = [None] * len(lines)
    env = dict(os.environ)
    env["GORACE"] = "halt_on_error=0 exitcode=66"
    idx = {"i": 0}
    lock = threading.Lock()

    def work():
        while True:
            with lock:
                i = idx["i"]
                idx["i"] += 1
            if i >= len(lines):
                return
            try:
                p = subprocess.run(cmd, input=(lines[i] + "\n").encode(), stdout=subprocess.PIPE, stderr=subprocess.PIPE,
                                   env=env, timeout=240)
                res[i] = (lines[i], p.stdout.decode(errors="replace").strip(), p.stderr.decode(errors="replace"), p.returncode)
            except subprocess.TimeoutExpired:
                res[i] = (lines[i], "fail harness-timeout", "", -1)

    ths = [threading.Thread(target=work) for _ in range(jobs)]
    for t in ths:
        t.start()
    for t in ths:
        t.join()
    return res


def run(c):
    ov = {"internal/vkgo/pkg/semaphore/verif_hooks.go": os.path.join(ROOT, "go", "hsema", "overlay", "verif_hooks.go")}
    built = {}
    ths = [threading.Thread(target=lambda n=n, r=r: built.__setitem__(n, gobuild(c, n, ov, r)))
           for n, r in (("hsema", False), ("hsema-race", True))]
    for t in ths:
        t.start()
    c.facts(["Sema"])
    c.lean(MODULES, THEOREMS, sources=["TLVerif.Sema.Semaphore", "TLVerif.Sema.SemaphoreLemmas", "TLVerif.Sema.Driver"])
    model = c.model_exe()
    for t in ths:
        t.join()
    for n in ("hsema", "hsema-race"):
        if built[n][1] != 0:
            c.build_failed(n, built[n][2])
    impl, impl_race = built["hsema"][0], built["hsema-race"][0]
    rng = c.rng
    c.trusted += ["go/hsema harness (goroutine per blocking Acquire, observable-Done context, in-package snapshot "
                  "overlay VerifSnapshot taking the semaphore's own mutex)",
                  "modelled, not verified: sync.Mutex gives mutual exclusion (one critical section = one atomic step); "
                  "container/list is a FIFO list; closing `ready` wakes exactly that waiter; Go channel/select semantics"]
    c.assumptions += ["no int64 overflow of size/cur/weights (the model uses mathematical integers; theorem "
                      "no_overflow_bound bounds |cur| by the sum of the arguments; generated weights stay below 2^41)",
                      "Release of more than is held is the documented misuse (panics): the no-lost-wakeup theorem "
                      "excludes exactly that step (over_release_guard_needed shows it must), the oracle excuses the sleepers it leaves until the next Release/SetSize",
                      "the order in which waiters admitted by ONE notifyWaiters call return is not observable; the "
                      "oracle checks that the admitted set is a prefix of the queue",
                      "concurrent -race mixes are search only (not reproducible from the seed)"]

    orc = Oracle()
    stats = {"lines": 0}

    def process(name, lines, procs="1"):
        """tie + oracle on one batch (batches keep memory flat in the thorough tier).  The sequential driver needs no
        parallelism inside one harness process: GOMAXPROCS=1 halves its cost; the random batch runs with 4."""
        B = 400000
        env = dict(os.environ)
        env["GOMAXPROCS"] = procs
        for i in range(0, len(lines), B):
            res = c.tie(name, lines[i:i + B], impl, model, nontrivial=lambda l, a: a != "bad-op", env=env)
            stats["lines"] += len(res)
            for l, a, _ in res:
                if a in ("panic", "CRASH"):
                    c.oracle_fail(l, "harness did not survive the history (%s)" % a, l)
                    continue
                for kind, text in eval_line(orc, l, a):
                    c.oracle_fail(l, text, l)

    lines = []
    if c.replay:
        for f in c.replay.get("failures", []):
            if f.get("input") and f["input"].startswith("sema.h "):
                lines.append(f["input"])
        for t in c.replay.get("broken_ties", []):
            lines.append(t["line"])
    # fixed cases: the (repaired) zero-weight cancellation gap and its permanent-hang variant, documented examples, malformed stream
    lines += [ZERO_GAP_LINE, "sema.h 1 t1,a1,a0,s0,r1,c0,t0,r0", "sema.h 2 a-1,x3,x1,a5,c1,c3,r1,f2,s-1",
              "sema.h 1 a1,r2,a1,a1,o,r0", "sema.h 3 f5,a1,a2,s9,c0,c1,r8", "sema.h 0 a0,t0,a1,s1,c0",
              "sema.h x a1", "sema.h 1 q1", "sema.h 1", "sema.h 1 a1,,r1", "sema.h 1 c-1", "sema.h 1 a", "sema.q 1 a1",
              "sema.h 1 c1x", "sema.h 1 a1 r1", "sema.h 9223372036854775808 a1", "sema.h +1 a+1,c0,c2147483647",
              "sema.h 1 c2147483648", "sema.h 1 a1_0", "sema.h 1 c+0", "sema.h 1 a--1", "sema.h 1 c1_0",
              "sema.h 1 a9223372036854775807,r-9223372036854775808", "sema.h 0x1 a1", "sema.h 1 a0x1",
              "sema.h 1 t1,w,s5,r1", "sema.h 1 t1,w,w,s0,r1,o", "sema.h 2 w,t2,w,a1,r2,r1", "sema.h -1 w", "sema.h 2 t1,r2,w",
              "sema.h 1 w1", "sema.h 1 t1,w,c0,w,w,r1"]
    sizes = [0, 1, 2, 3]
    if c.thorough:
        nrand, nlong = 100000, 10000
    else:
        nrand, nlong = 6000, 500
    for i in range(nrand):
        lines.append(random_history(rng, rng.range(4, 24), rng.range(0, 5), rng.range(1, 5), rng.chance(1, 2), rng.chance(1, 3)))
    for i in range(nlong):
        lines.append(random_history(rng, rng.range(40, 300), rng.range(1, 12), rng.range(1, 9), rng.chance(1, 3), rng.chance(1, 4)))
    for i in range(nrand // 4):
        lines.append(random_history(rng, rng.range(4, 40), rng.range(0, 5), rng.range(1, 5), rng.chance(1, 2), rng.chance(1, 3), True))
    # malformed operation words inside otherwise valid histories
    for i in range(200):
        l = random_history(rng, rng.range(1, 6), 3, 3, True, False).split(" ")
        toks = l[2].split(",")
        toks[rng.below(len(toks))] = rng.choice(["", "z1", "a1.5", "c-1", "r", "o1", "a+", "t0x10", "A1", "c1c"])
        lines.append(" ".join(l[:2]) + " " + ",".join(toks))
    process("random", lines, "4")
    if c.thorough:
        plan = [("exh-full4", lambda: exhaustive(sizes, 4, FULL, 4)), ("exh-neg2", lambda: exhaustive(sizes, 2, FULL + NEG, 2)),
                ("exh-mid5", lambda: exhaustive([2], 5, MID, 3)), ("exh-core6", lambda: exhaustive([1, 2], 6, CORE, 3)),
                ("exh-we5", lambda: exhaustive([1, 2], 5, WMID, 3)),
                ("cover7", lambda: transition_cover(sizes, 7, FULL + NEG))]
        desc = "[(full 25 ops w<=3, L=4, sizes 0..3), (mid 14 ops, L=5, size 2), (core 8 ops, L=6, sizes 1..2), (12 ops incl. WaitEmpty, L=5, sizes 1..2)]; transition cover depth 7"
    else:
        plan = [("exh-full3", lambda: exhaustive([1, 2], 3, FULL, 3)), ("exh-neg2", lambda: exhaustive(sizes, 2, FULL + NEG, 2)),
                ("exh-mid3", lambda: exhaustive(sizes, 3, MID, 3)), ("exh-core4", lambda: exhaustive([1, 2, 3], 4, CORE, 3)),
                ("exh-tiny5", lambda: exhaustive([1, 2], 5, TINY, 2)), ("exh-we3", lambda: exhaustive([0, 1, 2], 3, WMID, 3)),
                ("cover4", lambda: transition_cover(sizes, 4, FULL + NEG))]
        desc = ("[(full 25 ops w<=3, L=3, sizes 1..2), (full+negative, L=2, sizes 0..3), (mid 14 ops, L=3, sizes 0..3), (core 8 ops, L=4, "
                "sizes 1..3), (tiny 5 ops, L=5, sizes 1..2), (12 ops incl. WaitEmpty, L=3, sizes 0..2)]; transition cover depth 4")
    if c.thorough:
        for name, gen in plan:
            ls = gen()
            c.count("lines:" + name, len(ls))
            process(name, ls)
            del ls
    else:
        # quick tier: one tie for all exhaustive families (process start-up dominates on a loaded machine)
        allq = []
        for name, gen in plan:
            ls = gen()
            c.count("lines:" + name, len(ls))
            allq += ls
        process("exhaustive", allq)

    # ---------------- concurrent mixes under the race detector (search only)
    soak = []
    nsoak = 96 if c.thorough else 12
    for i in range(nsoak):
        mode = [0, 4, 7, 23, 3, 31, 12, 5, 36, 44, 32, 15][i % 12]
        size = rng.range(1, 6)
        maxw = rng.range(1, size) if mode & 3 == 0 and mode & 4 == 0 else rng.range(1, size + 2)
        soak.append("sema.soak %d %d %d %d %d %d" % (rng.below(2**31), rng.range(2, 12), 400 if c.thorough else 150,
                                                      size, maxw, mode))
    if c.replay:
        for f in c.replay.get("failures", []):
            if f.get("input") and f["input"].startswith("sema.soak "):
                soak.insert(0, f["input"])
    for l, out, err, rc in run_soak(impl_race, soak, min(core.NCPU, 8)):
        c.evaluations += 1
        c.distinct.add("soak:" + l)
        c.count("sema.soak:" + (out.split(" ")[0] if out else "none"))
        if "DATA RACE" in err:
            c.oracle_fail(l, "data race reported by the race detector: " + " | ".join(
                x.strip() for x in err.split("\n") if "semaphore.go" in x)[:300], l)
        elif out != "ok":
            c.oracle_fail(l, "concurrent mix: " + (out or ("no output, rc=%d %s" % (rc, err[-200:]))), l)

    # informational probe (WaitEmpty is not in the property's operation list): WaitEmpty reads s.size outside the
    # mutex, which races with SetSize.  Recorded in the evidence, never a verdict.
    probe = run_soak(impl_race, ["sema.soak %d 6 300 3 3 34" % rng.below(2**31)], 1)[0]
    c.extra["waitempty_setsize_probe"] = (
        "race detector reports a data race between WaitEmpty (unsynchronised read of s.size) and SetSize"
        if "DATA RACE" in probe[2] and "WaitEmpty" in probe[2] else "no race reported in this run (%s)" % probe[1][:60])

    c.extra["rule"] = (
        "sema.h lines = whole sequential histories on NewWeighted(size0). Exhaustive: every history of exactly L operations "
        "over an alphabet plus the cancel of every issued ticket, for (alphabet, L, sizes) in %s (= from every reference state "
        "reachable within depth-1 operations of the full alphabet incl. negative arguments, every operation and every cancel "
        "of a live ticket). Random: %d histories of length 4..24 and %d of length 40..300 steered by a reference simulator "
        "(mostly valid releases/cancels, some misuse, negative and huge arguments), malformed operation words. distinct = "
        "distinct line text, non-trivial = not rejected as bad-op. sema.soak lines = %d concurrent random mixes on the -race "
        "build (modes: fixed size / cancellation / force+resize / weight 0 / WaitEmpty), invariants sampled under the semaphore's own "
        "lock; search only." % (desc, nrand, nlong, nsoak))
