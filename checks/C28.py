"""C28 — the backward-compatibility linter is sound for TL1 wire compatibility (DESIGN.md §4 C28)."""
from checks import lintlib as L
from vlib.core import run_lines

LEVEL = "translation_validation"
MODULES = ["TLVerif.Props.C28"]
THEOREMS = ["TLVerif.Props.C28." + t for t in [
    "wire_sound",
    "wire_sound_function",
    "wire_sound_elems",
    "linter_sound_fails",
    "witnesses_accepted_not_compat",
    "tag_change_breaks_wire",
    "size_bit_breaks_wire"]]

KNOWN_CLASSES = ("bare-ignored", "repeat-opaque", "box-usage-hidden", "tag-ignored", "size-bit", "constant-bit", "panic-fewer-args")


def roots_of(schema):
    """old types (all constructors without template arguments; values are boxed) and functions"""
    out = []
    for c in schema:
        if c["k"] == "f":
            out.append(c["n"])
        elif c["k"] == "t" and not c["ta"] and c["ty"] not in out:
            out.append(c["ty"])
    return out


def run(c):
    import time
    T = [time.time()]
    ph = {}

    def mark(name):
        ph[name] = round(time.time() - T[0], 1)
        T[0] = time.time()
    c.lean(MODULES, THEOREMS, sources=["TLVerif.Lint.Ast", "TLVerif.Lint.Core", "TLVerif.Lint.Spec", "TLVerif.Lint.Wire",
                                       "TLVerif.Lint.WireLemmas", "TLVerif.Lint.Examples", "TLVerif.Lint.Driver"])
    model = c.model_exe()
    impl = c.harness("hlint")
    c.trusted += ["go/hlint harness: token -> TL text renderer (self-checked by the real parser), pure.Kernel + onthefly glue",
                  "modelled, not verified: internal/pure kernel resolution and the onthefly TL1 reader/writer (they are the "
                  "implementation side of the wire comparison; generated Go code is not compiled here)"]
    c.assumptions += ["wire oracle = decode the model-produced old bytes with the NEW schema in internal/pure/onthefly and re-encode: "
                      "must reproduce the bytes; values come from the model's generator (mask-only # fields use only bits the old "
                      "schema uses; sizes 0..3)",
                      "wireCompat covers appended fields guarded by local # fields only; pairs using template-argument masks are "
                      "explored (bytes), not certified"]
    mark('build')
    cases = []
    if c.replay:
        for f in c.replay.get("failures", []):
            k = f.get("key", "")
            if k.startswith("lint.compat "):
                cases.append((k.replace("lint.compat ", "lint.check ", 1), "replay", {}))
        for t in c.replay.get("broken_ties", []):
            if t["line"].startswith("lint.check "):
                cases.append((t["line"], "replay", {}))
    for name, ln in sorted(L.witness_lines(impl).items()):
        if name in L.C28_WITNESSES:
            cases.append((ln, "witness", {"name": name}))
    samples, proto = L.sample_lines(impl)
    for ln, exp, f in samples:
        cases.append((ln, "sample-" + exp, {"file": f}))
    cases += L.build_cases(c, impl, 250 if c.thorough else 24)
    mark('generate')
    # 1. verdicts (model vs code)
    res = c.tie("verdict", [l for l, _, _ in cases], impl, model)
    accepted = []
    for (l, kind, meta), (_, a, _) in zip(cases, res):
        c.count("kind:%s:%s" % (kind, a))
        if a == "acc":
            accepted.append((l, kind, meta))
    mark('verdict-tie')
    # 2. T3 certificates: wireCompat evaluated by the model on every accepted pair
    comp_lines = [l.replace("lint.check ", "lint.compat ", 1) for l, _, _ in accepted]
    comp = run_lines(model, comp_lines)
    # 3. which schemas does the kernel accept (needed for the implementation-side wire oracle)
    schemas = sorted(set(x for l, _, _ in accepted for x in l.split(" ")[1:3]))
    kern = dict(zip(schemas, run_lines(impl, ["lint.kernel " + x for x in schemas])))
    mark('compat+kernel')
    # 4. old values -> bytes (model), then both sides on the bytes
    nseeds = 5 if c.thorough else 2
    gen_lines, owner = [], []
    nokernel = set()
    for idx, (l, kind, meta) in enumerate(accepted):
        o, n = l.split(" ")[1:3]
        if kern.get(o) != "ok" or kern.get(n) != "ok":
            c.count("wire:kernel-rejects-schema")
            nokernel.add(idx)
        roots = roots_of(L.dec(o))
        c.rng.shuffle(roots)
        # an accepted unsafe edit outside the known defect classes should not exist: search much harder there
        suspicious = kind == "unsafe" and meta.get("class") == "guard"
        if suspicious:
            outer = meta.get("outer")
            tys = [cc["ty"] for cc in L.dec(o) if cc["n"] == outer and cc["k"] == "t"]
            roots = [r for r in roots if r in tys or r == outer] + [r for r in roots if r not in tys and r != outer]
        for r in roots[:(8 if kind in ("witness", "sample-acc") or suspicious else 3)]:
            for sd in range(16 if suspicious else nseeds):
                gen_lines.append("lint.wire %s %s %s %d ? s" % (o, n, r, c.rng.below(1 << 30)))
                owner.append(idx)
    gen = run_lines(model, gen_lines)
    wire_lines, wowner, mdiff = [], [], {}
    model_only_diff = {}
    for gl, g, idx in zip(gen_lines, gen, owner):
        if g.startswith("ok "):
            p = g.split(" ")
            wl = gl[:-3] + p[1] + (" r" if p[2] != p[1] else " s")
            if idx in nokernel:
                # the dynamic interpreter cannot be asked: keep the model's answer only
                if p[2] != p[1]:
                    model_only_diff.setdefault(idx, wl)
                continue
            wire_lines.append(wl)
            wowner.append(idx)
            mdiff[wl] = p[2] != p[1]
        else:
            c.count("wire:model-" + g.split(" ")[0])
    mark('model-gen')
    wres = c.tie("wire", wire_lines, impl, model, canon=lambda x: " ".join(x.split(" ")[:2]))
    mark('wire-tie')
    impl_diff = {}   # pair index -> first wire line on which the implementation does not reproduce the bytes
    model_diff = {}
    for (wl, a, b), idx in zip(wres, wowner):
        if a.startswith("ok "):
            p = a.split(" ")
            same = len(p) == 3 and p[2] == p[1] and p[1] == wl.split(" ")[5]
            c.count("wire:impl-" + ("same" if same else "differs"))
            if not same:
                impl_diff.setdefault(idx, wl)
        else:
            c.count("wire:impl-" + a.split(" ")[0])
        if mdiff.get(wl):
            model_diff.setdefault(idx, wl)
    # 5. verdict per accepted pair
    programs = 0
    for idx, ((l, kind, meta), cl, cr) in enumerate(zip(accepted, comp_lines, comp)):
        programs += 1
        wc = cr.startswith("wc=1")
        classes = set()
        if kind == "unsafe":
            classes.add(meta.get("class", "guard"))
        if kind == "mix":
            classes |= set(m.get("class", "guard") for m in meta.get("edits", []))
        classes.discard("guard")
        explained = bool(classes & set(KNOWN_CLASSES))
        c.count("pair:%s:%s%s" % (kind, "certified" if wc else "uncertified[" + cr[5:] + "]", ":known-class" if explained else ""))
        if wc and (idx in impl_diff or idx in model_diff):
            c.oracle_fail(cl, "pair satisfies wireCompat but an old value encodes differently: " + (impl_diff.get(idx) or model_diff.get(idx)),
                          impl_diff.get(idx) or model_diff.get(idx))
            continue
        if idx in impl_diff:
            if kind == "witness" or not explained:
                c.oracle_fail(cl, "accepted by the linter, but an old value is not decoded/re-encoded unchanged by the new schema"
                              + (" (%s)" % meta["name"] if kind == "witness" else " (%s, edits %s)" % (kind, meta)), impl_diff[idx])
            else:
                c.count("pair:wire-break-in-known-class:" + "+".join(sorted(classes)))
        elif idx in model_only_diff and kind != "witness":
            if explained:
                c.count("pair:model-wire-break-in-known-class:" + "+".join(sorted(classes)))
            else:
                c.oracle_fail(cl, "accepted by the linter, but the new schema gives an old value no/another encoding (model encoder; the "
                              "kernel refuses one of the schemas) (%s, edits %s)" % (kind, meta), model_only_diff[idx])
        elif kind == "witness":
            # witnesses whose schemas the kernel refuses are decided on the model: accepted and not wireCompat
            if not wc and (idx in model_diff or idx in model_only_diff):
                c.oracle_fail(cl, "accepted by the linter, but an old value encodes differently under the new schema (model encoder; "
                              "the kernel refuses one of the schemas) (%s)" % meta["name"], model_diff.get(idx) or model_only_diff.get(idx))
            elif not wc:
                c.oracle_fail(cl, "accepted by the linter although not wire compatible (%s)" % meta["name"], cl)
    c.extra["phase_seconds"] = ph
    c.extra["programs"] = programs
    c.extra["certificates_evaluated"] = len(comp)
    c.extra["rule"] = ("pairs: repository samples, witnesses of the known defects, random base schemas x {identity, safe sequences, single "
                       "unsafe edits, mixed sequences}; every pair: Go verdict vs lintCore; every ACCEPTED pair: wireCompat evaluated in "
                       "Lean (certificate), and for up to 4 old constructors/functions x %d pseudo-random old values the model's old "
                       "bytes are decoded and re-encoded by internal/pure/onthefly under BOTH schemas (old: must equal the model's "
                       "bytes = encoder tie; new: must equal the old bytes = C28 oracle); distinct = distinct line text" % nseeds)
